(** C02 — the B+ tree keeps its balance/order invariants and frees exactly what it allocates.
    Statements only; proofs live in C01/*.v (C01 and C02 share one model of btree.hpp).
    [Inv t] is [inv_b t = true] (C01/Model.v): the executable reading of BTree::verify() on the structural
    model — all leaves at the same depth, arity = keys + 1, every non-root node at least half full (root: at
    least one key / one entry), no node above capacity, every separator equivalent to the largest key of the
    subtree left of it, keys sorted across the whole leaf sequence (strictly for unique containers).  The
    same [inv_b], extracted to OCaml, is evaluated on the node structure dumped from the real tree after
    every mutating operation of the correspondence run.  Size and node counts are functions of the structure
    in the model ([t_size], [t_leaves], [t_inner]) and are compared with the real tree's stats per step. *)
From Coq Require Import List Bool Arith.
From TLXV Require Import Common.Order C01.Model C01.Defs C01.Spec C01.BulkProofs C01.BulkDedup C01.InsertProofs
     C01.EraseElems C01.EraseInv C01.History.
Import ListNotations.

(** Prop-level reading of the boolean invariant. *)
Theorem C02_inv_reads : forall (K V : Type) (ltb : K -> K -> bool) (key : V -> K) (dk : K)
    (leafmax innermax : nat) (dup : bool) (n : @node K V),
  Inv ltb key dk leafmax innermax dup (Some n) <->
  shape ltb key dk leafmax innermax true (height n) n /\ keys_sorted ltb key dup (elems n).
Proof. exact (@Inv_Some). Qed.
Print Assumptions C02_inv_reads.

Theorem C02_shape_inner_reads : forall (K V : Type) (ltb : K -> K -> bool) (key : V -> K) (dk : K)
    (leafmax innermax : nat) (r : bool) (h : nat) (ks : list K) (cs : list (@node K V)),
  shape ltb key dk leafmax innermax r h (Inner ks cs) <->
  exists h', h = S h' /\ length cs = S (length ks) /\ length ks <= innermax /\
             (if r then 1 else innermin innermax) <= length ks /\ 1 <= length ks /\
             seps_ok ltb key dk ks cs = true /\ Forall (shape ltb key dk leafmax innermax false h') cs.
Proof. exact (@shape_inner). Qed.
Print Assumptions C02_shape_inner_reads.

Theorem C02_shape_leaf_reads : forall (K V : Type) (ltb : K -> K -> bool) (key : V -> K) (dk : K)
    (leafmax innermax : nat) (r : bool) (h : nat) (vs : list V),
  shape ltb key dk leafmax innermax r h (@Leaf K V vs) <->
  h = 0 /\ length vs <= leafmax /\ (if r then 1 else leafmin leafmax) <= length vs /\ 1 <= length vs.
Proof. exact (@shape_leaf). Qed.
Print Assumptions C02_shape_leaf_reads.

(** The invariant is kept by insert, and the allocation count is exact. *)
Theorem C02_insert_inv : forall (K V : Type) (ltb : K -> K -> bool) (key : V -> K) (dk : K)
    (leafmax innermax : nat) (dup binsearch : bool), SWO ltb -> 4 <= leafmax -> 4 <= innermax ->
  forall (t : @tree K V) v, Inv ltb key dk leafmax innermax dup t ->
    let '(t', rank, ok, al) := insert ltb key dk leafmax innermax dup binsearch t v in
    Inv ltb key dk leafmax innermax dup t' /\ t_nodes t' = t_nodes t + al.
Proof.
  intros K V ltb key dk leafmax innermax dup binsearch Hswo Hl Hi t v HI.
  pose proof (insert_refines ltb key dk leafmax innermax dup binsearch Hswo Hl Hi t v HI) as H.
  destruct (insert ltb key dk leafmax innermax dup binsearch t v) as [[[t' rank] ok] al].
  exact (proj2 H).
Qed.
Print Assumptions C02_insert_inv.

(** ... by erase_one and erase(iterator): invariant, no impossible state, exact free count. *)
Theorem C02_erase_one_inv : forall (K V : Type) (ltb : K -> K -> bool) (key : V -> K) (dk : K)
    (leafmax innermax : nat) (dup binsearch : bool), SWO ltb -> 4 <= leafmax -> 4 <= innermax ->
  forall (t : @tree K V) k, Inv ltb key dk leafmax innermax dup t ->
    let '(t', found, fr, bad) := erase_one ltb key dk leafmax innermax binsearch t k in
    Inv ltb key dk leafmax innermax dup t' /\ bad = false /\ t_nodes t' + fr = t_nodes t.
Proof. exact (@erase_one_inv). Qed.
Print Assumptions C02_erase_one_inv.

Theorem C02_erase_iter_inv : forall (K V : Type) (ltb : K -> K -> bool) (key : V -> K) (dk : K)
    (leafmax innermax : nat) (dup binsearch : bool), SWO ltb -> 4 <= leafmax -> 4 <= innermax ->
  forall (t : @tree K V) r, Inv ltb key dk leafmax innermax dup t -> r < t_size t ->
    let '(t', found, fr, bad) := erase_iter ltb key dk leafmax innermax binsearch t r in
    Inv ltb key dk leafmax innermax dup t' /\ bad = false /\ t_nodes t' + fr = t_nodes t.
Proof. exact (@erase_iter_inv). Qed.
Print Assumptions C02_erase_iter_inv.

(** ... by bulk_load of EVERY sorted range, equal keys allowed in all containers (every length; minimum fill of
    every node; unique containers keep the first entry of each run). *)
Theorem C02_bulk_load_inv : forall (K V : Type) (ltb : K -> K -> bool) (key : V -> K) (dk : K)
    (leafmax innermax : nat) (dup : bool), SWO ltb -> 4 <= leafmax -> 4 <= innermax ->
  forall l : list V, sortedk ltb (map key l) = true ->
    Inv ltb key dk leafmax innermax dup (bulk_load ltb key dk leafmax innermax dup l).
Proof. exact (@bulk_load_inv). Qed.
Print Assumptions C02_bulk_load_inv.

(** The bulk_load shipped before b2f41a5 broke the invariant of set / map on a sorted range with equal keys. *)
Theorem C02_bulk_load_shipped_refuted :
  exists l : list nat,
    sortedk Nat.ltb (map (fun x => x) l) = true
    /\ inv_b Nat.ltb (fun x => x) 0 4 4 false (bulk_load_shipped (fun x => x) 0 4 4 l) = false
    /\ inv_b Nat.ltb (fun x => x) 0 4 4 false (bulk_load Nat.ltb (fun x => x) 0 4 4 false l) = true.
Proof.
  destruct bulk_load_shipped_refuted as (l & H1 & H2 & _ & _ & H5). exists l. exact (conj H1 (conj H2 H5)).
Qed.
Print Assumptions C02_bulk_load_shipped_refuted.

(** After every step of every history (all container variables, all operations incl. copy, assignment, swap,
    clear, bulk load): the invariant holds for every variable, and node allocations minus node frees equal
    the change of the total node count — so a history that starts with empty containers and ends with all of
    them cleared/destroyed has freed exactly what it allocated. *)
Theorem C02_history_inv_alloc : forall (K V : Type) (ltb : K -> K -> bool) (key : V -> K) (dk : K)
    (leafmax innermax : nat) (dup binsearch : bool) (veqb vltb : V -> V -> bool),
  SWO ltb -> 4 <= leafmax -> 4 <= innermax ->
  forall (ops : list (@op K V)) (st : list (@tree K V)),
    Forall (Inv ltb key dk leafmax innermax dup) st -> hist_wf ltb key (length st) ops ->
    let '(st', rs) := run ltb key dk leafmax innermax dup binsearch veqb vltb st ops in
    Forall (Inv ltb key dk leafmax innermax dup) st'
    /\ Forall (fun s => s_bad s = false /\ Forall (Inv ltb key dk leafmax innermax dup) (s_state s)) rs
    /\ total_nodes st + sum_allocs rs = total_nodes st' + sum_frees rs.
Proof.
  intros K V ltb key dk leafmax innermax dup binsearch veqb vltb Hswo Hl Hi ops st HI Hw.
  pose proof (run_refines ltb key dk leafmax innermax dup binsearch veqb vltb Hswo Hl Hi ops st HI Hw) as H.
  destruct (run ltb key dk leafmax innermax dup binsearch veqb vltb st ops) as [st' rs].
  destruct H as (H1 & _ & _ & H4 & H5). exact (conj H1 (conj H4 H5)).
Qed.
Print Assumptions C02_history_inv_alloc.

Theorem C02_alloc_balance_empty_to_empty : forall (K V : Type) (ltb : K -> K -> bool) (key : V -> K) (dk : K)
    (leafmax innermax : nat) (dup binsearch : bool) (veqb vltb : V -> V -> bool),
  SWO ltb -> 4 <= leafmax -> 4 <= innermax ->
  forall (ops : list (@op K V)) (st : list (@tree K V)),
    Forall (fun t => t = None) st -> hist_wf ltb key (length st) ops ->
    let '(st', rs) := run ltb key dk leafmax innermax dup binsearch veqb vltb st ops in
    sum_allocs rs = total_nodes st' + sum_frees rs
    /\ (Forall (fun t => t = None) st' -> sum_allocs rs = sum_frees rs).
Proof. exact (@alloc_balance_empty). Qed.
Print Assumptions C02_alloc_balance_empty_to_empty.
