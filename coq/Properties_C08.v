(** C08 — multisequence_partition / multisequence_selection split sorted runs at the exact global rank.
    Statements only; proofs live in C08/MSPSpec.v, C08/MSPCheck.v, C08/MSPMerge.v, C08/MSPAlgo.v. *)
From Coq Require Import List ZArith Sorting.Sorted Sorting.Permutation.
From TLXV Require Import Common.Order C08.MSP C08.MSPSpec C08.MSPCheck C08.MSPMerge C08.MSPAlgo.
Import ListNotations.

(** The property's three clauses (left parts hold exactly [r] elements; no left element is greater than a right
    one; among equivalent elements across the split the left side takes them from lower-numbered sequences)
    determine the split: for ANY strict weak order, any sequences and any rank there is at most one. *)
Theorem C08_spec_unique : forall (A : Type) (ltb : A -> A -> bool) (seqs : list (list A)) (r : nat) (cs cs' : list nat),
  SWO ltb -> is_split ltb seqs r cs -> is_split ltb seqs r cs' -> cs = cs'.
Proof. exact (fun A ltb seqs r cs cs' _ => spec_unique ltb seqs r cs cs'). Qed.
Print Assumptions C08_spec_unique.

(** ... and exactly one: for sorted sequences and every rank 0..N the per-sequence counts among the first [r]
    elements of the merged order (by value, then sequence number) satisfy the three clauses. *)
Theorem C08_split_spec_is_split : forall (A : Type) (ltb : A -> A -> bool), SWO ltb -> forall (seqs : list (list A)) (r : nat),
  all_sorted ltb seqs -> r <= total seqs -> is_split ltb seqs r (split_spec ltb seqs r).
Proof. exact (@split_spec_is_split). Qed.
Print Assumptions C08_split_spec_is_split.

(** The boolean checker run on every answer of the implementation decides the property (sound and complete),
    hence accepts exactly the specified split. *)
Theorem C08_check_split_correct : forall (A : Type) (ltb : A -> A -> bool), SWO ltb ->
  forall (seqs : list (list A)) (r : nat) (cs : list nat), all_sorted ltb seqs -> r <= total seqs ->
  (check_split ltb seqs r cs = true <-> is_split ltb seqs r cs) /\
  (check_split ltb seqs r cs = true <-> cs = split_spec ltb seqs r).
Proof. exact (@check_split_correct_both). Qed.
Print Assumptions C08_check_split_correct.

(** The "merged order" the property speaks of: [kmerge] is sorted by (value, sequence number), is a permutation of all
    elements, and [split_spec] counts, per sequence, the elements among its first [r]. *)
Theorem C08_merged_order : forall (A : Type) (ltb : A -> A -> bool), SWO ltb -> forall (seqs : list (list A)),
  all_sorted ltb seqs ->
  StronglySorted (fun p q => lexle ltb p q = true) (kmerge ltb seqs) /\
  Permutation (map fst (kmerge ltb seqs)) (concat seqs) /\
  forall r, r <= total seqs ->
    split_spec ltb seqs r =
    fold_left (fun c i => bump i c) (map snd (firstn r (kmerge ltb seqs))) (repeat 0 (length seqs)).
Proof. exact (@merged_order). Qed.
Print Assumptions C08_merged_order.

(** Consequence used by the parallel merge / merge sort (C06, C07): the specified splits at increasing ranks are
    monotone in every sequence (pieces between consecutive ranks have non-negative length). *)
Theorem C08_split_spec_monotone : forall (A : Type) (ltb : A -> A -> bool) (seqs : list (list A)) (r r' : nat),
  r <= r' -> Forall2 le (split_spec ltb seqs r) (split_spec ltb seqs r').
Proof. exact (@split_spec_monotone). Qed.
Print Assumptions C08_split_spec_monotone.

(** Selection: the order-free checker (#(< v) <= r < #(<= v), offset = r - #(< v)) accepts exactly the answers
    "an element equivalent to the one at rank r of the merged order, with its offset among the equivalent ones". *)
Theorem C08_check_select_correct : forall (A : Type) (ltb : A -> A -> bool), SWO ltb ->
  forall (seqs : list (list A)) (r : nat) (v : A) (off : nat),
  all_sorted ltb seqs -> r < total seqs ->
  (check_select ltb seqs r v off = true <->
   exists w, select_spec ltb seqs r = Some (w, off) /\ eqvb ltb v w = true).
Proof. exact (@check_select_correct). Qed.
Print Assumptions C08_check_select_correct.

(** Algorithm: the returned split positions lie inside their sequences (for the shipped and the repaired variant). *)
Theorem C08_partition_offsets_in_range : forall (A : Type) (ltb : A -> A -> bool) (midlex : bool)
  (seqs : list (list A)) (rank : Z) (offs : list Z),
  partition_gen ltb midlex seqs rank = Some offs -> forallb2 in_range seqs offs = true.
Proof. exact (@partition_offsets_in_range). Qed.
Print Assumptions C08_partition_offsets_in_range.

(** Algorithm, rank = N ("very end"). *)
Theorem C08_partition_full_rank : forall (A : Type) (ltb : A -> A -> bool), SWO ltb -> forall (seqs : list (list A)),
  dflt seqs <> None -> any_empty seqs = false -> all_sorted ltb seqs ->
  partition ltb seqs (Z.of_nat (total seqs)) = Some (map Z.of_nat (split_spec ltb seqs (total seqs))).
Proof. exact (@partition_full_rank). Qed.
Print Assumptions C08_partition_full_rank.

(** Algorithm, rank < N — PARTIAL.  Full statement (not proved, see C08/MSPAlgo.v):
      forall seqs r, SWO ltb -> dflt seqs <> None -> any_empty seqs = false -> all_sorted ltb seqs -> r <= total seqs ->
        partition ltb seqs (Z.of_nat r) = Some (map Z.of_nat (split_spec ltb seqs r)).
    Proved: the conclusion holds for every answer that passes [check_split] (the hypothesis the full proof would
    discharge; the check script establishes it for every answer of the implementation it runs). *)
Theorem C08_partition_accepted_partial : forall (A : Type) (ltb : A -> A -> bool), SWO ltb -> forall (seqs : list (list A)) (r : nat) (offs : list Z),
  all_sorted ltb seqs -> r <= total seqs ->
  partition ltb seqs (Z.of_nat r) = Some offs ->
  check_split ltb seqs r (map Z.to_nat offs) = true ->
  offs = map Z.of_nat (split_spec ltb seqs r) /\ is_split ltb seqs r (split_spec ltb seqs r).
Proof. exact (@partition_accepted_partial). Qed.
Print Assumptions C08_partition_accepted_partial.

(** Selection, rank < N — NOT proved (stated only; tied by the correspondence run, where every answer of the
    implementation is decided by [check_select], and evaluated exhaustively on small domains in C08/MSPAlgo.v):
      forall seqs r, SWO ltb -> dflt seqs <> None -> any_empty seqs = false -> all_sorted ltb seqs -> r < total seqs ->
        exists v off, selection ltb seqs (Z.of_nat r) = SelOk v off /\ (0 <= off)%Z /\
                      check_select ltb seqs r v (Z.to_nat off) = true. *)

(** The code as shipped (plain [comp] in the `middle` test) violates the tie rule; the repaired comparison does not. *)
Theorem C08_partition_shipped_refuted :
  exists seqs r,
    all_sorted Nat.ltb seqs /\ any_empty seqs = false /\ r <= total seqs /\
    partition_shipped Nat.ltb seqs (Z.of_nat r) = Some [6; 2]%Z /\
    check_split Nat.ltb seqs r [6; 2] = false /\
    split_spec Nat.ltb seqs r = [7; 1] /\
    partition Nat.ltb seqs (Z.of_nat r) = Some [7; 1]%Z.
Proof. exact partition_shipped_refuted. Qed.
Print Assumptions C08_partition_shipped_refuted.
