(** C08 — multisequence_partition / multisequence_selection split sorted runs at the exact global rank.
    Statements only; proofs live in C08/MSPSpec.v, C08/MSPCheck.v, C08/MSPMerge.v, C08/MSPAlgo.v and, for the
    algorithm, C08/MSPArr.v, C08/MSPLoop.v (loop invariant), C08/MSPInit.v (initial partition), C08/MSPCorrect.v, C08/MSPSelect.v. *)
From Coq Require Import List ZArith Sorting.Sorted Sorting.Permutation.
From TLXV Require Import Common.Order C08.MSP C08.MSPSpec C08.MSPCheck C08.MSPMerge C08.MSPAlgo C08.MSPCorrect C08.MSPSelect.
Import ListNotations.

(** The property's three clauses (left parts hold exactly [r] elements; no left element is greater than a right
    one; among equivalent elements across the split the left side takes them from lower-numbered sequences)
    determine the split: for ANY strict weak order, any sequences and any rank there is at most one. *)
Theorem C08_spec_unique : forall (A : Type) (ltb : A -> A -> bool) (seqs : list (list A)) (r : nat) (cs cs' : list nat),
  SWO ltb -> is_split ltb seqs r cs -> is_split ltb seqs r cs' -> cs = cs'.
Proof. exact (fun A ltb seqs r cs cs' _ => spec_unique ltb seqs r cs cs'). Qed.
Print Assumptions C08_spec_unique.

(** ... and exactly one: for sorted sequences and every rank 0..N the per-sequence counts among the first [r]
    elements of the merged order (by value, then sequence number) satisfy the three clauses. *)
Theorem C08_split_spec_is_split : forall (A : Type) (ltb : A -> A -> bool), SWO ltb -> forall (seqs : list (list A)) (r : nat),
  all_sorted ltb seqs -> r <= total seqs -> is_split ltb seqs r (split_spec ltb seqs r).
Proof. exact (@split_spec_is_split). Qed.
Print Assumptions C08_split_spec_is_split.

(** The boolean checker run on every answer of the implementation decides the property (sound and complete),
    hence accepts exactly the specified split. *)
Theorem C08_check_split_correct : forall (A : Type) (ltb : A -> A -> bool), SWO ltb ->
  forall (seqs : list (list A)) (r : nat) (cs : list nat), all_sorted ltb seqs -> r <= total seqs ->
  (check_split ltb seqs r cs = true <-> is_split ltb seqs r cs) /\
  (check_split ltb seqs r cs = true <-> cs = split_spec ltb seqs r).
Proof. exact (@check_split_correct_both). Qed.
Print Assumptions C08_check_split_correct.

(** The "merged order" the property speaks of: [kmerge] is sorted by (value, sequence number), is a permutation of all
    elements, and [split_spec] counts, per sequence, the elements among its first [r]. *)
Theorem C08_merged_order : forall (A : Type) (ltb : A -> A -> bool), SWO ltb -> forall (seqs : list (list A)),
  all_sorted ltb seqs ->
  StronglySorted (fun p q => lexle ltb p q = true) (kmerge ltb seqs) /\
  Permutation (map fst (kmerge ltb seqs)) (concat seqs) /\
  forall r, r <= total seqs ->
    split_spec ltb seqs r =
    fold_left (fun c i => bump i c) (map snd (firstn r (kmerge ltb seqs))) (repeat 0 (length seqs)).
Proof. exact (@merged_order). Qed.
Print Assumptions C08_merged_order.

(** Consequence used by the parallel merge / merge sort (C06, C07): the specified splits at increasing ranks are
    monotone in every sequence (pieces between consecutive ranks have non-negative length). *)
Theorem C08_split_spec_monotone : forall (A : Type) (ltb : A -> A -> bool) (seqs : list (list A)) (r r' : nat),
  r <= r' -> Forall2 le (split_spec ltb seqs r) (split_spec ltb seqs r').
Proof. exact (@split_spec_monotone). Qed.
Print Assumptions C08_split_spec_monotone.

(** Selection: the order-free checker (#(< v) <= r < #(<= v), offset = r - #(< v)) accepts exactly the answers
    "an element equivalent to the one at rank r of the merged order, with its offset among the equivalent ones". *)
Theorem C08_check_select_correct : forall (A : Type) (ltb : A -> A -> bool), SWO ltb ->
  forall (seqs : list (list A)) (r : nat) (v : A) (off : nat),
  all_sorted ltb seqs -> r < total seqs ->
  (check_select ltb seqs r v off = true <->
   exists w, select_spec ltb seqs r = Some (w, off) /\ eqvb ltb v w = true).
Proof. exact (@check_select_correct). Qed.
Print Assumptions C08_check_select_correct.

(** Algorithm: the returned split positions lie inside their sequences (for the shipped and the repaired variant). *)
Theorem C08_partition_offsets_in_range : forall (A : Type) (ltb : A -> A -> bool) (midlex : bool)
  (seqs : list (list A)) (rank : Z) (offs : list Z),
  partition_gen ltb midlex seqs rank = Some offs -> forallb2 in_range seqs offs = true.
Proof. exact (@partition_offsets_in_range). Qed.
Print Assumptions C08_partition_offsets_in_range.

(** Algorithm, rank = N ("very end"). *)
Theorem C08_partition_full_rank : forall (A : Type) (ltb : A -> A -> bool), SWO ltb -> forall (seqs : list (list A)),
  any_empty seqs = false -> all_sorted ltb seqs ->
  partition ltb seqs (Z.of_nat (total seqs)) = Some (map Z.of_nat (split_spec ltb seqs (total seqs))).
Proof. exact (@partition_full_rank). Qed.
Print Assumptions C08_partition_full_rank.

(** THE GOAL THEOREM for multisequence_partition: for every strict weak order, every non-empty tuple of non-empty
    sorted sequences and every rank 0..N, the model of the (repaired) algorithm — padding to 2^k-1, sample sort,
    halving loop with lmax, `middle` test by (value, sequence), skew, both priority-queue corrections — returns
    exactly the split determined by the property (C08_spec_unique / C08_split_spec_is_split): never the error
    result, left parts hold exactly [r] elements, no left element above a right one, ties from lower-numbered
    sequences first. The only hypotheses are those of the property text: no sequence is empty ([any_empty seqs =
    false], the documented precondition and the assert of the code), each is sorted, 0 <= r <= N.  No hypothesis on
    the number of sequences: for m = 0 (then r = 0) the code takes its "very end" exit and so does the model. *)
Theorem C08_partition_correct : forall (A : Type) (ltb : A -> A -> bool), SWO ltb -> forall (seqs : list (list A)) (r : nat),
  any_empty seqs = false -> all_sorted ltb seqs -> r <= total seqs ->
  partition ltb seqs (Z.of_nat r) = Some (map Z.of_nat (split_spec ltb seqs r)).
Proof. exact (@partition_correct_all). Qed.
Print Assumptions C08_partition_correct.

(** THE GOAL THEOREM for multisequence_selection: for every strict weak order, every non-empty tuple of non-empty
    sorted sequences and every rank 0..N-1 the model of the algorithm (same loop with the plain comparison, then
    maxleft / minright and the offset by lower_bound) returns a value equivalent to the element at that rank of the
    merged order, together with the number of equivalent elements before it. *)
Theorem C08_selection_correct : forall (A : Type) (ltb : A -> A -> bool), SWO ltb -> forall (seqs : list (list A)) (r : nat),
  any_empty seqs = false -> all_sorted ltb seqs -> r < total seqs ->
  exists v off w, selection ltb seqs (Z.of_nat r) = SelOk v off /\ (0 <= off)%Z /\
                  select_spec ltb seqs r = Some (w, Z.to_nat off) /\ eqvb ltb v w = true.
Proof. exact (@selection_meets_spec). Qed.
Print Assumptions C08_selection_correct.

(** ... and it throws exactly outside the documented domain (no data, or rank outside [0, N)). *)
Theorem C08_selection_throws_iff : forall (A : Type) (ltb : A -> A -> bool) (seqs : list (list A)) (rank : Z),
  selection ltb seqs rank = SelThrow <->
  length seqs = 0 \/ (ztotal seqs = 0 \/ rank < 0 \/ ztotal seqs <= rank)%Z.
Proof. exact (@selection_throws_iff). Qed.
Print Assumptions C08_selection_throws_iff.

(** The code as shipped (plain [comp] in the `middle` test) violates the tie rule; the repaired comparison does not. *)
Theorem C08_partition_shipped_refuted :
  exists seqs r,
    all_sorted Nat.ltb seqs /\ any_empty seqs = false /\ r <= total seqs /\
    partition_shipped Nat.ltb seqs (Z.of_nat r) = Some [6; 2]%Z /\
    check_split Nat.ltb seqs r [6; 2] = false /\
    split_spec Nat.ltb seqs r = [7; 1] /\
    partition Nat.ltb seqs (Z.of_nat r) = Some [7; 1]%Z.
Proof. exact partition_shipped_refuted. Qed.
Print Assumptions C08_partition_shipped_refuted.

(** The code before b429853 accumulated the total N in the caller's RankType; the model of that behaviour for an 8-bit
    rank type on 200 + 100 equal elements (N = 300 wraps to 44): rank 44 is answered (200,100) - not a split - and the
    selection throws, rank 255 hits the assertion; the repaired model gives (44,0), (1, offset 44) and (200,55). *)
Theorem C08_total_in_ranktype_shipped_refuted :
  all_sorted Nat.ltb narrow_witness /\ any_empty narrow_witness = false /\ total narrow_witness = 300 /\
  partition_total_in_ranktype_shipped Nat.ltb 8 narrow_witness 44 = Some [200; 100]%Z /\
  check_split Nat.ltb narrow_witness 44 [200; 100] = false /\
  selection_total_in_ranktype_shipped_throws 8 narrow_witness 44 = true /\
  partition_total_in_ranktype_shipped Nat.ltb 8 narrow_witness 255 = None /\
  partition Nat.ltb narrow_witness 44 = Some [44; 0]%Z /\
  selection Nat.ltb narrow_witness 44 = SelOk 1 44%Z /\
  partition Nat.ltb narrow_witness 255 = Some [200; 55]%Z.
Proof. exact total_in_ranktype_shipped_refuted. Qed.
Print Assumptions C08_total_in_ranktype_shipped_refuted.
