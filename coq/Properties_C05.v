(** C05 — sequential multiway merge: every entry point and every selectable algorithm writes exactly [len]
    elements, the smallest ones, in non-decreasing order, and leaves each input just past the elements taken from
    it; the stable variants order equivalent elements by sequence index, then position; the sentinel variants
    behave identically.  Statements only; proofs live in C05/*.v.

    Model: C05/Model.v ([mwm_base] = multiway_merge_base with its k / algorithm switch; the 3-way / 4-way
    automata are the tables of gen/Merge34_gen.v, regenerated from the header on every run).  A sequence is the
    list of its unconsumed elements; a result [Some (out, st')] = elements written + remaining sequences; [None] =
    the code would read at/after an end.  The loser trees enter through the interface [gtree_ok] / [utree_ok]
    (winner = live source with minimal head; stable: smallest index among equivalent; [gsize]/[usize]/[ukey] are the
    side conditions under which a tree is specified, collected in [side_ok]); the theorems hold for any trees
    meeting it.  The last three theorems instantiate it with C09's model of tlx/container/loser_tree.hpp. *)
From Coq Require Import List NArith Sorting.Sorted.
From TLXV Require Import Common.Order C05.AutoDefs gen.Merge34_gen C05.StableMerge C05.Model C05.MergeFacts
     C05.MergeAdvProofs C05.AutoProofs C05.AutoSweep C05.LoserLoopProofs C05.UnguardedProofs C05.CombinedProofs C05.BaseProofs
     C05.BubbleProofs C05.RefTreeProofs C05.Final C09.LoserTree C05.C09Model C05.C09Instance.
Import ListNotations.

(** Stable entry points (stable_multiway_merge, stable_multiway_merge_sentinels), every algorithm, every k, every
    len <= total, empty sequences anywhere: the result is the first [len] elements of THE stable merge and the
    inputs are left where that merge leaves them.  No read past an end ([Some]). *)
Theorem C05_stable_variants :
  forall (A : Type) (ltb : A -> A -> bool), SWO ltb ->
  forall GT gt_init gt_min gt_dmi grep gsize, gtree_ok ltb (GT:=GT) gsize gt_init gt_min gt_dmi grep ->
  forall UT ut_init ut_min ut_dmi urep usize ukey, utree_ok ltb (UT:=UT) usize ukey ut_init ut_min ut_dmi urep ->
  forall sentinels alg st sents len,
    inputs_ok ltb st -> len <= total st -> (sentinels = true -> sent_ok ltb st sents) ->
    side_ok gsize usize ukey alg sentinels st sents ->
    mwm_base ltb GT gt_init gt_min gt_dmi UT ut_init ut_min ut_dmi true sentinels alg st sents len =
    Some (firstn len (gmerge ltb st), snd (msteps ltb len st)).
Proof. exact (fun A ltb H GT gi gm gd gr gs Gok UT ui um ud ur us uk Uok => mwm_stable ltb H GT gi gm gd gr gs Gok UT ui um ud ur us uk Uok). Qed.
Print Assumptions C05_stable_variants.

(** The same with elements that remember (sequence index, position): the output is [firstn len (smerge inputs)],
    i.e. equivalent elements are ordered by sequence index and then by position. *)
Theorem C05_stable_by_index_then_position :
  forall (A : Type) (ltb : A -> A -> bool), SWO ltb ->
  forall GT gt_init gt_min gt_dmi grep gsize, gtree_ok (ltb3 ltb) (GT:=GT) gsize gt_init gt_min gt_dmi grep ->
  forall UT ut_init ut_min ut_dmi urep usize ukey, utree_ok (ltb3 ltb) (UT:=UT) usize ukey ut_init ut_min ut_dmi urep ->
  forall sentinels alg (ls : list (list A)) tsents len,
    Forall (fun l => sortedb ltb l = true) ls -> len <= total ls ->
    (sentinels = true -> sent_ok (ltb3 ltb) (tag_all ls) tsents) ->
    side_ok gsize usize ukey alg sentinels (tag_all ls) tsents ->
    mwm_base (ltb3 ltb) GT gt_init gt_min gt_dmi UT ut_init ut_min ut_dmi true sentinels alg (tag_all ls) tsents len =
    Some (firstn len (smerge ltb ls), snd (msteps (ltb3 ltb) len (tag_all ls))).
Proof. exact (fun A ltb H GT gi gm gd gr gs Gok UT ui um ud ur us uk Uok => mwm_stable_positions ltb H GT gi gm gd gr gs Gok UT ui um ud ur us uk Uok). Qed.
Print Assumptions C05_stable_by_index_then_position.

(** All entry points, in particular the unstable ones (multiway_merge, multiway_merge_sentinels): exactly [len]
    elements, sorted, an interleaving of prefixes of the inputs with the inputs left just past those prefixes, and
    every element written is <= every element left in the inputs. *)
Theorem C05_all_variants :
  forall (A : Type) (ltb : A -> A -> bool), SWO ltb ->
  forall GT gt_init gt_min gt_dmi grep gsize, gtree_ok ltb (GT:=GT) gsize gt_init gt_min gt_dmi grep ->
  forall UT ut_init ut_min ut_dmi urep usize ukey, utree_ok ltb (UT:=UT) usize ukey ut_init ut_min ut_dmi urep ->
  forall stable sentinels alg st sents len,
    inputs_ok ltb st -> len <= total st -> (sentinels = true -> sent_ok ltb st sents) ->
    side_ok gsize usize ukey alg sentinels st sents ->
    exists out st', mwm_base ltb GT gt_init gt_min gt_dmi UT ut_init ut_min ut_dmi stable sentinels alg st sents len = Some (out, st') /\
      length out = len /\
      StronglySorted (sorted_rel ltb) out /\
      (exists ps, length ps = length st /\ interleave ps out /\ forall s, nth s st [] = nth s ps [] ++ nth s st' []) /\
      (forall x l y, In x out -> In l st' -> In y l -> ltb y x = false).
Proof. exact (fun A ltb H GT gi gm gd gr gs Gok UT ui um ud ur us uk Uok => mwm_any ltb H GT gi gm gd gr gs Gok UT ui um ud ur us uk Uok). Qed.
Print Assumptions C05_all_variants.

(** The generated 3-way / 4-way automata (finite sweep over the regenerated tables, closed by vm_compute): guarded
    for every input; unguarded as long as no sequence runs empty before the last step ([safe]). *)
Theorem C05_generated_tables_pass_the_sweep :
  check_table 3 table3 init3 = true /\ check_table 4 table4 init4 = true.
Proof. exact (conj table3_ok table4_ok). Qed.
Print Assumptions C05_generated_tables_pass_the_sweep.

Theorem C05_merge3_variant :
  forall (A : Type) (ltb : A -> A -> bool), SWO ltb ->
  forall md sz (st : list (list A)),
    length st = 3 -> sz <= total st -> (md = Unguarded -> safe ltb sz st) ->
    exists o st', merge3_variant ltb md sz st = Some (o, st') /\ mrun ltb true st o st' /\ length o = sz.
Proof. exact (@merge3_variant_correct). Qed.
Print Assumptions C05_merge3_variant.

Theorem C05_merge4_variant :
  forall (A : Type) (ltb : A -> A -> bool), SWO ltb ->
  forall md sz (st : list (list A)),
    length st = 4 -> sz <= total st -> (md = Unguarded -> safe ltb sz st) ->
    exists o st', merge4_variant ltb md sz st = Some (o, st') /\ mrun ltb true st o st' /\ length o = sz.
Proof. exact (@merge4_variant_correct). Qed.
Print Assumptions C05_merge4_variant.

(** unguarded_safe (the overhang-count argument): while fewer than total - overhang elements have been merged,
    every sequence still has a head and some head beats the padding key of the unguarded tree ([ugood_run]);
    after exactly total - overhang steps of the stable merge, sequence min_seq is exhausted. *)
Theorem C05_unguarded_safe :
  forall (A : Type) (ltb : A -> A -> bool), SWO ltb ->
  forall stable (l0 : list A) rest ov ms sen,
    sorted_state ltb (l0 :: rest) -> prepare_unguarded ltb stable (l0 :: rest) = (Some ov, ms) ->
    last_error l0 = Some sen ->
    forall n, n <= total (l0 :: rest) - ov -> ugood_run ltb stable sen n (l0 :: rest).
Proof. exact (@unguarded_safe). Qed.
Print Assumptions C05_unguarded_safe.

(** merge_advance (k = 2) is the stable 2-way merge limited to [n] elements. *)
Theorem C05_merge_advance :
  forall (A : Type) (ltb : A -> A -> bool), SWO ltb ->
  forall n (l1 l2 : list A), n <= length l1 + length l2 ->
    exists o a b, merge_advance ltb n l1 l2 = Some (o, a, b) /\ mrun ltb true [l1; l2] o [a; b] /\ length o = n.
Proof. exact (@merge_advance_mrun). Qed.
Print Assumptions C05_merge_advance.

(** The loser-tree interface is satisfiable: the reference tournament used in the correspondence run meets it,
    and the model as run there returns the stable merge. *)
Theorem C05_reference_tournament :
  forall (A : Type) (ltb : A -> A -> bool), SWO ltb ->
    gtree_ok ltb (fun _ => True) (@rgt_init A) (rgt_min ltb) (rgt_dmi ltb) ref_grep /\
    utree_ok ltb (fun _ => True) (fun _ _ => True) (@rut_init A) (rut_min ltb) (rut_dmi ltb) ref_urep.
Proof. exact (fun A ltb H => conj (ref_gtree_ok ltb H) (ref_utree_ok ltb H)). Qed.
Print Assumptions C05_reference_tournament.

(* ---------------------------------------------------------------------------------------------------- *)
(** * No abstract tree left: the loser trees are C09's model of tlx/container/loser_tree.hpp
      ([c9_mwm ltb dkey ptr] = multiway_merge_base over [LoserTree.lt_build / lt_min_source / lt_delete_min_insert],
      [ptr] selecting the pointer- or copy-based classes, [dkey] = ValueType()).  The only assumption beyond the
      property's own is k <= 2^30 ([Source = uint32_t] arithmetic of the trees must not wrap). *)

(** C09's trees, driven as multiway_merge_loser_tree / _unguarded drive them, meet the interface for every input
    with 1 <= k <= 2^30: the guarded classes by C09's [TInv], the unguarded classes by C09's general invariant
    [UInv] (no bound on the keys: multiway_merge_loser_tree_combined hands the unguarded tree keys greater than
    its padding key). *)
Theorem C05_c09_trees_meet_the_interface :
  forall (A : Type) (ltb : A -> A -> bool) (dkey : A) (ptr : bool), SWO ltb ->
    gtree_ok ltb c9_size (c9g_init ltb dkey ptr) (c9g_min dkey) (c9g_dmi ltb dkey) (c9_grep ltb dkey ptr) /\
    utree_ok ltb c9_size (fun _ _ => True) (c9u_init ltb dkey ptr) (c9u_min dkey) (c9u_dmi ltb dkey) (c9_urep ltb dkey ptr).
Proof. exact (fun A ltb dkey ptr H => conj (c9_gtree_ok ltb dkey ptr H) (c9_utree_ok ltb dkey ptr H)). Qed.
Print Assumptions C05_c09_trees_meet_the_interface.

(** Stable entry points, EVERY algorithm (MWMA_LOSER_TREE, _COMBINED, _SENTINEL, BUBBLE), both tree kinds,
    sentinels or none, over the C09 trees: the first [len] elements of the stable merge, inputs left where that
    merge leaves them, no read past an end. *)
Theorem C05_c09_stable_variants :
  forall (A : Type) (ltb : A -> A -> bool), SWO ltb -> forall (dkey : A) (ptr : bool),
  forall sentinels alg st sents len,
    inputs_ok ltb st -> len <= total st -> (sentinels = true -> sent_ok ltb st sents) ->
    (N.of_nat (length st) <= 2 ^ 30)%N ->
    c9_mwm ltb dkey ptr true sentinels alg st sents len =
    Some (firstn len (gmerge ltb st), snd (msteps ltb len st)).
Proof. exact (@c9_mwm_stable). Qed.
Print Assumptions C05_c09_stable_variants.

(** All entry points (in particular the unstable ones) over the C09 trees. *)
Theorem C05_c09_all_variants :
  forall (A : Type) (ltb : A -> A -> bool), SWO ltb -> forall (dkey : A) (ptr : bool),
  forall stable sentinels alg st sents len,
    inputs_ok ltb st -> len <= total st -> (sentinels = true -> sent_ok ltb st sents) ->
    (N.of_nat (length st) <= 2 ^ 30)%N ->
    exists out st', c9_mwm ltb dkey ptr stable sentinels alg st sents len = Some (out, st') /\
      length out = len /\
      StronglySorted (sorted_rel ltb) out /\
      (exists ps, length ps = length st /\ interleave ps out /\ forall s, nth s st [] = nth s ps [] ++ nth s st' []) /\
      (forall x l y, In x out -> In l st' -> In y l -> ltb y x = false).
Proof. exact (@c9_mwm_any). Qed.
Print Assumptions C05_c09_all_variants.
