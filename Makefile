# /verif top-level build: `make setup` = MANIFEST.setup_cmd
SHELL := /bin/bash
COQTIMEOUT ?= 3000
DRIVERS := $(patsubst ocaml/%_driver.ml,ocaml/bin/%_driver,$(wildcard ocaml/*_driver.ml))

.PHONY: setup regen coq drivers clean
# Each step tolerates failures of single properties: a property whose theories or driver do not build is
# reported by its own check (proof obligations not discharged / correspondence broken), not by setup.
setup:
	-$(MAKE) regen
	-$(MAKE) coq
	-$(MAKE) -k drivers
	@echo "setup finished"

regen:
	python3 bin/regen

coq:
	python3 bin/mkcoqproject
	cd coq && timeout $(COQTIMEOUT) $(MAKE) -k -j16

drivers: $(DRIVERS)

# extraction: coq/Extract_<id>.v writes ocaml/gen/<id>_model.ml(i) (path given inside the .v file, relative to coq/)
ocaml/gen/%_model.ml: coq/Extract_%.v $(wildcard coq/C*/*.v) $(wildcard coq/Common/*.v)
	mkdir -p ocaml/gen
	python3 bin/mkcoqproject
	cd coq && timeout $(COQTIMEOUT) $(MAKE) -j16 $(patsubst %.v,%.vo,$(shell grep -h '\.v$$' coq/Common/FILES coq/$*/FILES | grep -v '^Properties_')) > /dev/null
	cd coq && timeout 900 coqc -Q . TLXV Extract_$*.v > /dev/null
	test -f $@

ocaml/bin/%_driver: ocaml/%_driver.ml ocaml/gen/%_model.ml
	mkdir -p ocaml/bin ocaml/build/$*
	cp ocaml/gen/$*_model.ml ocaml/gen/$*_model.mli ocaml/$*_driver.ml ocaml/build/$*/
	cd ocaml/build/$* && ocamlfind ocamlopt -O3 -w -a -package str,unix -linkpkg $*_model.mli $*_model.ml $*_driver.ml -o ../../bin/$*_driver 2>/dev/null || \
	  (cd ocaml/build/$* && ocamlfind ocamlopt -w -a -package str,unix -linkpkg $*_model.mli $*_model.ml $*_driver.ml -o ../../bin/$*_driver)

clean:
	-cd coq && $(MAKE) clean
	rm -rf ocaml/bin ocaml/gen ocaml/build coq/gen
