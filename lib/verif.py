"""Shared machinery of the /verif checks (see DESIGN.md section 2).

A check script does

    ck = Check("C15")
    ck.regen([...])                 # translators (write coq/gen/*.v only when the text changes)
    ck.prove()                      # make deps + coqc Properties_<id>.v, parse Print Assumptions
    exe = ck.build_cpp(...)         # harness compiled from /repo's working tree
    ...                             # run harness + extracted model, compare
    ck.violation(...) / ck.finish(...)

Everything a check prints that matters to the caller is either a
"VIOLATION property=<id> replay=<path>[ no-failing-input-found]" line or a
"KNOWN-FINDING: property=<id> ..." line.  Exit status 0 / 1.
"""
import atexit
import fcntl
import hashlib
import json
import os
import re
import shutil
import subprocess
import sys
import tempfile
import time

VERIF = os.path.dirname(os.path.dirname(os.path.abspath(__file__)))
REPO = os.environ.get("VERIF_REPO", "/repo")
COQ = os.path.join(VERIF, "coq")
FORBIDDEN = re.compile(
    r"\b(Admitted|admit|Axiom|Axioms|Parameter|Parameters|Conjecture|Conjectures|"
    r"Admit\s+Obligations|bypass_check|Unset\s+Guard\s+Checking|Unset\s+Positivity\s+Checking|"
    r"Unset\s+Universe\s+Checking|native_compute)\b|-type-in-type|-impredicative-set")

CXX = os.environ.get("VERIF_CXX", "g++")
CXXFLAGS_SAN = ["-std=c++17", "-O1", "-g", "-fsanitize=address,undefined",
                "-fno-sanitize-recover=all", "-fno-omit-frame-pointer"]
CXXFLAGS_FAST = ["-std=c++17", "-O2"]


class SplitMix64:
    """The one PRNG every generator derives from (same algorithm in harness/common/verif_rng.hpp)."""

    def __init__(self, seed):
        self.s = seed & 0xFFFFFFFFFFFFFFFF

    def next(self):
        self.s = (self.s + 0x9E3779B97F4A7C15) & 0xFFFFFFFFFFFFFFFF
        z = self.s
        z = ((z ^ (z >> 30)) * 0xBF58476D1CE4E5B9) & 0xFFFFFFFFFFFFFFFF
        z = ((z ^ (z >> 27)) * 0x94D049BB133111EB) & 0xFFFFFFFFFFFFFFFF
        return z ^ (z >> 31)

    def below(self, n):
        return self.next() % n if n > 0 else 0

    def range(self, lo, hi):
        """inclusive"""
        return lo + self.below(hi - lo + 1)

    def choice(self, xs):
        return xs[self.below(len(xs))]

    def chance(self, num, den):
        return self.below(den) < num


def _san_env(env):
    """Every harness run gets detect_stack_use_after_return=1: a pointer kept to a dead parameter / local (e.g. a
    loser tree storing the address of a by-value sentinel) is otherwise invisible to ASan."""
    e = dict(os.environ if env is None else env)
    a = e.get("ASAN_OPTIONS", "")
    if "detect_stack_use_after_return" not in a:
        e["ASAN_OPTIONS"] = (a + ":" if a else "") + "detect_stack_use_after_return=1"
    return e


os.environ.update({"ASAN_OPTIONS": _san_env(None)["ASAN_OPTIONS"]})  # direct Popen users inherit it too


def sh(cmd, timeout=None, cwd=None, env=None, input=None):
    """Run, capture stdout+stderr (merged). Returns (rc, text). rc=124 on timeout."""
    env = _san_env(env)
    try:
        p = subprocess.run(cmd, cwd=cwd, env=env, input=input, stdout=subprocess.PIPE,
                           stderr=subprocess.STDOUT, timeout=timeout,
                           universal_newlines=True, errors="replace")
        return p.returncode, p.stdout
    except subprocess.TimeoutExpired as e:
        out = e.stdout or ""
        if isinstance(out, bytes):
            out = out.decode("utf-8", "replace")
        return 124, out + "\n[timeout after %ss]" % timeout


class Lock:
    def __init__(self, path):
        self.path = path

    def __enter__(self):
        self.f = open(self.path, "w")
        fcntl.flock(self.f, fcntl.LOCK_EX)
        return self

    def __exit__(self, *a):
        fcntl.flock(self.f, fcntl.LOCK_UN)
        self.f.close()


def write_if_changed(path, text):
    try:
        with open(path) as f:
            if f.read() == text:
                return False
    except OSError:
        pass
    os.makedirs(os.path.dirname(path), exist_ok=True)
    tmp = path + ".tmp%d" % os.getpid()
    with open(tmp, "w") as f:
        f.write(text)
    os.replace(tmp, path)
    return True


class Check:
    def __init__(self, pid, argv=None):
        self.pid = pid
        argv = list(sys.argv[1:] if argv is None else argv)
        self.tier = os.environ.get("VERIF_TIER", "quick")
        self.replay = None
        i = 0
        while i < len(argv):
            if argv[i] == "--tier":
                self.tier = argv[i + 1]; i += 2
            elif argv[i] == "--replay":
                self.replay = argv[i + 1]; i += 2
            else:
                i += 1
        if self.tier not in ("quick", "thorough"):
            self.tier = "quick"
        try:
            self.seed = int(os.environ.get("VERIF_SEED", "1"))
        except ValueError:
            self.seed = 1
        self.rng = SplitMix64(self.seed)
        self.t0 = time.time()
        self.scratch = tempfile.mkdtemp(prefix="verif_%s_" % pid)
        atexit.register(lambda: shutil.rmtree(self.scratch, ignore_errors=True))
        self.violations = 0
        self.known_hits = []
        self.proof = None
        self.coverage = {}
        self.assumptions = []
        self.known = self._load_known()
        self.replay_dir = os.path.join(VERIF, "replays", pid)
        self.log_lines = []

    # ------------------------------------------------------------------ util
    def say(self, *a):
        print(*a, flush=True)

    def thorough(self):
        return self.tier == "thorough"

    def _load_known(self):
        out = []
        p = os.path.join(VERIF, "known_findings.txt")
        if os.path.exists(p):
            for line in open(p):
                line = line.strip()
                m = re.match(r"finding:\s+property=(\S+)\s+key=(\S+)\s+(.*)", line)
                if m and m.group(1) == self.pid:
                    out.append((m.group(2), m.group(3)))
        return out

    # ------------------------------------------------------------- translators
    def regen(self, steps):
        """steps: list of callables returning {relative path under coq/gen: text}. Runs against REPO."""
        changed = []
        with Lock(os.path.join(COQ, ".lock")):
            for st in steps:
                for rel, text in st(self).items():
                    if write_if_changed(os.path.join(COQ, "gen", rel), text):
                        changed.append(rel)
        self.coverage.setdefault("regenerated_files_changed", []).extend(changed)
        return changed

    # ------------------------------------------------------------------ Coq
    def scan_forbidden(self):
        bad = []
        for root, _, files in os.walk(COQ):
            for fn in files:
                if fn.endswith(".v") or fn in ("_CoqProject",):
                    p = os.path.join(root, fn)
                    txt = open(p, errors="replace").read()
                    # strip comments (non-nested is enough for our own sources; nested handled crudely)
                    txt2 = re.sub(r"\(\*.*?\*\)", " ", txt, flags=re.S)
                    for m in FORBIDDEN.finditer(txt2):
                        bad.append("%s: %s" % (os.path.relpath(p, VERIF), m.group(0)))
        return bad

    def prove(self, timeout=1500):
        """Build everything Properties_<id>.v depends on, then (re)compile it and read Print Assumptions.
        Returns dict; never raises."""
        pf = "Properties_%s.v" % self.pid
        src = open(os.path.join(COQ, pf)).read()
        src_nc = re.sub(r"\(\*.*?\*\)", " ", src, flags=re.S)
        theorems = re.findall(r"^\s*(?:Theorem|Lemma|Corollary)\s+(\w+)", src_nc, flags=re.M)
        res = {"file": pf, "theorems": theorems, "obligations": len(theorems), "discharged": 0,
               "ok": False, "assumptions": {}, "failed": None, "log_tail": ""}
        bad = self.scan_forbidden()
        if bad:
            res["failed"] = "forbidden construct in development: " + "; ".join(bad[:5])
            self.proof = res
            return res
        with Lock(os.path.join(COQ, ".lock")):
            sh([sys.executable, os.path.join(VERIF, "bin", "mkcoqproject")], timeout=120)
            vo = os.path.join(COQ, pf + "o")
            if os.path.exists(vo):
                os.remove(vo)
            rc, out = sh(["make", "-k", "-j16", pf + "o"], cwd=COQ, timeout=timeout)
        res["log_tail"] = out[-4000:]
        # Print Assumptions output: after each theorem we print a marker through a Coq string? No:
        # output blocks come in order, one per Print Assumptions command.
        blocks = []
        cur = None
        for line in out.splitlines():
            if line.startswith("Closed under the global context"):
                blocks.append([]); cur = None
            elif line.startswith("Axioms:"):
                cur = []; blocks.append(cur)
            elif cur is not None:
                if line.startswith(" ") or re.match(r"^\S+\s*:", line) or line.strip() == "":
                    if line.strip():
                        cur.append(line.rstrip())
                else:
                    cur = None
        printed = re.findall(r"Print\s+Assumptions\s+(\w+)", src_nc)
        if rc == 0 and os.path.exists(os.path.join(COQ, pf + "o")):
            res["ok"] = True
            res["discharged"] = len(theorems)
        else:
            m = re.search(r'File "\./%s", line (\d+)' % re.escape(pf), out)
            if m:
                ln = int(m.group(1))
                upto = "\n".join(src.splitlines()[:ln])
                upto_nc = re.sub(r"\(\*.*?\*\)", " ", upto, flags=re.S)
                done = re.findall(r"^\s*(?:Theorem|Lemma|Corollary)\s+(\w+)", upto_nc, flags=re.M)
                res["failed"] = "theorem %s (%s line %d)" % (done[-1] if done else "?", pf, ln)
                res["discharged"] = max(0, len(done) - 1)
            else:
                m2 = re.search(r'File "\./([^"]+)", line (\d+), characters[^\n]*\n(?:[^\n]*\n){0,8}?Error', out)
                m3 = re.search(r'File "\./([^"]+)", line (\d+)', out)
                mm = m2 or m3
                res["failed"] = ("dependency %s line %s" % (mm.group(1), mm.group(2))) if mm else \
                    ("coq build failed rc=%d" % rc)
        for name, blk in zip(printed, blocks):
            res["assumptions"][name] = [re.sub(r"\s+", " ", x).strip() for x in blk] or ["Closed under the global context"]
        self.proof = res
        return res

    def trusted_base_lines(self):
        tb = ["Coq 8.16.1 kernel (incl. vm_compute bytecode VM); no native_compute; no own axioms"]
        if self.proof:
            for thm in self.proof["theorems"]:
                a = self.proof["assumptions"].get(thm)
                if a is not None:
                    tb.append("Print Assumptions %s: %s" % (thm, " | ".join(a)))
        return tb

    # ------------------------------------------------------------------ C++ / OCaml
    def build_cpp(self, out_name, sources, flags=None, repo_sources=(), extra=(), timeout=900):
        """Compile a harness against REPO's working tree. Returns (path or None, log)."""
        out = os.path.join(self.scratch, out_name)
        cmd = [CXX] + list(flags if flags is not None else CXXFLAGS_SAN) + \
              ["-DTLX_VERIF=1", "-I", REPO, "-I", os.path.join(VERIF, "harness", "common")] + list(extra)
        cmd += [s if os.path.isabs(s) else os.path.join(VERIF, s) for s in sources]
        cmd += [os.path.join(REPO, s) for s in repo_sources]
        cmd += ["-o", out, "-lpthread"]
        rc, log = sh(cmd, timeout=timeout)
        if rc != 0:
            return None, log
        return out, log

    def ocaml_driver(self, name=None, timeout=900):
        """Ensure the extracted model + driver for this property is built (normally by setup)."""
        name = name or self.pid
        with Lock(os.path.join(VERIF, ".build.lock")):
            rc, out = sh(["make", "-s", "-C", VERIF, "ocaml/bin/%s_driver" % name], timeout=timeout)
        p = os.path.join(VERIF, "ocaml", "bin", "%s_driver" % name)
        if rc != 0 or not os.path.exists(p):
            return None, out
        return p, out

    # ------------------------------------------------------------------ reporting
    def save_replay(self, obj):
        os.makedirs(self.replay_dir, exist_ok=True)
        txt = json.dumps(obj, indent=1, sort_keys=True, default=str)
        h = hashlib.sha1(txt.encode()).hexdigest()[:12]
        p = os.path.join(self.replay_dir, "%s.json" % h)
        with open(p, "w") as f:
            f.write(txt + "\n")
        return p

    def violation(self, what, replay, key=None, no_input=False):
        """Report one violation. `key` identifies the failing input/call site for known_findings.txt."""
        if key is not None:
            for k, desc in self.known:
                if k == key:
                    if key not in self.known_hits:
                        self.known_hits.append(key)
                        self.say("KNOWN-FINDING: property=%s %s [%s]" % (self.pid, desc, what))
                    return False
        obj = {"property": self.pid, "what": what, "seed": self.seed, "tier": self.tier}
        if key is not None:
            obj["key"] = key
        obj.update(replay if isinstance(replay, dict) else {"replay": replay})
        path = self.save_replay(obj)
        self.violations += 1
        self.say("# %s: %s" % (self.pid, what))
        self.say("VIOLATION property=%s replay=%s%s" % (self.pid, path, " no-failing-input-found" if no_input else ""))
        return True

    def finish(self, coverage=None, assumptions=None, level="proof"):
        cov = dict(self.coverage)
        if coverage:
            cov.update(coverage)
        if self.proof is not None:
            cov.setdefault("obligations", self.proof["obligations"])
            cov.setdefault("discharged", self.proof["discharged"])
            cov.setdefault("checker_cmd", "make -C /verif/coq -k -j16 Properties_%s.vo  (coqc 8.16.1, full .vo build)" % self.pid)
            cov.setdefault("trusted_base", self.trusted_base_lines())
            cov.setdefault("theorems", self.proof["theorems"])
            if self.proof["failed"]:
                cov["proof_failure"] = self.proof["failed"]
        cov.setdefault("samples", [])
        ev = {"property_id": self.pid, "tier": self.tier, "seed": self.seed, "level": level,
              "coverage": cov, "assumptions": list(assumptions or []) + self.assumptions,
              "wall_s": round(time.time() - self.t0, 2), "violations": self.violations,
              "known_findings_seen": self.known_hits}
        os.makedirs(os.path.join(VERIF, "evidence"), exist_ok=True)
        with open(os.path.join(VERIF, "evidence", "%s.json" % self.pid), "w") as f:
            json.dump(ev, f, indent=1, sort_keys=True, default=str)
            f.write("\n")
        self.say("# %s tier=%s seed=%d violations=%d wall=%.1fs" % (self.pid, self.tier, self.seed, self.violations, time.time() - self.t0))
        sys.exit(1 if self.violations else 0)

    # convenience: the standard reaction to a broken proof
    def proof_broken(self, search_found):
        """Call when prove() failed. If the caller's search already reported a concrete failing input
        (search_found=True) nothing more is needed; else report no-failing-input-found."""
        if self.proof and not self.proof["ok"] and not search_found:
            self.violation("proof obligation no longer checks: %s" % self.proof["failed"],
                           {"theorem_or_correspondence": self.proof["failed"], "log_tail": self.proof["log_tail"][-1500:]},
                           no_input=True)
