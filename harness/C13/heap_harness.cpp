// C13 correspondence harness for tlx::DAryHeap and tlx::DAryAddressableIntHeap.
// Replays operation histories (one case per line of argv[1]) on the real classes with a comparator that
// reads an external priority table; prints one line per case in the format of ocaml/C13_driver.ml and appends
// " PROPFAIL@<op>:<why>" when the implementation's own answers violate the property (checked against a
// reference multiset / key set kept here, independent of the Coq model).
//
// The comparator is an object WITH state (table pointer + direction) passed to the heap's constructor; <rev> = 2 runs
// the default template arguments (std::less, aliases d_ary_heap / d_ary_addressable_int_heap), <rev> = 3 (dary) runs
// heap-owning keys (moved-from / mixed-up elements show in their tag).
//   dary <arity> <rev> ops...        ops: P,k,p (push const&)  PR,k,p (push &&)  O (pop)  OX (extract_top)  S,k,p  UA
//                                         PT (push(top()): argument aliases heap storage)  PTR (same after shrinking capacity to size)
//                                         B,k:p;.. (build_heap const vector&)  Bm (vector&&)  Bi/Bp/Bq (random access)  Bl (list)
//                                         Bf (forward_list)  Bs (single-pass input iterators)
//                                         C  D(rain)  V,n (reserve)  Y (copy ctor+assign round trip)  Z (move round trip)
//   addr <arity> <rev> <kt> <nk> ops...   the same plus  R,k (remove)  U,k,p (update; inserts an absent key)
// P (addr), R and O are skipped (observation still printed) when their precondition does not hold.
#include <algorithm>
#include <cstdint>
#include <cstdio>
#include <cstdlib>
#include <deque>
#include <forward_list>
#include <fstream>
#include <iostream>
#include <iterator>
#include <limits>
#include <list>
#include <set>
#include <sstream>
#include <string>
#include <type_traits>
#include <vector>

#include <tlx/container/d_ary_addressable_int_heap.hpp>
#include <tlx/container/d_ary_heap.hpp>

// compiled in two parts (checks/C13.py builds them in parallel): C13_PART 1 = dary + addr<uint8_t>, 2 = other addr key types
#ifndef C13_PART
#define C13_PART 0
#endif

static std::vector<unsigned> g_prio;
static bool g_rev = false;

static void set_prio(size_t k, unsigned p) {
    if (g_prio.size() <= k) g_prio.resize(k + 1, 0);
    g_prio[k] = p;
}
static unsigned prio_of(size_t k) { return k < g_prio.size() ? g_prio[k] : 0; }

// keys: plain integers, or (DAryHeap only) a heap-owning key whose tag betrays a moved-from / mixed-up element
// The MOVED-FROM state is visible: a move empties the source (tag cleared, id := MOVED), and the comparator ranks a
// moved-from key as an extreme priority -- +infinity or -infinity, chosen per case (g_moved_high) -- so that code which
// looks at an argument after moving it misorders under at least one of the four (order, extreme) combinations.
static const uint32_t MOVED = 0xFFFFFFFFu;
static bool g_moved_high = true;
struct StrKey {
    uint32_t id; std::string tag;
    StrKey() : id(0), tag("k0") {}
    explicit StrKey(uint32_t i) : id(i), tag("k" + std::to_string(i)) {}
    StrKey(const StrKey&) = default;
    StrKey& operator=(const StrKey&) = default;
    StrKey(StrKey&& o) noexcept : id(o.id), tag(std::move(o.tag)) { o.id = MOVED; o.tag.clear(); }
    StrKey& operator=(StrKey&& o) noexcept {
        if (this != &o) { id = o.id; tag = std::move(o.tag); o.id = MOVED; o.tag.clear(); }
        return *this;
    }
    bool intact() const { return id != MOVED && tag == "k" + std::to_string(id); }
};
static size_t id_of(const StrKey& k) { return k.id; }
static size_t id_of(uint64_t k) { return static_cast<size_t>(k); }
template <typename K> static K make_key(long id) { return static_cast<K>(id); }
template <> StrKey make_key<StrKey>(long id) { return StrKey(static_cast<uint32_t>(id)); }
static bool intact(const StrKey& k) { return k.intact(); }
static bool intact(uint64_t) { return true; }
static bool is_moved(const StrKey& k) { return k.id == MOVED; }
static bool is_moved(uint64_t) { return false; }

// comparator WITH STATE (pointer to the table, direction flag), handed to the heap's constructor
struct TabLess {
    const std::vector<unsigned>* prio; bool rev;
    TabLess(const std::vector<unsigned>* p, bool r) : prio(p), rev(r) {}
    template <typename K>
    long long at(const K& k) const {
        if (is_moved(k)) return g_moved_high ? (1LL << 40) : -1;
        size_t i = id_of(k);
        return i < prio->size() ? static_cast<long long>((*prio)[i]) : 0;
    }
    template <typename K>
    bool operator()(const K& a, const K& b) const { return rev ? at(b) < at(a) : at(a) < at(b); }
};
// heaps with the default comparator (std::less, no constructor argument) are built without one
template <typename H>
static H fresh(std::true_type) { return H(TabLess(&g_prio, g_rev)); }
template <typename H>
static H fresh(std::false_type) { return H(); }
template <typename H>
static H fresh() { return fresh<H>(std::is_constructible<H, TabLess>()); }

// A genuine single-pass input range (like std::istream_iterator): all copies share one cursor, so a second traversal
// (std::distance followed by a copy, ...) finds the range exhausted.
static bool g_onepass_abuse = false;
template <typename K>
struct OnePass {
    using iterator_category = std::input_iterator_tag;
    using value_type = K; using difference_type = std::ptrdiff_t; using pointer = const K*; using reference = const K&;
    const std::vector<K>* src; size_t* pos;       // pos == nullptr: end sentinel
    OnePass() : src(nullptr), pos(nullptr) {}
    OnePass(const std::vector<K>* s, size_t* p) : src(s), pos(p) {}
    bool at_end() const { return pos == nullptr || *pos >= src->size(); }
    reference operator*() const { static const K dflt = K(); if (at_end()) { g_onepass_abuse = true; return dflt; } return (*src)[*pos]; }
    OnePass& operator++() { if (at_end()) g_onepass_abuse = true; else ++*pos; return *this; }
    OnePass operator++(int) { OnePass t(*this); ++*this; return t; }
    bool operator==(const OnePass& o) const { return at_end() == o.at_end(); }
    bool operator!=(const OnePass& o) const { return !(*this == o); }
};

// build_heap through every kind of range: B const vector&, Bm vector&&, Bi vector iterators (random access),
// Bp raw pointers, Bq deque (random access, not contiguous), Bl list (bidirectional), Bf forward_list (forward),
// Bs single-pass input iterators
template <typename H, typename K>
static void build_by(H& h, const std::string& how, const std::vector<K>& keys) {
    if (how == "B") h.build_heap(keys);
    else if (how == "Bm") { std::vector<K> tmp(keys); h.build_heap(std::move(tmp)); }
    else if (how == "Bi") h.build_heap(keys.begin(), keys.end());
    else if (how == "Bp") h.build_heap(keys.data(), keys.data() + keys.size());
    else if (how == "Bq") { std::deque<K> c(keys.begin(), keys.end()); h.build_heap(c.begin(), c.end()); }
    else if (how == "Bl") { std::list<K> c(keys.begin(), keys.end()); h.build_heap(c.begin(), c.end()); }
    else if (how == "Bf") { std::forward_list<K> c(keys.begin(), keys.end()); h.build_heap(c.begin(), c.end()); }
    else { size_t pos = 0; h.build_heap(OnePass<K>(&keys, &pos), OnePass<K>()); }
}

struct Op { std::string name; std::vector<long> f; std::vector<std::pair<long, long>> kps; };

static std::vector<Op> parse_ops(std::istringstream& in) {
    std::vector<Op> ops; std::string tok;
    while (in >> tok) {
        Op o; size_t c = tok.find(',');
        o.name = tok.substr(0, c);
        std::string rest = c == std::string::npos ? "" : tok.substr(c + 1);
        if (o.name[0] == 'B') {
            size_t p = 0;
            while (p < rest.size()) {
                size_t q = rest.find(';', p); if (q == std::string::npos) q = rest.size();
                std::string part = rest.substr(p, q - p);
                size_t m = part.find(':');
                if (m != std::string::npos) o.kps.emplace_back(atol(part.substr(0, m).c_str()), atol(part.substr(m + 1).c_str()));
                p = q + 1;
            }
        } else {
            size_t p = 0;
            while (p < rest.size()) {
                size_t q = rest.find(',', p); if (q == std::string::npos) q = rest.size();
                o.f.push_back(atol(rest.substr(p, q - p).c_str()));
                p = q + 1;
            }
        }
        ops.push_back(o);
    }
    return ops;
}

// the extreme (first under the heap's order) priority of a reference container of keys
template <typename It>
static bool is_extreme(It b, It e, unsigned p) {
    for (It i = b; i != e; ++i) {
        unsigned q = prio_of(*i);
        if (g_rev ? q > p : q < p) return false;
    }
    return true;
}

template <typename H, typename Key>
static void run_dary(const std::vector<Op>& ops, std::ostringstream& out) {
    H h = fresh<H>();
    std::multiset<uint32_t> ref;
    bool dirty = false, first = true; std::string fail;
    size_t npop = 0;
    auto note = [&](size_t i, const char* why) { if (fail.empty()) fail = std::to_string(i) + ":" + why; };
    auto do_pop = [&](size_t i, bool extract) {
        uint32_t t = static_cast<uint32_t>(id_of(h.top()));
        if (!dirty && !is_extreme(ref.begin(), ref.end(), prio_of(t))) note(i, "pop-not-min");
        auto it = ref.find(t);
        if (it == ref.end()) note(i, "pop-unknown-key"); else ref.erase(it);
        if (!extract) h.pop(); else { Key e = h.extract_top(); if (id_of(e) != t || !intact(e)) note(i, "extract_top!=top"); }
    };
    auto emit = [&](size_t i) {
        bool sane = h.sanity_check();
        const H& ch = h;                       // size/empty/top/capacity through the const interface
        if (!first) out << ' ';
        first = false;
        out << ch.size() << ':';
        if (ch.empty()) out << '-'; else out << id_of(ch.top());
        out << ':' << (sane ? 1 : 0);
        if (g_onepass_abuse) { note(i, "input-range-traversed-twice"); g_onepass_abuse = false; }
        if (ch.size() != ref.size() || ch.empty() != ref.empty() || ch.capacity() < ch.size()) note(i, "size");
        else if (!ch.empty() && !intact(ch.top())) note(i, "moved-from-key");
        else if (!dirty && !ch.empty() && (!ref.count(id_of(ch.top())) || !is_extreme(ref.begin(), ref.end(), prio_of(id_of(ch.top()))))) note(i, "top-not-min");
        else if (!dirty && !sane) note(i, "sanity_check");
    };
    for (size_t i = 0; i < ops.size(); ++i) {
        const Op& o = ops[i];
        if (o.name == "D") { while (!ref.empty() && h.size()) { do_pop(i, npop++ % 2 == 0); emit(i); } continue; }
        // a key that is already stored keeps its priority (the table may only change through S + update_all)
        if (o.name == "P" || o.name == "PR") {
            if (!ref.count(o.f[0])) set_prio(o.f[0], o.f[1]);
            Key k = make_key<Key>(o.f[0]);
            if (o.name == "P") h.push(k); else h.push(std::move(k));      // const& / && overload
            ref.insert(o.f[0]);
        }
        else if (o.name == "PT" || o.name == "PTR") {
            // the argument ALIASES the heap's own storage: push(top()); PTR first shrinks capacity() to size() (a copy
            // allocates exactly size() slots, the moves keep that buffer), so the push has to reallocate
            if (!ref.empty() && h.size()) {
                if (o.name == "PTR") { H c(h); H e2(std::move(c)); h = std::move(e2); }
                uint32_t t = static_cast<uint32_t>(id_of(h.top()));
                h.push(h.top());
                ref.insert(t);
            }
        }
        else if (o.name == "O" || o.name == "OX") { if (!ref.empty() && h.size()) do_pop(i, o.name == "OX"); }
        else if (o.name == "S") { set_prio(o.f[0], o.f[1]); dirty = true; }
        else if (o.name == "UA") { h.update_all(); dirty = false; }
        else if (o.name[0] == 'B') {
            std::vector<Key> keys;
            ref.clear();
            for (auto& kp : o.kps) { set_prio(kp.first, kp.second); keys.push_back(make_key<Key>(kp.first)); ref.insert(kp.first); }
            build_by(h, o.name, keys);
            dirty = false;
        }
        else if (o.name == "C") { h.clear(); ref.clear(); dirty = false; }
        else if (o.name == "V") h.reserve(static_cast<size_t>(o.f[0]));
        else if (o.name == "Y") { H c(h); H e2 = fresh<H>(); e2 = c; h = e2; }                // copy ctor + copy assignment
        else if (o.name == "Z") { H m(std::move(h)); H e2 = fresh<H>(); e2 = std::move(m); h = std::move(e2); }   // move ctor + assignment
        emit(i);
    }
    if (!fail.empty()) out << " PROPFAIL@" << fail;
}

template <typename H, typename KT>
static void run_addr(const std::vector<Op>& ops, size_t nk, std::ostringstream& out) {
    H h = fresh<H>();
    std::set<KT> ref;
    bool dirty = false, first = true; std::string fail;
    size_t npop = 0;
    auto note = [&](size_t i, const char* why) { if (fail.empty()) fail = std::to_string(i) + ":" + why; };
    auto do_pop = [&](size_t i, bool extract) {
        KT t = h.top();
        if (!dirty && !is_extreme(ref.begin(), ref.end(), prio_of(t))) note(i, "pop-not-min");
        if (!ref.count(t)) note(i, "pop-unknown-key");
        ref.erase(t);
        if (!extract) h.pop(); else { KT e = h.extract_top(); if (e != t) note(i, "extract_top!=top"); }
    };
    auto emit = [&](size_t i) {
        bool sane = h.sanity_check();
        const H& ch = h;                       // size/empty/top/contains/capacity through the const interface
        if (!first) out << ' ';
        first = false;
        out << ch.size() << ':';
        if (ch.empty()) out << '-'; else out << static_cast<unsigned long>(ch.top());
        out << ':' << (sane ? 1 : 0) << ':';
        bool mem_ok = true;
        // keys 0..nk-1: stored keys, never-inserted keys inside the handle table (gaps) and keys beyond its end
        for (size_t k = 0; k < nk; ++k) {
            bool c = ch.contains(static_cast<KT>(k));
            out << (c ? '1' : '0');
            if (c != (ref.count(static_cast<KT>(k)) != 0)) mem_ok = false;
        }
        if (ch.contains(std::numeric_limits<KT>::max())) mem_ok = false;     // not_present() itself is never a member
        if (g_onepass_abuse) { note(i, "input-range-traversed-twice"); g_onepass_abuse = false; }
        if (ch.size() != ref.size() || ch.empty() != ref.empty() || ch.capacity() < ch.size()) note(i, "size");
        else if (!mem_ok) note(i, "contains");
        else if (!dirty && !ch.empty() && (!ref.count(ch.top()) || !is_extreme(ref.begin(), ref.end(), prio_of(ch.top())))) note(i, "top-not-min");
        else if (!dirty && !sane) note(i, "sanity_check");
    };
    for (size_t i = 0; i < ops.size(); ++i) {
        const Op& o = ops[i];
        if (o.name == "D") { while (!ref.empty() && h.size()) { do_pop(i, npop++ % 2 == 0); emit(i); } continue; }
        // P / PR / R / O are applied only when their documented precondition holds (decided on the reference set)
        if (o.name == "P" || o.name == "PR") {
            KT k = static_cast<KT>(o.f[0]);
            if (!ref.count(k)) {
                set_prio(o.f[0], o.f[1]);
                KT k2 = k;
                if (o.name == "P") h.push(k); else h.push(std::move(k2));       // const& / && overload
                ref.insert(k);
            }
        }
        else if (o.name == "R") { KT k = static_cast<KT>(o.f[0]); if (ref.count(k)) { h.remove(k); ref.erase(k); } }
        else if (o.name == "O" || o.name == "OX") { if (!ref.empty() && h.size()) do_pop(i, o.name == "OX"); }
        else if (o.name == "U") { set_prio(o.f[0], o.f[1]); h.update(static_cast<KT>(o.f[0])); ref.insert(static_cast<KT>(o.f[0])); }
        else if (o.name == "S") { set_prio(o.f[0], o.f[1]); dirty = true; }
        else if (o.name == "UA") { h.update_all(); dirty = false; }
        else if (o.name[0] == 'B') {
            std::vector<KT> keys;
            for (auto& kp : o.kps) { set_prio(kp.first, kp.second); keys.push_back(static_cast<KT>(kp.first)); }
            build_by(h, o.name, keys);
            ref.clear(); ref.insert(keys.begin(), keys.end()); dirty = false;
        }
        else if (o.name == "C") { h.clear(); ref.clear(); dirty = false; }
        else if (o.name == "V") h.reserve(static_cast<size_t>(o.f[0]));          // grows handles_ with not_present()
        else if (o.name == "Y") { H c(h); H e2 = fresh<H>(); e2 = c; h = e2; }
        else if (o.name == "Z") { H m(std::move(h)); H e2 = fresh<H>(); e2 = std::move(m); h = std::move(e2); }
        emit(i);
    }
    if (!fail.empty()) out << " PROPFAIL@" << fail;
}

template <typename KT>
static void addr_dispatch(unsigned d, const std::vector<Op>& ops, size_t nk, std::ostringstream& out) {
    switch (d) {
    case 1: run_addr<tlx::DAryAddressableIntHeap<KT, 1, TabLess>, KT>(ops, nk, out); break;
    case 2: run_addr<tlx::DAryAddressableIntHeap<KT, 2, TabLess>, KT>(ops, nk, out); break;
    case 3: run_addr<tlx::DAryAddressableIntHeap<KT, 3, TabLess>, KT>(ops, nk, out); break;
    case 4: run_addr<tlx::DAryAddressableIntHeap<KT, 4, TabLess>, KT>(ops, nk, out); break;
    case 5: run_addr<tlx::DAryAddressableIntHeap<KT, 5, TabLess>, KT>(ops, nk, out); break;
    case 6: run_addr<tlx::DAryAddressableIntHeap<KT, 6, TabLess>, KT>(ops, nk, out); break;
    case 7: run_addr<tlx::DAryAddressableIntHeap<KT, 7, TabLess>, KT>(ops, nk, out); break;
    case 8: run_addr<tlx::DAryAddressableIntHeap<KT, 8, TabLess>, KT>(ops, nk, out); break;
    default: out << "?arity";
    }
}

// <rev>: 0 = min order of the table, 1 = max order, 2 = DEFAULT template arguments (Arity 2, std::less, via the
// d_ary_heap / d_ary_addressable_int_heap aliases; the generator sets priority = key), 3..6 (dary only) = heap-owning keys
// whose moved-from state ranks as an extreme priority (see StrKey)
int main(int argc, char** argv) {
    if (argc < 2) return 2;
    std::ifstream in(argv[1]);
    std::string line;
    while (std::getline(in, line)) {
        if (line.empty()) continue;
        std::istringstream ls(line);
        std::string kind; ls >> kind;
        std::ostringstream out;
        g_prio.clear();
        if (kind == "dary") {
#if C13_PART != 2
            // rv 3..6: heap-owning keys; 3 = min order, moved-from ranks +inf; 4 = min order, -inf; 5 = max order, +inf; 6 = max, -inf
            unsigned d; int rv; ls >> d >> rv; g_rev = rv == 1 || rv == 5 || rv == 6; g_moved_high = rv == 3 || rv == 5;
            auto ops = parse_ops(ls);
            if (rv == 2) run_dary<tlx::d_ary_heap<uint32_t>, uint32_t>(ops, out);
            else if (rv >= 3 && d == 2) run_dary<tlx::DAryHeap<StrKey, 2, TabLess>, StrKey>(ops, out);
            else if (rv >= 3) run_dary<tlx::DAryHeap<StrKey, 3, TabLess>, StrKey>(ops, out);
            else switch (d) {
            case 1: run_dary<tlx::DAryHeap<uint32_t, 1, TabLess>, uint32_t>(ops, out); break;
            case 2: run_dary<tlx::DAryHeap<uint32_t, 2, TabLess>, uint32_t>(ops, out); break;
            case 3: run_dary<tlx::DAryHeap<uint32_t, 3, TabLess>, uint32_t>(ops, out); break;
            case 4: run_dary<tlx::DAryHeap<uint32_t, 4, TabLess>, uint32_t>(ops, out); break;
            case 5: run_dary<tlx::DAryHeap<uint32_t, 5, TabLess>, uint32_t>(ops, out); break;
            case 6: run_dary<tlx::DAryHeap<uint32_t, 6, TabLess>, uint32_t>(ops, out); break;
            case 7: run_dary<tlx::DAryHeap<uint32_t, 7, TabLess>, uint32_t>(ops, out); break;
            case 8: run_dary<tlx::DAryHeap<uint32_t, 8, TabLess>, uint32_t>(ops, out); break;
            default: out << "?arity";
            }
#else
            out << "?part";
#endif
        } else if (kind == "addr") {
            unsigned d; int rv; unsigned kt; size_t nk; ls >> d >> rv >> kt >> nk; g_rev = rv == 1;
            auto ops = parse_ops(ls);
#if C13_PART != 2
            if (rv != 2 && kt == 8) { addr_dispatch<uint8_t>(d, ops, nk, out); std::cout << out.str() << std::endl; continue; }
#endif
#if C13_PART != 1
            if (rv == 2) run_addr<tlx::d_ary_addressable_int_heap<uint32_t>, uint32_t>(ops, nk, out);
            else if (kt == 16) addr_dispatch<uint16_t>(d, ops, nk, out);
            else if (kt == 64 && d == 2) run_addr<tlx::DAryAddressableIntHeap<uint64_t, 2, TabLess>, uint64_t>(ops, nk, out);
            else if (kt == 64) run_addr<tlx::DAryAddressableIntHeap<uint64_t, 4, TabLess>, uint64_t>(ops, nk, out);
            else if (kt != 8) addr_dispatch<uint32_t>(d, ops, nk, out);
            else out << "?part";
#else
            out << "?part";
#endif
        } else out << "?";
        std::cout << out.str() << std::endl;   // flush per case: a crash points at the next case
    }
    return 0;
}
