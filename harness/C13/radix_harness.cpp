// C13 correspondence harness for tlx::RadixHeap (via RadixHeapPair<KeyType, uint32_t, Radix>).
//   radix <w> <signed> <radix_bits> ops...
//   ops: P,<hexpattern>,<payload> (push)  E (emplace)  F (emplace_keyfirst)  H (get_bucket_key + push_to_bucket)
//        G (get_bucket + emplace_in_bucket)  T (top)  O (pop)  W (swap_top_bucket)  K (peak_top_key)  C (clear)
//        Y / Z (copy / move construction+assignment round trip; no output token)
// Keys travel as the w-bit two's-complement pattern in hex.  One output token per op (format of ocaml/C13_driver.ml);
// " PROPFAIL@<op>:<why>" is appended when the answers violate the property against a reference multiset.
#include <cstdint>
#include <cstdio>
#include <cstdlib>
#include <fstream>
#include <iostream>
#include <set>
#include <sstream>
#include <string>
#include <vector>

#include <tlx/container/radix_heap.hpp>

struct Op { char name; uint64_t key; unsigned payload; };

static std::vector<Op> parse_ops(std::istringstream& in) {
    std::vector<Op> ops; std::string tok;
    while (in >> tok) {
        Op o{tok[0], 0, 0};
        if (tok[0] == 'P' || tok[0] == 'E' || tok[0] == 'F' || tok[0] == 'H' || tok[0] == 'G') {
            size_t a = tok.find(','), b = tok.find(',', a + 1);
            o.key = strtoull(tok.substr(a + 1, b - a - 1).c_str(), nullptr, 16);
            o.payload = static_cast<unsigned>(atol(tok.substr(b + 1).c_str()));
        }
        ops.push_back(o);
    }
    return ops;
}

template <typename KT, unsigned Radix>
static void run_radix(const std::vector<Op>& ops, std::ostringstream& out) {
    using UT = typename std::make_unsigned<KT>::type;
    using H = tlx::RadixHeapPair<KT, uint32_t, Radix>;
    H h;
    std::multiset<KT> ref;
    std::string fail;
    bool have_last = false, first = true; KT last = 0;
    auto pat = [](KT k) { return static_cast<unsigned long long>(static_cast<UT>(k)); };
    for (size_t i = 0; i < ops.size(); ++i) {
        const Op& o = ops[i];
        std::string f;
        const H& ch = h;                        // size/empty/peak_top_key/get_bucket* through the const interface
        if (o.name == 'Y') { H c(h); H e2; e2 = c; h = e2; continue; }                                  // copy round trip
        if (o.name == 'Z') { H m(std::move(h)); H e2; e2 = std::move(m); h = std::move(e2); continue; } // move round trip
        if (!first) out << ' ';
        first = false;
        switch (o.name) {
        case 'P': case 'E': case 'F': case 'H': case 'G': {
            KT k = static_cast<KT>(static_cast<UT>(o.key));
            if (have_last && k < last) { out << "INVALID-HISTORY"; return; }
            std::pair<KT, uint32_t> val(k, o.payload);
            size_t idx;
            switch (o.name) {
            case 'P': idx = h.push(val); break;                                   // push(const value_type&)
            case 'E': idx = h.emplace(k, k, o.payload); break;                    // emplace(key, ctor args...)
            case 'F': idx = h.emplace_keyfirst(k, o.payload); break;              // emplace_keyfirst(key, rest...)
            case 'H': idx = ch.get_bucket_key(k); h.push_to_bucket(idx, val); break;
            default:  idx = ch.get_bucket(val); h.emplace_in_bucket(idx, k, o.payload); break;
            }
            if (idx != ch.get_bucket_key(k)) f = "bucket-index";
            ref.insert(k);
            out << 'i' << idx;
            break;
        }
        case 'T': {
            if (ref.empty()) { out << "INVALID-HISTORY"; return; }
            auto v = h.top();
            out << 't' << std::hex << pat(v.first) << std::dec << '.' << v.second;
            if (v.first != *ref.begin()) f = "top-not-min";
            have_last = true; last = *ref.begin();
            break;
        }
        case 'O': {
            if (ref.empty()) { out << "INVALID-HISTORY"; return; }
            have_last = true; last = *ref.begin();
            h.pop(); ref.erase(ref.begin());
            out << 'o';
            break;
        }
        case 'W': {
            if (ref.empty()) { out << "INVALID-HISTORY"; return; }
            std::vector<std::pair<KT, uint32_t>> b;
            h.swap_top_bucket(b);
            KT m = *ref.begin(); size_t cnt = ref.count(m);
            have_last = true; last = m;
            out << 'w';
            for (size_t j = 0; j < b.size(); ++j) {
                if (j) out << ',';
                out << std::hex << pat(b[j].first) << std::dec << '.' << b[j].second;
                if (b[j].first != m) f = "swap-bucket-not-min";
            }
            if (b.size() != cnt) f = "swap-bucket-count";
            ref.erase(m);
            break;
        }
        case 'K': {
            if (ref.empty()) { out << "INVALID-HISTORY"; return; }
            KT k = ch.peak_top_key();
            out << 'k' << std::hex << pat(k) << std::dec;
            if (k != *ref.begin()) f = "peak-not-min";
            break;
        }
        case 'C': h.clear(); ref.clear(); have_last = false; out << 'c'; break;
        default: out << '?';
        }
        out << ':' << ch.size();
        if (f.empty() && (ch.size() != ref.size() || ch.empty() != ref.empty())) f = "size";
        if (fail.empty() && !f.empty()) fail = std::to_string(i) + ":" + f;
    }
    if (!fail.empty()) out << " PROPFAIL@" << fail;
}

template <typename KT>
static void by_radix(unsigned rb, const std::vector<Op>& ops, std::ostringstream& out) {
    switch (rb) {
    case 1: run_radix<KT, 2>(ops, out); break;
    case 2: run_radix<KT, 4>(ops, out); break;
    case 3: run_radix<KT, 8>(ops, out); break;
    case 4: run_radix<KT, 16>(ops, out); break;
#ifdef C13_RADIX32
    case 5: run_radix<KT, 32>(ops, out); break;
#endif
    case 6: run_radix<KT, 64>(ops, out); break;
    default: out << "?radix";
    }
}

int main(int argc, char** argv) {
    if (argc < 2) return 2;
    std::ifstream in(argv[1]);
    std::string line;
    while (std::getline(in, line)) {
        if (line.empty()) continue;
        std::istringstream ls(line);
        std::string kind; unsigned w, rb; int sg;
        ls >> kind >> w >> sg >> rb;
        std::ostringstream out;
        auto ops = parse_ops(ls);
        if (kind != "radix") out << "?";
        else if (w == 8 && !sg) by_radix<uint8_t>(rb, ops, out);
        else if (w == 8 && sg) by_radix<int8_t>(rb, ops, out);
        else if (w == 16 && !sg) by_radix<uint16_t>(rb, ops, out);
        else if (w == 16 && sg) by_radix<int16_t>(rb, ops, out);
        else if (w == 32 && !sg) by_radix<uint32_t>(rb, ops, out);
        else if (w == 32 && sg) by_radix<int32_t>(rb, ops, out);
        else if (w == 64 && !sg) by_radix<uint64_t>(rb, ops, out);
        else if (w == 64 && sg) by_radix<int64_t>(rb, ops, out);
        else out << "?width";
        std::cout << out.str() << std::endl;
    }
    return 0;
}
