// C13 correspondence harness for tlx::RadixHeap (via RadixHeapPair<KeyType, uint32_t, Radix>).
//   radix <w> <signed> <radix_bits> ops...
//   ops: P,<hexpattern>,<payload> (push)  E (emplace)  F (emplace_keyfirst)  H (get_bucket_key + push_to_bucket)
//        G (get_bucket + emplace_in_bucket)  V (emplace(key, std::move(value)))  U (emplace_in_bucket(idx, std::move(value)))
//        T (top)  O (pop)  W (swap_top_bucket)  K (peak_top_key)  C (clear)
//        A (push(top())), M (emplace with arguments taken from top()), N (push_to_bucket(get_bucket(top()), top())):
//        the argument aliases the heap's own storage
//        Y / Z (copy / move construction+assignment round trip; no output token)
//        X as first token: RadixHeap<Item, ItemKey, KeyType, Radix> built with make_radix_heap instead of RadixHeapPair
//        (only for "32 0 3" and "16 1 2"); every case also checks BucketComputation::lower_bound/upper_bound
// Keys travel as the w-bit two's-complement pattern in hex.  One output token per op (format of ocaml/C13_driver.ml);
// " PROPFAIL@<op>:<why>" is appended when the answers violate the property against a reference multiset.
#include <cstdint>
#include <cstdio>
#include <cstdlib>
#include <fstream>
#include <iostream>
#include <set>
#include <sstream>
#include <string>
#include <vector>

#include <tlx/container/radix_heap.hpp>

// compiled in two parts (checks/C13.py builds them in parallel): C13_PART 1 = 8/16-bit keys, 2 = 32/64-bit keys
#ifndef C13_PART
#define C13_PART 0
#endif

struct Op { char name; uint64_t key; unsigned payload; };

static std::vector<Op> parse_ops(std::istringstream& in) {
    std::vector<Op> ops; std::string tok;
    while (in >> tok) {
        Op o{tok[0], 0, 0};
        if (tok[0] == 'P' || tok[0] == 'E' || tok[0] == 'F' || tok[0] == 'H' || tok[0] == 'G' || tok[0] == 'V' || tok[0] == 'U') {
            size_t a = tok.find(','), b = tok.find(',', a + 1);
            o.key = strtoull(tok.substr(a + 1, b - a - 1).c_str(), nullptr, 16);
            o.payload = static_cast<unsigned>(atol(tok.substr(b + 1).c_str()));
        }
        ops.push_back(o);
    }
    return ops;
}

// a value type that is not a pair, with its own key extractor (RadixHeap proper, built through make_radix_heap)
template <typename KT>
struct Item {
    KT key; uint32_t payload; std::string tag;     // heap-owning: a moved-from / destroyed source shows in the tag
    Item() : key(0), payload(0), tag("p0") {}
    Item(KT k, uint32_t p) : key(k), payload(p), tag("p" + std::to_string(p)) {}
    Item(const Item&) = default;
    Item& operator=(const Item&) = default;
    // a move visibly empties the source: key := the type's maximum, payload := ~0, tag cleared
    Item(Item&& o) noexcept : key(o.key), payload(o.payload), tag(std::move(o.tag)) { o.wipe(); }
    Item& operator=(Item&& o) noexcept {
        if (this != &o) { key = o.key; payload = o.payload; tag = std::move(o.tag); o.wipe(); }
        return *this;
    }
    void wipe() { key = std::numeric_limits<KT>::max(); payload = 0xFFFFFFFFu; tag.clear(); }
    bool intact() const { return tag == "p" + std::to_string(payload); }
};
template <typename KT> static bool intact(const Item<KT>& v) { return v.intact(); }
template <typename KT> static bool intact(const std::pair<KT, uint32_t>&) { return true; }
template <typename KT>
struct ItemKey { KT operator()(const Item<KT>& i) const { return i.key; } };
template <typename KT> static KT key_of(const std::pair<KT, uint32_t>& v) { return v.first; }
template <typename KT> static uint32_t pay_of(const std::pair<KT, uint32_t>& v) { return v.second; }
template <typename KT> static KT key_of(const Item<KT>& v) { return v.key; }
template <typename KT> static uint32_t pay_of(const Item<KT>& v) { return v.payload; }

// BucketComputation::lower_bound / upper_bound (public, unused by the heap itself) must agree with operator()
template <typename UT, unsigned Radix>
static bool bounds_consistent() {
    tlx::radix_heap_detail::BucketComputation<Radix, UT> bc;
    for (size_t i = 0; i < bc.num_buckets; ++i) {
        UT lo = bc.lower_bound(i), hi = bc.upper_bound(i);
        if (lo > hi || bc(lo, 0) != i || bc(hi, 0) != i) return false;
        if (i && bc(static_cast<UT>(lo - 1), 0) != i - 1) return false;
    }
    return true;
}

template <typename H, typename KT, unsigned Radix>
static void run_radix_on(H h, const std::vector<Op>& ops, std::ostringstream& out) {
    using UT = typename std::make_unsigned<KT>::type;
    using V = typename H::value_type;
    std::multiset<KT> ref;
    std::string fail;
    bool have_last = false, first = true; KT last = 0;
    auto pat = [](KT k) { return static_cast<unsigned long long>(static_cast<UT>(k)); };
    for (size_t i = 0; i < ops.size(); ++i) {
        const Op& o = ops[i];
        std::string f;
        const H& ch = h;                        // size/empty/peak_top_key/get_bucket* through the const interface
        if (o.name == 'X') continue;                                                                       // header flag
        if (o.name == 'Y') { H c(h); H e2(c); e2 = c; h = e2; continue; }                                  // copy ctor + assignment
        if (o.name == 'Z') { H m(std::move(h)); H e2(m); e2 = std::move(m); h = std::move(e2); continue; } // move ctor + assignment
        if (!first) out << ' ';
        first = false;
        switch (o.name) {
        case 'P': case 'E': case 'F': case 'H': case 'G': case 'V': case 'U': {
            KT k = static_cast<KT>(static_cast<UT>(o.key));
            if (have_last && k < last) { out << "INVALID-HISTORY"; return; }
            V val(k, o.payload);
            size_t idx;
            switch (o.name) {
            case 'P': idx = h.push(val); break;                                   // push(const value_type&)
            case 'E': idx = h.emplace(k, k, o.payload); break;                    // emplace(key, ctor args...)
            case 'F': idx = h.emplace_keyfirst(k, o.payload); break;              // emplace_keyfirst(key, rest...)
            case 'H': idx = ch.get_bucket_key(k); h.push_to_bucket(idx, val); break;
            case 'V': { V tmp(val); idx = h.emplace(k, std::move(tmp)); break; }           // value constructed from an RVALUE
            case 'U': { V tmp(val); idx = ch.get_bucket_key(k); h.emplace_in_bucket(idx, std::move(tmp)); break; }
            default:  idx = ch.get_bucket(val); h.emplace_in_bucket(idx, k, o.payload); break;
            }
            if (idx != ch.get_bucket_key(k)) f = "bucket-index";
            ref.insert(k);
            out << 'i' << idx;
            break;
        }
        case 'A': case 'M': case 'N': {
            // the argument ALIASES the heap's own storage (the reference returned by top())
            if (ref.empty()) { out << "INVALID-HISTORY"; return; }
            KT m = *ref.begin();
            size_t idx;
            if (o.name == 'A') idx = h.push(h.top());                                            // push(const value_type&)
            else if (o.name == 'M') { const V& t = h.top(); idx = h.emplace(key_of<KT>(t), key_of<KT>(t), pay_of<KT>(t)); }
            else { const V& t = h.top(); idx = ch.get_bucket(t); h.push_to_bucket(idx, t); }
            if (idx != ch.get_bucket_key(m)) f = "bucket-index";
            have_last = true; last = m;
            ref.insert(m);
            out << 'i' << idx;
            break;
        }
        case 'T': {
            if (ref.empty()) { out << "INVALID-HISTORY"; return; }
            auto v = h.top();
            if (!intact<KT>(v)) f = "moved-from-value";
            out << 't' << std::hex << pat(key_of<KT>(v)) << std::dec << '.' << pay_of<KT>(v);
            if (key_of<KT>(v) != *ref.begin()) f = "top-not-min";
            have_last = true; last = *ref.begin();
            break;
        }
        case 'O': {
            if (ref.empty()) { out << "INVALID-HISTORY"; return; }
            have_last = true; last = *ref.begin();
            h.pop(); ref.erase(ref.begin());
            out << 'o';
            break;
        }
        case 'W': {
            if (ref.empty()) { out << "INVALID-HISTORY"; return; }
            typename H::bucket_data_type b;
            h.swap_top_bucket(b);
            KT m = *ref.begin(); size_t cnt = ref.count(m);
            have_last = true; last = m;
            out << 'w';
            for (size_t j = 0; j < b.size(); ++j) {
                if (j) out << ',';
                out << std::hex << pat(key_of<KT>(b[j])) << std::dec << '.' << pay_of<KT>(b[j]);
                if (key_of<KT>(b[j]) != m) f = "swap-bucket-not-min";
                if (!intact<KT>(b[j])) f = "moved-from-value";
            }
            if (b.size() != cnt) f = "swap-bucket-count";
            ref.erase(m);
            break;
        }
        case 'K': {
            if (ref.empty()) { out << "INVALID-HISTORY"; return; }
            KT k = ch.peak_top_key();
            out << 'k' << std::hex << pat(k) << std::dec;
            if (k != *ref.begin()) f = "peak-not-min";
            break;
        }
        case 'C': h.clear(); ref.clear(); have_last = false; out << 'c'; break;
        default: out << '?';
        }
        out << ':' << ch.size();
        if (f.empty() && (ch.size() != ref.size() || ch.empty() != ref.empty())) f = "size";
        if (fail.empty() && !f.empty()) fail = std::to_string(i) + ":" + f;
    }
    if (fail.empty() && !bounds_consistent<UT, Radix>()) fail = "0:lower_bound/upper_bound";
    if (!fail.empty()) out << " PROPFAIL@" << fail;
}

template <typename KT, unsigned Radix>
static void run_radix(const std::vector<Op>& ops, std::ostringstream& out) {
    run_radix_on<tlx::RadixHeapPair<KT, uint32_t, Radix>, KT, Radix>(tlx::RadixHeapPair<KT, uint32_t, Radix>(), ops, out);
}
// RadixHeap<Item, ItemKey, KT, Radix> obtained from make_radix_heap (leading op token X)
template <typename KT, unsigned Radix>
static void run_radix_item(const std::vector<Op>& ops, std::ostringstream& out) {
    auto h = tlx::make_radix_heap<Item<KT>, Radix>(ItemKey<KT>());
    run_radix_on<decltype(h), KT, Radix>(h, ops, out);
}

template <typename KT>
static void by_radix(unsigned rb, const std::vector<Op>& ops, std::ostringstream& out) {
    switch (rb) {
    case 1: run_radix<KT, 2>(ops, out); break;
    case 2: run_radix<KT, 4>(ops, out); break;
    case 3: run_radix<KT, 8>(ops, out); break;
    case 4: run_radix<KT, 16>(ops, out); break;
    case 5: run_radix<KT, 32>(ops, out); break;
    case 6: run_radix<KT, 64>(ops, out); break;
    default: out << "?radix";
    }
}

// filled_ is a radix_heap_detail::BitArray; the Coq model replaces it by its specification (a set of indices with
// find_lsb = least member).  "bitarray <seed>" cases run the real tree of every depth against std::set.
template <size_t Size>
static bool bitarray_vs_set(uint64_t seed, std::string& why) {
    tlx::radix_heap_detail::BitArray<Size> b; std::set<size_t> r;
    uint64_t x = seed * 0x9E3779B97F4A7C15ull + Size;
    auto next = [&]() { x ^= x << 13; x ^= x >> 7; x ^= x << 17; return x; };
    for (int step = 0; step < 3000; ++step) {
        size_t i = next() % Size;
        if (step % 5 == 4) i = (next() % 3 == 0) ? Size - 1 : (next() % 2 ? 0 : i / 64 * 64);   // word / subtree borders
        switch (next() % 8) {
        case 0: case 1: case 2: b.set_bit(i); r.insert(i); break;
        case 3: case 4: b.clear_bit(i); r.erase(i); break;
        case 5: if (next() % 40 == 0) { b.clear_all(); r.clear(); } break;
        default: break;
        }
        const auto& cb = b;
        if (cb.is_set(i) != (r.count(i) != 0)) { why = "is_set"; return false; }
        if (cb.empty() != r.empty()) { why = "empty"; return false; }
        if (!r.empty() && cb.find_lsb() != *r.begin()) { why = "find_lsb"; return false; }
        if (step % 64 == 63) { tlx::radix_heap_detail::BitArray<Size> c(b); b = c; }        // copy round trip
    }
    return true;
}
static std::string bitarray_case(uint64_t seed) {
    std::string why;
#define C13_BA(S) if (!bitarray_vs_set<S>(seed, why)) return "PROPFAIL@bitarray<" #S ">:" + why;
    C13_BA(1) C13_BA(9) C13_BA(32) C13_BA(33) C13_BA(64) C13_BA(65) C13_BA(67) C13_BA(142) C13_BA(646)
    C13_BA(4096) C13_BA(4097) C13_BA(70000)
#undef C13_BA
    return "ok";
}

int main(int argc, char** argv) {
    if (argc < 2) return 2;
    std::ifstream in(argv[1]);
    std::string line;
    while (std::getline(in, line)) {
        if (line.empty()) continue;
        std::istringstream ls(line);
        std::string kind; unsigned w = 0, rb = 0; int sg = 0;
        ls >> kind;
        if (kind == "bitarray") {
#if C13_PART != 2
            uint64_t seed = 0; ls >> seed; std::cout << bitarray_case(seed) << std::endl;
#else
            std::cout << "?part" << std::endl;
#endif
            continue;
        }
        ls >> w >> sg >> rb;
        std::ostringstream out;
        auto ops = parse_ops(ls);
        bool item = !ops.empty() && ops[0].name == 'X';
        if (kind != "radix") out << "?";
#if C13_PART != 2
        else if (item && w == 16) run_radix_item<int16_t, 4>(ops, out);
        else if (w == 8 && !sg) by_radix<uint8_t>(rb, ops, out);
        else if (w == 8 && sg) by_radix<int8_t>(rb, ops, out);
        else if (w == 16 && !sg) by_radix<uint16_t>(rb, ops, out);
        else if (w == 16 && sg) by_radix<int16_t>(rb, ops, out);
#endif
#if C13_PART != 1
        else if (item && w == 32) run_radix_item<uint32_t, 8>(ops, out);
        else if (w == 32 && !sg) by_radix<uint32_t>(rb, ops, out);
        else if (w == 32 && sg) by_radix<int32_t>(rb, ops, out);
        else if (w == 64 && !sg) by_radix<uint64_t>(rb, ops, out);
        else if (w == 64 && sg) by_radix<int64_t>(rb, ops, out);
#endif
        else out << "?width";
        std::cout << out.str() << std::endl;
    }
    return 0;
}
