// C18 harness: every tlx::StringView query next to the same expression on std::string_view.
//
// usage: sv_harness <casefile>
// case file lines (hex strings, "-" = empty):
//   hay  <h>            unary queries on h          (block H)
//   pair <h> <s>        binary queries on (h, s)    (block P)
//   cmp5 <h> <s>        compare(pos1,n1,s,pos2,n2)  (block C)
//   enum <alphabet> <maxh> <maxs> <c5h> <c5s> <k> <m>   all h over the alphabet with |h|<=maxh (only those with
//                                               index = k mod m): H; all s, |s|<=maxs: P; C when |h|<=c5h and |s|<=c5s
//   mid  <buf> <o> <l>  unary queries on the view buf[o,o+l) inside the heap block holding buf   (block M)
//   alias <buf> <o1> <l1> <o2> <l2>   binary queries with hay = buf[o1,o1+l1), needle = buf[o2,o2+l2), both views
//                                     into the SAME heap block (aliasing / overlapping / prefix-of-itself)   (block A)
//   aenum <alphabet> <minlen> <maxlen> <k> <m>   all buffers (index = k mod m): every sub-range M, every pair of sub-ranges A
//   huge <s> [size]     queries that touch only the ends of a view of 2^31-1 .. 2^32+2^31 zero bytes (read-only
//                       MAP_NORESERVE mapping), with the short needle s: one block G per size (or only the given size)
//   "~" instead of a hex string = a default-constructed view (data() == nullptr)
//   a leading 'v' (vhay, vpair, vcmp5, vmid, valias) additionally prints one line per call.
// output, one line per block:
//   B <kind> <h> <s> <ncalls> <hash tlx> <hash std> <#calls where tlx != std> [first such call]
// The order of calls inside a block is mirrored exactly by ocaml/C18_driver.ml (which prints
//   B <kind> <h> <s> <ncalls> <hash model>).
// Every call is the SAME generic lambda applied to (tlx::StringView, tlx::StringView) and to
// (std::string_view, std::string_view) over the same bytes. Results are encoded as integer lists:
// size_type (npos = -1), bool 0/1, sign of compare, bytes as 0..255, strings as length + bytes,
// std::out_of_range = -2, any other exception = -3.
#include <tlx/container/string_view.hpp>

#include <csignal>
#include <cstdint>
#include <cstdio>
#include <cstdlib>
#include <cstring>
#include <exception>
#include <memory>
#include <stdexcept>
#include <string>
#include <sstream>
#include <string_view>
#include <sys/mman.h>
#include <unistd.h>
#include <vector>

typedef tlx::StringView TV;
typedef std::string_view SV;
static const size_t NPOS = static_cast<size_t>(-1);
static const uint64_t MASK = (1ull << 62) - 1;

// starts_with / ends_with: members of tlx::StringView and of C++20's std::string_view; when this file is compiled as C++17
// (second binary of the check: same overload sets as most users of tlx see) the reference side uses the standard's
// "equivalent to" definitions
template <class V, class X> bool sw(const V& v, const X& x) { return v.starts_with(x); }
template <class V, class X> bool ew(const V& v, const X& x) { return v.ends_with(x); }
#if __cplusplus <= 201703L
inline bool sw(const SV& v, const SV& x) { return v.substr(0, x.size()) == x; }
inline bool ew(const SV& v, const SV& x) { return v.size() >= x.size() && v.compare(v.size() - x.size(), SV::npos, x) == 0; }
inline bool sw(const SV& v, const char& c) { return !v.empty() && v.front() == c; }
inline bool ew(const SV& v, const char& c) { return !v.empty() && v.back() == c; }
#endif

struct Vals {
    int n = 0;
    long v[64];
    void push(long x) { if (n < 64) v[n++] = x; }
    void size_t_(size_t r) { push(r == NPOS ? -1 : static_cast<long>(r)); }
    void boolean(bool b) { push(b ? 1 : 0); }
    void sign(int c) { push(c < 0 ? -1 : c > 0 ? 1 : 0); }
    void ch(char c) { push(static_cast<unsigned char>(c)); }
    template <class V> void str(const V& s) { push(static_cast<long>(s.size())); for (size_t i = 0; i < s.size(); ++i) ch(s.data()[i]); }
    // a returned / modified view: its size(), the offset of its data() from `base`, then its bytes (at most 40 are
    // read, so that an absurd size is reported as a wrong size, not as a crash of the harness)
    template <class V> void view(const V& s, const char* base) {
        size_t_(s.size()); push(static_cast<long>(s.data() - base));
        for (size_t i = 0; i < s.size() && i < 40; ++i) ch(s.data()[i]);
    }
    bool operator==(const Vals& o) const { return n == o.n && std::memcmp(v, o.v, sizeof(long) * n) == 0; }
};

static std::string hex(const std::string& s) {
    if (s.empty()) return "-";
    static const char* d = "0123456789abcdef";
    std::string o;
    for (unsigned char c : s) { o += d[c >> 4]; o += d[c & 15]; }
    return o;
}
static std::string unhex(const std::string& h) {
    std::string o;
    if (h == "-" || h == "~") return o;
    for (size_t i = 0; i + 1 < h.size(); i += 2) o += static_cast<char>(std::stoi(h.substr(i, 2), nullptr, 16));
    return o;
}

// ---------------------------------------------------------------- current call (for crash reports)
static struct Cur { char kind; const std::string* h; const std::string* s; const char* name; long a[4]; int na; long idx; } g_cur;   // h, s: the block's two label fields

static void describe_cur(char* buf, size_t len) {
    int k = snprintf(buf, len, "%c %s %s %ld %s", g_cur.kind, g_cur.h ? g_cur.h->c_str() : "?",
                     g_cur.s ? g_cur.s->c_str() : "?", g_cur.idx, g_cur.name ? g_cur.name : "?");
    for (int i = 0; i < g_cur.na && k < (int)len; ++i) k += snprintf(buf + k, len - k, "%c%ld", i ? ',' : ' ', g_cur.a[i]);
}
static bool g_reported_any = false;
static void crash_report(const char* why) {
    if (g_reported_any) return;
    g_reported_any = true;
    char buf[512];
    describe_cur(buf, sizeof buf);
    fflush(stdout);
    printf("\nCRASH %s | %s\n", why, buf);
    fflush(stdout);
}
static void on_terminate() { crash_report("std::terminate"); _exit(3); }
// called by the sanitizer runtime whenever it is about to kill the process (ASan reports as well as UBSan's
// -fno-sanitize-recover checks, which do not pass through __asan_on_error)
static void on_sanitizer_death() { crash_report("sanitizer"); }
extern "C" void __sanitizer_set_death_callback(void (*callback)(void));
// g++ links libasan and libubsan with separate runtimes, and the death callback only reaches libasan's: make both
// runtimes abort() and name the current call from the SIGABRT handler (also covers assert / plain abort)
extern "C" const char* __asan_default_options() { return "abort_on_error=1:detect_leaks=1"; }
extern "C" const char* __ubsan_default_options() { return "abort_on_error=1:print_stacktrace=1"; }
static bool g_reported = false;
static void on_abort(int) { if (!g_reported) crash_report("sanitizer/abort"); _exit(3); }

// ---------------------------------------------------------------- one block
struct Block {
    char kind; const std::string& h; const std::string& s; bool verbose;
    uint64_t ht = 0, hs = 0; long ncalls = 0, nmis = 0; std::string first;
    // the viewed bytes live in exact-size heap blocks (no terminator, not a std::string's SSO buffer), so that
    // ASan sees any read past the end of a view
    std::unique_ptr<char[]> hb, sb;
    TV T, X; SV S, Y;
    std::string lh, ls;          // the two label fields of the output line (hex of h and s unless set otherwise)
    const char* alias_cs = nullptr;
    Block(char k, const std::string& h_, const std::string& s_, bool v)
        : kind(k), h(h_), s(s_), verbose(v), hb(new char[h_.size()]), sb(new char[s_.size()]), lh(hex(h_)), ls(hex(s_)) {
        std::memcpy(hb.get(), h_.data(), h_.size());
        std::memcpy(sb.get(), s_.data(), s_.size());
        T = TV(hb.get(), h_.size()); X = TV(sb.get(), s_.size());
        S = SV(hb.get(), h_.size()); Y = SV(sb.get(), s_.size());
    }
    // aliasing family: both views are sub-ranges [o1, o1+|h|) and [o2, o2+|s|) of ONE heap block holding buf
    // (followed by one NUL so that buf + o2 is also a valid C string for the const char* overloads)
    Block(char k, const std::string& h_, const std::string& s_, bool v, const std::string& buf, size_t o1, size_t o2,
          const std::string& label2)
        : kind(k), h(h_), s(s_), verbose(v), hb(new char[buf.size() + 1]), sb(new char[0]), lh(hex(buf)), ls(label2) {
        std::memcpy(hb.get(), buf.data(), buf.size());
        hb[buf.size()] = '\0';
        T = TV(hb.get() + o1, h_.size()); X = TV(hb.get() + o2, s_.size());
        S = SV(hb.get() + o1, h_.size()); Y = SV(hb.get() + o2, s_.size());
        alias_cs = hb.get() + o2;
    }
    // default-constructed (data() == nullptr) empty views instead of empty views with a valid pointer
    void null_h() { T = TV(); S = SV(); lh = "~"; }
    void null_s() { X = TV(); Y = SV(); ls = "~"; }

    static void mix(uint64_t& hh, const Vals& r) {
        hh = (hh * 1000003ull + static_cast<uint64_t>(r.n + 3)) & MASK;
        for (int i = 0; i < r.n; ++i) hh = (hh * 1000003ull + static_cast<uint64_t>(r.v[i] + 3)) & MASK;
    }
    static std::string show(const Vals& r) {
        std::string o;
        for (int i = 0; i < r.n; ++i) { if (i) o += ','; o += std::to_string(r.v[i]); }
        return o;
    }
    // f(out, view, other view): same expression on both libraries
    template <class F>
    void call(const char* name, std::initializer_list<long> args, F f) {
        g_cur.kind = kind; g_cur.h = &lh; g_cur.s = &ls; g_cur.name = name; g_cur.idx = ncalls; g_cur.na = 0;
        for (long a : args) if (g_cur.na < 4) g_cur.a[g_cur.na++] = a;
        Vals t, r;
        try { f(t, T, X); } catch (const std::out_of_range&) { t.n = 0; t.push(-2); } catch (...) { t.n = 0; t.push(-3); }
        try { f(r, S, Y); } catch (const std::out_of_range&) { r.n = 0; r.push(-2); } catch (...) { r.n = 0; r.push(-3); }
        done(name, t, r);
    }
    // different expressions (member missing in std)
    template <class F, class G>
    void call2(const char* name, std::initializer_list<long> args, F f, G g) {
        g_cur.kind = kind; g_cur.h = &lh; g_cur.s = &ls; g_cur.name = name; g_cur.idx = ncalls; g_cur.na = 0;
        for (long a : args) if (g_cur.na < 4) g_cur.a[g_cur.na++] = a;
        Vals t, r;
        try { f(t, T, X); } catch (const std::out_of_range&) { t.n = 0; t.push(-2); } catch (...) { t.n = 0; t.push(-3); }
        try { g(r, S, Y); } catch (const std::out_of_range&) { r.n = 0; r.push(-2); } catch (...) { r.n = 0; r.push(-3); }
        done(name, t, r);
    }
    void done(const char* name, const Vals& t, const Vals& r) {
        mix(ht, t); mix(hs, r);
        bool same = (t == r);
        if (!same) {
            ++nmis;
            if (first.empty()) { char buf[512]; describe_cur(buf, sizeof buf); first = std::string(buf) + " tlx=" + show(t) + " std=" + show(r); }
        }
        if (verbose) {
            std::string a;
            for (int i = 0; i < g_cur.na; ++i) { if (i) a += ','; a += std::to_string(g_cur.a[i]); }
            printf("C %ld %s %s | t: %s | s: %s\n", ncalls, name, a.empty() ? "-" : a.c_str(), show(t).c_str(), show(r).c_str());
        }
        ++ncalls;
    }
    void finish() {
        printf("B %c %s %s %ld %llu %llu %ld%s%s\n", kind, lh.c_str(), ls.c_str(), ncalls,
               (unsigned long long)ht, (unsigned long long)hs, nmis, first.empty() ? "" : " | ", first.c_str());
    }
};

static std::vector<size_t> positions(size_t len) {
    std::vector<size_t> p;
    for (size_t i = 0; i <= len + 2; ++i) p.push_back(i);
    p.push_back(NPOS);
    return p;
}
static std::vector<size_t> few_positions(size_t len) { return {0, 1, len, NPOS}; }
// count arguments: 0..len+2 and npos-d for d = len+3..0 (pos + n wraps around for d <= pos)
static std::vector<size_t> counts(size_t len) {
    std::vector<size_t> p;
    for (size_t i = 0; i <= len + 2; ++i) p.push_back(i);
    for (size_t d = len + 4; d-- > 0;) p.push_back(NPOS - d);
    return p;
}
static std::vector<size_t> few_counts(size_t len) { return {0, 1, len, NPOS - 3, NPOS - 2, NPOS - 1, NPOS}; }
static long L(size_t x) { return static_cast<long>(x); }    // npos-d prints as -(d+1)

static const char ALPHA5[5] = {'\x00', 'a', 'b', '\x80', '\xFF'};
// positions / counts far beyond any size: would expose a truncation to 32 bits / int, or pos + n wrap-around
static const size_t HUGE3[3] = {1ull << 32, (1ull << 32) + 1, NPOS - 1};

// ---------------------------------------------------------------- block H: unary queries
static void run_hay(Block& b) {
    const std::string& h = b.h;
    const std::vector<size_t> P = positions(h.size());
    const std::vector<size_t> N = counts(h.size());
    const char* base = b.T.data();
    b.call("size", {}, [](Vals& o, auto v, auto) { o.size_t_(v.size()); o.size_t_(v.length()); o.boolean(v.empty()); });
    for (size_t pos : P)
        b.call("at", {L(pos)}, [=](Vals& o, auto v, auto) { o.ch(v.at(pos)); });
    for (size_t pos = 0; pos < h.size(); ++pos)
        b.call("index", {L(pos)}, [=](Vals& o, auto v, auto) { o.ch(v[pos]); });
    if (!h.empty()) {
        b.call("front", {}, [](Vals& o, auto v, auto) { o.ch(v.front()); });
        b.call("back", {}, [](Vals& o, auto v, auto) { o.ch(v.back()); });
    }
    for (size_t n = 0; n <= h.size(); ++n) {   // std: precondition n <= size()
        b.call("remove_prefix", {L(n)}, [=](Vals& o, auto v, auto) { v.remove_prefix(n); o.view(v, base); });
        b.call("remove_suffix", {L(n)}, [=](Vals& o, auto v, auto) { v.remove_suffix(n); o.view(v, base); });
    }
    b.call2("to_string", {}, [](Vals& o, TV v, TV) { o.str(v.to_string()); }, [](Vals& o, SV v, SV) { o.str(std::string(v)); });
    b.call("string_conv", {}, [](Vals& o, auto v, auto) { std::string s(v); o.str(s); });
    // ---- entry points beyond the queries (audit docs/audit/C18.md): the explicit conversion operator (std::string s(v)
    // above goes through operator std::string_view in C++17), iterators, every constructor, clear, clamping, operator<<
    b.call2("operator_string", {}, [](Vals& o, TV v, TV) { o.str(v.operator std::string()); }, [](Vals& o, SV v, SV) { o.str(std::string(v)); });
    b.call("iter_fwd", {}, [](Vals& o, auto v, auto) { o.push(v.end() - v.begin()); for (auto it = v.begin(); it != v.end(); ++it) o.ch(*it); });
    b.call("iter_cfwd", {}, [](Vals& o, auto v, auto) { o.push(v.cend() - v.cbegin()); for (auto it = v.cbegin(); it != v.cend(); ++it) o.ch(*it); });
    b.call("iter_rev", {}, [](Vals& o, auto v, auto) { o.push(v.rend() - v.rbegin()); for (auto it = v.rbegin(); it != v.rend(); ++it) o.ch(*it); });
    b.call("iter_crev", {}, [](Vals& o, auto v, auto) { o.push(v.crend() - v.crbegin()); for (auto it = v.crbegin(); it != v.crend(); ++it) o.ch(*it); });
    {
        const std::string hs = h;                          // an owning copy for the std::string based constructors
        const char* p = b.T.data(); const size_t n = h.size();
        b.call2("ctor_string", {}, [&](Vals& o, TV, TV) { TV c(hs); o.str(c); }, [&](Vals& o, SV, SV) { SV c(hs); o.str(c); });
        b.call2("ctor_string_rvalue", {}, [&](Vals& o, TV, TV) { std::string tmp = hs; TV c(std::move(tmp)); o.str(c); },
                [&](Vals& o, SV, SV) { std::string tmp = hs; SV c(tmp); o.str(c); });
        b.call2("ctor_cstr", {}, [&](Vals& o, TV, TV) { TV c(hs.c_str()); o.str(c); }, [&](Vals& o, SV, SV) { SV c(hs.c_str()); o.str(c); });
        b.call2("ctor_ptr_pair", {}, [=](Vals& o, TV, TV) { TV c(p, p + n); o.view(c, p); }, [=](Vals& o, SV, SV) { SV c(p, n); o.view(c, p); });
        b.call2("ctor_string_iter_n", {}, [&](Vals& o, TV, TV) { TV c(hs.begin(), hs.size()); o.view(c, hs.data()); },
                [&](Vals& o, SV, SV) { SV c(hs); o.view(c, hs.data()); });
        b.call2("ctor_string_iter_pair", {}, [&](Vals& o, TV, TV) { TV c(hs.begin(), hs.end()); o.view(c, hs.data()); },
                [&](Vals& o, SV, SV) { SV c(hs); o.view(c, hs.data()); });
        b.call2("ctor_std_string_view", {}, [=](Vals& o, TV v, TV) { SV s(v); TV c(s); o.view(c, p); }, [=](Vals& o, SV v, SV) { SV c(v); o.view(c, p); });
        b.call2("ctor_null_cstr", {}, [](Vals& o, TV, TV) { TV c(static_cast<const char*>(nullptr)); o.size_t_(c.size()); o.boolean(c.data() == nullptr); o.boolean(c == TV()); },
                [](Vals& o, SV, SV) { SV c; o.size_t_(c.size()); o.boolean(c.data() == nullptr); o.boolean(c == SV()); });
        b.call("copy_assign", {}, [=](Vals& o, auto v, auto x) { auto c(v); decltype(v) d; d = v; o.view(c, p); o.size_t_(d.size()); o.push(d.data() - p); (void)x; });
    }
    b.call2("clear", {}, [=](Vals& o, TV v, TV) { v.clear(); o.view(v, base); }, [=](Vals& o, SV v, SV) { v.remove_suffix(v.size()); o.view(v, base); });
    // remove_prefix / remove_suffix beyond size(): undefined for std::string_view, tlx clamps n to size() (documented by the code
    // only); checked against the model's clamp and against std::string_view called with min(n, size())
    for (size_t n : {h.size() + 1, h.size() + 2, NPOS - 1, NPOS}) {
        b.call2("remove_prefix_clamped", {L(n)}, [=](Vals& o, TV v, TV) { v.remove_prefix(n); o.view(v, base); },
                [=](Vals& o, SV v, SV) { v.remove_prefix(std::min(n, v.size())); o.view(v, base); });
        b.call2("remove_suffix_clamped", {L(n)}, [=](Vals& o, TV v, TV) { v.remove_suffix(n); o.view(v, base); },
                [=](Vals& o, SV v, SV) { v.remove_suffix(std::min(n, v.size())); o.view(v, base); });
    }
    b.call("stream_insert", {}, [](Vals& o, auto v, auto) { std::ostringstream os; os << v << '|' << 7; o.str(os.str()); });
    for (size_t pos : P) for (size_t n : N)
        b.call("substr", {L(pos), L(n)}, [=](Vals& o, auto v, auto) { auto r = v.substr(pos, n); o.view(r, v.data()); });
    auto do_copy = [&b](size_t n, size_t pos) {
        b.call("copy", {L(n), L(pos)}, [=](Vals& o, auto v, auto) {
            char buf[64]; size_t bl = v.size() + 3; std::memset(buf, '.', sizeof buf);
            std::string_view whole(buf, bl);
            try { size_t r = v.copy(buf, n, pos); o.size_t_(r); o.str(whole); }
            catch (const std::out_of_range&) { o.push(-2); o.str(whole); }
        });
    };
    for (size_t pos : P) for (size_t n : N) do_copy(n, pos);
    for (char c : ALPHA5) {
        long lc = static_cast<unsigned char>(c);
        b.call("starts_with_char", {lc}, [=](Vals& o, auto v, auto) { o.boolean(sw(v, c)); });
        b.call("ends_with_char", {lc}, [=](Vals& o, auto v, auto) { o.boolean(ew(v, c)); });
        for (size_t pos : P) {
            b.call("find_char", {lc, L(pos)}, [=](Vals& o, auto v, auto) { o.size_t_(v.find(c, pos)); });
            b.call("rfind_char", {lc, L(pos)}, [=](Vals& o, auto v, auto) { o.size_t_(v.rfind(c, pos)); });
            b.call("find_first_of_char", {lc, L(pos)}, [=](Vals& o, auto v, auto) { o.size_t_(v.find_first_of(c, pos)); });
            b.call("find_last_of_char", {lc, L(pos)}, [=](Vals& o, auto v, auto) { o.size_t_(v.find_last_of(c, pos)); });
            b.call("find_first_not_of_char", {lc, L(pos)}, [=](Vals& o, auto v, auto) { o.size_t_(v.find_first_not_of(c, pos)); });
            b.call("find_last_not_of_char", {lc, L(pos)}, [=](Vals& o, auto v, auto) { o.size_t_(v.find_last_not_of(c, pos)); });
        }
    }
    for (size_t g : HUGE3) {
        b.call("at", {L(g)}, [=](Vals& o, auto v, auto) { o.ch(v.at(g)); });
        b.call("substr", {L(g), 1}, [=](Vals& o, auto v, auto) { auto r = v.substr(g, 1); o.view(r, v.data()); });
        for (size_t pos = 0; pos <= h.size(); ++pos) {
            b.call("substr", {L(pos), L(g)}, [=](Vals& o, auto v, auto) { auto r = v.substr(pos, g); o.view(r, v.data()); });
            do_copy(g, pos);
        }
        do_copy(1, g);
        b.call("find_char", {'a', L(g)}, [=](Vals& o, auto v, auto) { o.size_t_(v.find('a', g)); });
        b.call("rfind_char", {'a', L(g)}, [=](Vals& o, auto v, auto) { o.size_t_(v.rfind('a', g)); });
    }
    b.finish();
}
static const std::string NONE;
static void block_hay(const std::string& h, bool verbose, bool null_h = false) {
    Block b('H', h, NONE, verbose);
    if (null_h) b.null_h();
    run_hay(b);
}
// block M: the unary queries on a view into the MIDDLE of a larger buffer: reads before / past the view hit
// valid but foreign bytes (no ASan redzone), so only a wrong result can show them
static void block_mid(const std::string& buf, size_t o, size_t l, bool verbose) {
    if (o + l > buf.size()) { printf("? bad mid range\n"); return; }
    std::string sub = buf.substr(o, l);
    Block b('M', sub, NONE, verbose, buf, o, 0, std::to_string(o) + "," + std::to_string(l));
    b.X = TV(); b.Y = SV();
    run_hay(b);
}

// ---------------------------------------------------------------- block P: binary queries
static void block_pair(const std::string& h, const std::string& s, bool verbose, bool null_h = false, bool null_s = false) {
    Block b('P', h, s, verbose);
    if (null_h) b.null_h();
    if (null_s) b.null_s();
    const std::vector<size_t> P = positions(h.size());
    const std::vector<size_t> F = few_positions(h.size());
    // count family of compare(pos1, n1, x): the full one (npos-d for every d) for needles of length <= 1 -- the clamping
    // does not depend on the needle --, the short one otherwise
    const std::vector<size_t> N1 = s.size() <= 1 ? counts(h.size()) : P;
    const std::string str = s;            // for the std::string overloads
    const char* cs = s.c_str();           // NUL-terminated: for the const char* overloads
    const size_t sn = s.size();

    b.call("compare", {}, [](Vals& o, auto v, auto x) { o.sign(v.compare(x)); });
    b.call("rel_sv", {}, [](Vals& o, auto v, auto x) {
        o.boolean(v == x); o.boolean(v != x); o.boolean(v < x); o.boolean(v > x); o.boolean(v <= x); o.boolean(v >= x); });
    b.call("rel_sv_string", {}, [&](Vals& o, auto v, auto) {
        o.boolean(v == str); o.boolean(v != str); o.boolean(v < str); o.boolean(v > str); o.boolean(v <= str); o.boolean(v >= str); });
    b.call("rel_string_sv", {}, [&](Vals& o, auto v, auto) {
        o.boolean(str == v); o.boolean(str != v); o.boolean(str < v); o.boolean(str > v); o.boolean(str <= v); o.boolean(str >= v); });
    b.call("rel_sv_cstr", {}, [=](Vals& o, auto v, auto) {
        o.boolean(v == cs); o.boolean(v != cs); o.boolean(v < cs); o.boolean(v > cs); o.boolean(v <= cs); o.boolean(v >= cs); });
    b.call("rel_cstr_sv", {}, [=](Vals& o, auto v, auto) {
        o.boolean(cs == v); o.boolean(cs != v); o.boolean(cs < v); o.boolean(cs > v); o.boolean(cs <= v); o.boolean(cs >= v); });
    b.call("compare_cstr", {}, [=](Vals& o, auto v, auto) { o.sign(v.compare(cs)); });
    b.call("starts_with", {}, [](Vals& o, auto v, auto x) { o.boolean(sw(v, x)); });
    b.call("ends_with", {}, [](Vals& o, auto v, auto x) { o.boolean(ew(v, x)); });
    b.call("swap", {}, [](Vals& o, auto v, auto x) { v.swap(x); o.str(v); if (o.n + x.size() + 1 <= 64) o.str(x); });
    // std::hash: equal views hash equally (also a view over a copy of the bytes elsewhere in memory)
    b.call("hash_consistent", {}, [](Vals& o, auto v, auto x) {
        std::hash<decltype(v)> hf; std::string c(v.data(), v.size()); decltype(v) w(c.data(), c.size());
        o.boolean(hf(v) == hf(w)); o.boolean(!(v == x) || hf(v) == hf(x)); });
    for (size_t pos : P) {
        b.call("find", {L(pos)}, [=](Vals& o, auto v, auto x) { o.size_t_(v.find(x, pos)); });
        b.call("rfind", {L(pos)}, [=](Vals& o, auto v, auto x) { o.size_t_(v.rfind(x, pos)); });
        b.call("find_first_of", {L(pos)}, [=](Vals& o, auto v, auto x) { o.size_t_(v.find_first_of(x, pos)); });
        b.call("find_last_of", {L(pos)}, [=](Vals& o, auto v, auto x) { o.size_t_(v.find_last_of(x, pos)); });
        b.call("find_first_not_of", {L(pos)}, [=](Vals& o, auto v, auto x) { o.size_t_(v.find_first_not_of(x, pos)); });
        b.call("find_last_not_of", {L(pos)}, [=](Vals& o, auto v, auto x) { o.size_t_(v.find_last_not_of(x, pos)); });
    }
    for (size_t pos : F) {
        b.call("find_ptr_n", {L(pos)}, [=](Vals& o, auto v, auto) { o.size_t_(v.find(cs, pos, sn)); });
        b.call("rfind_ptr_n", {L(pos)}, [=](Vals& o, auto v, auto) { o.size_t_(v.rfind(cs, pos, sn)); });
        b.call("find_first_of_ptr_n", {L(pos)}, [=](Vals& o, auto v, auto) { o.size_t_(v.find_first_of(cs, pos, sn)); });
        b.call("find_last_of_ptr_n", {L(pos)}, [=](Vals& o, auto v, auto) { o.size_t_(v.find_last_of(cs, pos, sn)); });
        b.call("find_first_not_of_ptr_n", {L(pos)}, [=](Vals& o, auto v, auto) { o.size_t_(v.find_first_not_of(cs, pos, sn)); });
        b.call("find_last_not_of_ptr_n", {L(pos)}, [=](Vals& o, auto v, auto) { o.size_t_(v.find_last_not_of(cs, pos, sn)); });
        b.call("find_cstr", {L(pos)}, [=](Vals& o, auto v, auto) { o.size_t_(v.find(cs, pos)); });
        b.call("rfind_cstr", {L(pos)}, [=](Vals& o, auto v, auto) { o.size_t_(v.rfind(cs, pos)); });
        b.call("find_first_of_cstr", {L(pos)}, [=](Vals& o, auto v, auto) { o.size_t_(v.find_first_of(cs, pos)); });
        b.call("find_last_of_cstr", {L(pos)}, [=](Vals& o, auto v, auto) { o.size_t_(v.find_last_of(cs, pos)); });
        b.call("find_first_not_of_cstr", {L(pos)}, [=](Vals& o, auto v, auto) { o.size_t_(v.find_first_not_of(cs, pos)); });
        b.call("find_last_not_of_cstr", {L(pos)}, [=](Vals& o, auto v, auto) { o.size_t_(v.find_last_not_of(cs, pos)); });
    }
    for (size_t pos1 : P) for (size_t n1 : N1) {
        // throwing calls: the count is irrelevant; all counts for short operands, two otherwise (cost of the exceptions)
        if (pos1 > h.size() && n1 != 0 && n1 != NPOS && !(s.size() <= 1 && h.size() <= 3)) continue;
        b.call("compare3", {L(pos1), L(n1)}, [=](Vals& o, auto v, auto x) { o.sign(v.compare(pos1, n1, x)); });
    }
    for (size_t n = 0; n < sn; ++n) for (size_t pos : {size_t(0), NPOS}) {      // (ptr, pos, n) with n < |s|: a prefix of the needle
        b.call("find_ptr_n", {L(pos), L(n)}, [=](Vals& o, auto v, auto) { o.size_t_(v.find(cs, pos, n)); });
        b.call("rfind_ptr_n", {L(pos), L(n)}, [=](Vals& o, auto v, auto) { o.size_t_(v.rfind(cs, pos, n)); });
        b.call("find_first_of_ptr_n", {L(pos), L(n)}, [=](Vals& o, auto v, auto) { o.size_t_(v.find_first_of(cs, pos, n)); });
        b.call("find_last_of_ptr_n", {L(pos), L(n)}, [=](Vals& o, auto v, auto) { o.size_t_(v.find_last_of(cs, pos, n)); });
        b.call("find_first_not_of_ptr_n", {L(pos), L(n)}, [=](Vals& o, auto v, auto) { o.size_t_(v.find_first_not_of(cs, pos, n)); });
        b.call("find_last_not_of_ptr_n", {L(pos), L(n)}, [=](Vals& o, auto v, auto) { o.size_t_(v.find_last_not_of(cs, pos, n)); });
        b.call("compare3_ptr_n", {0, -1, L(n)}, [=](Vals& o, auto v, auto) { o.sign(v.compare(0, NPOS, cs, n)); });
    }
    const std::vector<size_t> FC = few_counts(h.size());
    for (size_t pos1 : F) for (size_t n1 : FC) {
        b.call("compare3_cstr", {L(pos1), L(n1)}, [=](Vals& o, auto v, auto) { o.sign(v.compare(pos1, n1, cs)); });
        b.call("compare3_ptr_n", {L(pos1), L(n1)}, [=](Vals& o, auto v, auto) { o.sign(v.compare(pos1, n1, cs, sn)); });
    }
    for (size_t g : HUGE3) {
        b.call("find", {L(g)}, [=](Vals& o, auto v, auto x) { o.size_t_(v.find(x, g)); });
        b.call("rfind", {L(g)}, [=](Vals& o, auto v, auto x) { o.size_t_(v.rfind(x, g)); });
        b.call("find_first_of", {L(g)}, [=](Vals& o, auto v, auto x) { o.size_t_(v.find_first_of(x, g)); });
        b.call("find_last_of", {L(g)}, [=](Vals& o, auto v, auto x) { o.size_t_(v.find_last_of(x, g)); });
        b.call("find_first_not_of", {L(g)}, [=](Vals& o, auto v, auto x) { o.size_t_(v.find_first_not_of(x, g)); });
        b.call("find_last_not_of", {L(g)}, [=](Vals& o, auto v, auto x) { o.size_t_(v.find_last_not_of(x, g)); });
        b.call("compare3", {0, L(g)}, [=](Vals& o, auto v, auto x) { o.sign(v.compare(0, g, x)); });
    }
    b.finish();
}

// ---------------------------------------------------------------- block A: binary queries on ALIASING views
// hay = buf[o1, o1+l1), needle = buf[o2, o2+l2) inside one heap block: same start & different lengths, same end,
// overlapping, identical, adjacent, disjoint -- whatever the two ranges are. The const char* overloads get buf + o2
// (a C string running to the first NUL in the buffer or to the terminator behind it).
static void block_alias(const std::string& buf, size_t o1, size_t l1, size_t o2, size_t l2, bool verbose) {
    if (o1 + l1 > buf.size() || o2 + l2 > buf.size()) { printf("? bad alias range\n"); return; }
    std::string h = buf.substr(o1, l1), s = buf.substr(o2, l2);
    Block b('A', h, s, verbose, buf, o1, o2,
            std::to_string(o1) + "," + std::to_string(l1) + "," + std::to_string(o2) + "," + std::to_string(l2));
    const std::vector<size_t> P = positions(h.size());
    const std::vector<size_t> F = few_positions(h.size());
    const char* cs = b.alias_cs;
    b.call("compare", {}, [](Vals& o, auto v, auto x) { o.sign(v.compare(x)); });
    b.call("rel_sv", {}, [](Vals& o, auto v, auto x) {
        o.boolean(v == x); o.boolean(v != x); o.boolean(v < x); o.boolean(v > x); o.boolean(v <= x); o.boolean(v >= x); });
    b.call("rel_sv_cstr", {}, [=](Vals& o, auto v, auto) {
        o.boolean(v == cs); o.boolean(v != cs); o.boolean(v < cs); o.boolean(v > cs); o.boolean(v <= cs); o.boolean(v >= cs); });
    b.call("rel_cstr_sv", {}, [=](Vals& o, auto v, auto) {
        o.boolean(cs == v); o.boolean(cs != v); o.boolean(cs < v); o.boolean(cs > v); o.boolean(cs <= v); o.boolean(cs >= v); });
    b.call("compare_cstr", {}, [=](Vals& o, auto v, auto) { o.sign(v.compare(cs)); });
    b.call("starts_with", {}, [](Vals& o, auto v, auto x) { o.boolean(sw(v, x)); });
    b.call("ends_with", {}, [](Vals& o, auto v, auto x) { o.boolean(ew(v, x)); });
    for (size_t pos : P) {
        b.call("find", {L(pos)}, [=](Vals& o, auto v, auto x) { o.size_t_(v.find(x, pos)); });
        b.call("rfind", {L(pos)}, [=](Vals& o, auto v, auto x) { o.size_t_(v.rfind(x, pos)); });
        b.call("find_first_of", {L(pos)}, [=](Vals& o, auto v, auto x) { o.size_t_(v.find_first_of(x, pos)); });
        b.call("find_last_of", {L(pos)}, [=](Vals& o, auto v, auto x) { o.size_t_(v.find_last_of(x, pos)); });
        b.call("find_first_not_of", {L(pos)}, [=](Vals& o, auto v, auto x) { o.size_t_(v.find_first_not_of(x, pos)); });
        b.call("find_last_not_of", {L(pos)}, [=](Vals& o, auto v, auto x) { o.size_t_(v.find_last_not_of(x, pos)); });
    }
    for (size_t pos : F) {
        b.call("find_cstr", {L(pos)}, [=](Vals& o, auto v, auto) { o.size_t_(v.find(cs, pos)); });
        b.call("rfind_cstr", {L(pos)}, [=](Vals& o, auto v, auto) { o.size_t_(v.rfind(cs, pos)); });
    }
    for (size_t pos1 : F) for (size_t n1 : few_counts(h.size()))
        b.call("compare3", {L(pos1), L(n1)}, [=](Vals& o, auto v, auto x) { o.sign(v.compare(pos1, n1, x)); });
    static const size_t TWO_POS[2] = {0, 1}, TWO_N[2] = {1, NPOS};
    for (size_t pos1 : TWO_POS) for (size_t n1 : TWO_N) for (size_t pos2 : TWO_POS) for (size_t n2 : TWO_N)
        b.call("compare5", {L(pos1), L(n1), L(pos2), L(n2)},
               [=](Vals& o, auto v, auto x) { o.sign(v.compare(pos1, n1, x, pos2, n2)); });
    for (size_t g : HUGE3) {
        b.call("find", {L(g)}, [=](Vals& o, auto v, auto x) { o.size_t_(v.find(x, g)); });
        b.call("rfind", {L(g)}, [=](Vals& o, auto v, auto x) { o.size_t_(v.rfind(x, g)); });
    }
    b.finish();
}

// ---------------------------------------------------------------- block G: huge sizes
// Views of 2^31-1 .. 2^32+2^31 bytes over a read-only, never-populated zero mapping (MAP_NORESERVE): size differences
// and positions beyond 2^31 / 2^32 expose any narrowing of size_t to int / 32 bits. Only calls that touch a few bytes
// at the start or the end of the view are made (no scan over the view).
static const size_t G31 = 1ull << 31, G32 = 1ull << 32;
static const size_t HUGE_SIZES[7] = {G31 - 1, G31, G31 + 1, G32 - 1, G32, G32 + 1, G32 + G31};
static const char* huge_map() {
    static const char* m = [] {
        void* p = mmap(nullptr, G32 + G31 + 65536, PROT_READ, MAP_PRIVATE | MAP_ANONYMOUS | MAP_NORESERVE, -1, 0);
        return p == MAP_FAILED ? static_cast<const char*>(nullptr) : static_cast<const char*>(p);
    }();
    return m;
}
static void block_huge(size_t SZ, const std::string& s, bool verbose) {
    const char* map = huge_map();
    Block b('G', NONE, s, verbose);
    b.lh = std::to_string(SZ);
    if (!map) { printf("B G %s %s 0 0 0 0 | unavailable: mmap failed\n", b.lh.c_str(), b.ls.c_str()); return; }
    b.T = TV(map, SZ); b.S = SV(map, SZ);
    const char* cs = s.c_str(); const size_t sn = s.size();
    bool allzero = true, haszero = false;
    for (char c : s) { if (c) allzero = false; else haszero = true; }
    auto dims = [map](Vals& o, const auto& r) { o.size_t_(r.size()); o.push(static_cast<long>(r.data() - map)); };

    b.call("size", {}, [](Vals& o, auto v, auto) { o.size_t_(v.size()); o.size_t_(v.length()); o.boolean(v.empty()); });
    for (size_t pos : {SZ - 1, SZ, NPOS})
        b.call("at", {L(pos)}, [=](Vals& o, auto v, auto) { o.ch(v.at(pos)); });
    b.call("index", {L(SZ - 1)}, [=](Vals& o, auto v, auto) { o.ch(v[SZ - 1]); });
    b.call("front", {}, [](Vals& o, auto v, auto) { o.ch(v.front()); });
    b.call("back", {}, [](Vals& o, auto v, auto) { o.ch(v.back()); });

    b.call("compare", {}, [](Vals& o, auto v, auto x) { o.sign(v.compare(x)); });
    b.call("compare_rev", {}, [](Vals& o, auto v, auto x) { o.sign(x.compare(v)); });
    b.call("rel_sv", {}, [](Vals& o, auto v, auto x) {
        o.boolean(v == x); o.boolean(v != x); o.boolean(v < x); o.boolean(v > x); o.boolean(v <= x); o.boolean(v >= x); });
    b.call("rel_sv_rev", {}, [](Vals& o, auto v, auto x) {
        o.boolean(x == v); o.boolean(x != v); o.boolean(x < v); o.boolean(x > v); o.boolean(x <= v); o.boolean(x >= v); });
    b.call("compare_cstr", {}, [=](Vals& o, auto v, auto) { o.sign(v.compare(cs)); });
    b.call("starts_with", {}, [](Vals& o, auto v, auto x) { o.boolean(sw(v, x)); });
    b.call("ends_with", {}, [](Vals& o, auto v, auto x) { o.boolean(ew(v, x)); });
    b.call("starts_with_char", {0}, [](Vals& o, auto v, auto) { o.boolean(sw(v, '\0')); });
    b.call("ends_with_char", {0}, [](Vals& o, auto v, auto) { o.boolean(ew(v, '\0')); });
    b.call("ends_with_char", {'a'}, [](Vals& o, auto v, auto) { o.boolean(ew(v, 'a')); });

    for (size_t pos1 : {size_t(0), size_t(1), SZ - 2, SZ - 1, SZ, SZ + 1, NPOS})
        for (size_t n1 : {size_t(0), size_t(1), size_t(3), G31, G32 + 1, NPOS - 1, NPOS}) {
            if (pos1 > SZ && n1 != 0 && n1 != NPOS) continue;
            b.call("compare3", {L(pos1), L(n1)}, [=](Vals& o, auto v, auto x) { o.sign(v.compare(pos1, n1, x)); });
        }
    b.call("compare3_cstr", {0, -1}, [=](Vals& o, auto v, auto) { o.sign(v.compare(0, NPOS, cs)); });
    b.call("compare3_ptr_n", {L(SZ - 1), -1}, [=](Vals& o, auto v, auto) { o.sign(v.compare(SZ - 1, NPOS, cs, sn)); });
    for (size_t pos1 : {size_t(0), SZ - 1}) for (size_t n1 : {G31, NPOS}) for (size_t pos2 : {size_t(0), size_t(1)}) for (size_t n2 : {size_t(1), NPOS})
        b.call("compare5", {L(pos1), L(n1), L(pos2), L(n2)}, [=](Vals& o, auto v, auto x) { o.sign(v.compare(pos1, n1, x, pos2, n2)); });

    for (size_t pos : {size_t(0), size_t(1), SZ - 1, SZ, SZ + 1, NPOS})
        for (size_t n : {size_t(0), size_t(1), G31, G32, SZ - 1, SZ, SZ + 1, NPOS - 1, NPOS}) {
            if (pos > SZ && n != 0 && n != NPOS) continue;
            b.call("substr", {L(pos), L(n)}, [=](Vals& o, auto v, auto) { auto r = v.substr(pos, n); dims(o, r); });
        }
    for (size_t n : {size_t(0), size_t(1), G31 - 1, SZ - 1, SZ}) {
        b.call("remove_prefix", {L(n)}, [=](Vals& o, auto v, auto) { v.remove_prefix(n); dims(o, v); });
        b.call("remove_suffix", {L(n)}, [=](Vals& o, auto v, auto) { v.remove_suffix(n); dims(o, v); });
    }
    const size_t CP[6][2] = {{3, 0}, {NPOS, SZ - 2}, {1, SZ - 1}, {NPOS, SZ}, {1, SZ + 1}, {G31, SZ - 1}};   // (n, pos)
    for (auto& np : CP) {
        const size_t n = np[0], pos = np[1];
        b.call("copy", {L(n), L(pos)}, [=](Vals& o, auto v, auto) {
            char buf[8]; std::memset(buf, '.', sizeof buf);
            try { size_t r = v.copy(buf, n, pos); o.size_t_(r); } catch (const std::out_of_range&) { o.push(-2); }
            for (int i = 0; i < 4; ++i) o.ch(buf[i]);
        });
    }
    for (size_t pos : {SZ - 3, SZ - 1, SZ, SZ + 1, NPOS}) {
        b.call("find", {L(pos)}, [=](Vals& o, auto v, auto x) { o.size_t_(v.find(x, pos)); });
        b.call("find_first_of", {L(pos)}, [=](Vals& o, auto v, auto x) { o.size_t_(v.find_first_of(x, pos)); });
        b.call("find_first_not_of", {L(pos)}, [=](Vals& o, auto v, auto x) { o.size_t_(v.find_first_not_of(x, pos)); });
    }
    for (size_t pos : {NPOS, SZ - 1, SZ + 5}) {      // only the backward searches that stop at the end of the view
        if (allzero) b.call("rfind", {L(pos)}, [=](Vals& o, auto v, auto x) { o.size_t_(v.rfind(x, pos)); });
        if (haszero) b.call("find_last_of", {L(pos)}, [=](Vals& o, auto v, auto x) { o.size_t_(v.find_last_of(x, pos)); });
        if (!haszero) b.call("find_last_not_of", {L(pos)}, [=](Vals& o, auto v, auto x) { o.size_t_(v.find_last_not_of(x, pos)); });
    }
    // backward searches from a small pos: they look at the first bytes only, but the reverse-iterator arithmetic
    // (size_ - (pos + 1), size_ - 1 - distance) runs on offsets beyond 2^31 / 2^32
    for (size_t pos : {size_t(0), size_t(2)}) {
        b.call("rfind", {L(pos)}, [=](Vals& o, auto v, auto x) { o.size_t_(v.rfind(x, pos)); });
        b.call("find_last_of", {L(pos)}, [=](Vals& o, auto v, auto x) { o.size_t_(v.find_last_of(x, pos)); });
        b.call("find_last_not_of", {L(pos)}, [=](Vals& o, auto v, auto x) { o.size_t_(v.find_last_not_of(x, pos)); });
    }
    b.finish();
}

// ---------------------------------------------------------------- block C: five-argument compare
static void block_cmp5(const std::string& h, const std::string& s, bool verbose) {
    Block b('C', h, s, verbose);
    const std::vector<size_t> P = positions(h.size()), Q = positions(s.size());
    const std::vector<size_t> N1 = counts(h.size()), N2 = counts(s.size());
    for (size_t pos1 : P) for (size_t n1 : N1) for (size_t pos2 : Q) for (size_t n2 : N2) {
        if (pos1 > h.size() && n1 != 0 && n1 != NPOS) continue;   // throwing calls: keep two counts per position
        if (pos2 > s.size() && n2 != 0 && n2 != NPOS) continue;
        b.call("compare5", {L(pos1), L(n1), L(pos2), L(n2)},
               [=](Vals& o, auto v, auto x) { o.sign(v.compare(pos1, n1, x, pos2, n2)); });
    }
    b.finish();
}

// ---------------------------------------------------------------- enumeration
static std::vector<std::string> all_strings(const std::string& alpha, size_t maxlen) {
    std::vector<std::string> out;
    std::vector<std::string> level{std::string()};
    out.push_back(std::string());
    for (size_t len = 1; len <= maxlen; ++len) {
        std::vector<std::string> next;
        for (const std::string& p : level) for (char c : alpha) next.push_back(p + c);
        out.insert(out.end(), next.begin(), next.end());
        level.swap(next);
    }
    return out;
}

int main(int argc, char** argv) {
    if (argc < 2) { fprintf(stderr, "usage: %s casefile\n", argv[0]); return 2; }
    std::set_terminate(on_terminate);
    __sanitizer_set_death_callback(on_sanitizer_death);
    std::signal(SIGABRT, on_abort);
    FILE* f = fopen(argv[1], "r");
    if (!f) { perror("casefile"); return 2; }
    char line[4096];
    while (fgets(line, sizeof line, f)) {
        char kind[32], a[1024], b[1024]; unsigned long m1 = 0, m2 = 0, m3 = 0, m4 = 0, part = 0, parts = 1;
        int k = sscanf(line, "%31s %1023s %1023s", kind, a, b);
        if (k < 1 || kind[0] == '#') continue;
        std::string kd = kind; bool verbose = false;
        if (kd[0] == 'v') { verbose = true; kd = kd.substr(1); }
        // "~" = default-constructed view (data() == nullptr), "-" = empty view with a valid pointer
        if (kd == "hay" && k >= 2) block_hay(unhex(a), verbose, std::strcmp(a, "~") == 0);
        else if (kd == "pair" && k >= 3) block_pair(unhex(a), unhex(b), verbose, std::strcmp(a, "~") == 0, std::strcmp(b, "~") == 0);
        else if (kd == "huge" && k >= 2) {
            unsigned long long only = 0;
            sscanf(line, "%*s %*s %llu", &only);
            for (size_t SZ : HUGE_SIZES) if (!only || only == SZ) block_huge(SZ, unhex(a), verbose);
        }
        else if (kd == "mid" && sscanf(line, "%*s %1023s %lu %lu", a, &m1, &m2) == 3) block_mid(unhex(a), m1, m2, verbose);
        else if (kd == "alias" && sscanf(line, "%*s %1023s %lu %lu %lu %lu", a, &m1, &m2, &m3, &m4) == 5)
            block_alias(unhex(a), m1, m2, m3, m4, verbose);
        else if (kd == "aenum" && sscanf(line, "%*s %1023s %lu %lu %lu %lu", a, &m1, &m2, &part, &parts) == 5 && parts > 0) {
            // all buffers over the alphabet with m1 <= |buf| <= m2 (those with index = part mod parts):
            // every sub-range: M; every ordered pair of sub-ranges: A
            std::string alpha = unhex(a);
            std::vector<std::string> bufs = all_strings(alpha, m2);
            for (size_t bi = 0; bi < bufs.size(); ++bi) {
                const std::string& buf = bufs[bi];
                if (buf.size() < m1 || bi % parts != part) continue;
                const size_t n = buf.size();
                for (size_t o1 = 0; o1 <= n; ++o1) for (size_t l1 = 0; o1 + l1 <= n; ++l1) {
                    block_mid(buf, o1, l1, false);
                    for (size_t o2 = 0; o2 <= n; ++o2) for (size_t l2 = 0; o2 + l2 <= n; ++l2)
                        block_alias(buf, o1, l1, o2, l2, false);
                }
            }
        }
        else if (kd == "cmp5" && k >= 3) block_cmp5(unhex(a), unhex(b), verbose);
        else if (kd == "enum" && sscanf(line, "%*s %1023s %lu %lu %lu %lu %lu %lu", a, &m1, &m2, &m3, &m4, &part, &parts) == 7 && parts > 0) {
            std::string alpha = unhex(a);
            std::vector<std::string> hs = all_strings(alpha, m1), ss = all_strings(alpha, m2);
            for (size_t hi = 0; hi < hs.size(); ++hi) {
                if (hi % parts != part) continue;      // this process handles haystacks number part, part+parts, ...
                const std::string& h = hs[hi];
                block_hay(h, false);
                for (const std::string& s : ss) {
                    block_pair(h, s, false);
                    if (h.size() <= m3 && s.size() <= m4) block_cmp5(h, s, false);
                }
            }
        } else { printf("? %s", line); }
    }
    fclose(f);
    return 0;
}
