// C04 harness: runs tlx parallel string sample sort on generated inputs, (a) under the deterministic scheduler
// shim (compile with -include harness/sched/verif_sched.hpp -DUSE_SHIM) for many schedules / worker counts and tiny
// thresholds, or (b) free-running with real threads.  Checks the result (sorted, permutation of the original
// string objects, exact LCPs) and prints the protocol trace of the PS5 sort steps (hook events, -DTLX_VERIF).
//
// case file line:  <id> <params:T|U|D> <workers> <lcp:0|1> <set:c|s> <nsched> <seed> <hex,hex,...>
//   params T = tiny (smallsort_threshold 16, TreeBits 2, inssort 4), U = tiny unroll-interleave variant
//   (smallsort 32, TreeBits 3), E = tiny with SSClassifyEqualUnroll (smallsort 32, TreeBits 3), V = small (smallsort 64, TreeBits 3, inssort 8), D = default.   set c = unsigned char**, s = std::string*
// output per run:  R <id> <sched#> <OK|FAIL what> PT <protocol events>
#include <algorithm>
#include <cstdint>
#include <cstdio>
#include <cstdlib>
#include <cstring>
#include <fstream>
#include <iostream>
#include <map>
#include <mutex>
#include <sstream>
#include <string>
#include <vector>

#include <tlx/sort/strings/parallel_sample_sort.hpp>
#include <tlx/sort/strings_parallel.hpp>

namespace ssd = tlx::sort_strings_detail;

// ------------------------------------------------------------------ protocol event recorder
static ::std::mutex g_evmutex;
static std::map<const void*, int> g_ids;
static int g_next_id = 0;
static std::string g_ptrace;
static long g_nevents = 0;

static int this_tid() {
#ifdef USE_SHIM
    return verif::Sched::get().self();
#else
    static std::map<std::thread::id, int> m;
    auto id = std::this_thread::get_id();
    auto it = m.find(id);
    if (it == m.end()) it = m.emplace(id, static_cast<int>(m.size())).first;
    return it->second;
#endif
}

namespace tlx {
void verif_event(const char* kind, const void* step, const void* arg) {
    ::std::lock_guard< ::std::mutex> lk(g_evmutex);
    ++g_nevents;
    int id;
    if (!strcmp(kind, "create")) { id = g_next_id++; g_ids[step] = id; }
    else { auto it = g_ids.find(step); id = it == g_ids.end() ? -1 : it->second; }
    g_ptrace += std::to_string(this_tid()); g_ptrace += ':'; g_ptrace += kind; g_ptrace += ':'; g_ptrace += std::to_string(id);
    if (!strcmp(kind, "create") || !strcmp(kind, "notify")) {
        int pid = -1;
        if (arg) { auto it = g_ids.find(arg); pid = it == g_ids.end() ? -2 : it->second; }
        g_ptrace += ':'; g_ptrace += std::to_string(pid);
    }
    if (!strcmp(kind, "delete")) g_ids.erase(step);
    g_ptrace += ' ';
}
} // namespace tlx

// ------------------------------------------------------------------ parameter sets
class ParamsTiny : public ssd::PS5ParametersDefault {
public:
    static const unsigned TreeBits = 2;
    using Classify = ssd::SSClassifyTreeCalcUnrollInterleave<key_type, TreeBits>;
    static const size_t smallsort_threshold = 16;
    static const size_t inssort_threshold = 4;
};
class ParamsTinyU : public ssd::PS5ParametersDefault {
public:
    static const unsigned TreeBits = 3;
    using Classify = ssd::SSClassifyTreeUnrollInterleave<key_type, TreeBits>;
    static const size_t smallsort_threshold = 32;
    static const size_t inssort_threshold = 8;
    static const bool enable_work_sharing = false;
};

// the third classifier of sample_sort_tools.hpp (equality test inside the tree descent)
class ParamsTinyE : public ssd::PS5ParametersDefault {
public:
    static const unsigned TreeBits = 3;
    using Classify = ssd::SSClassifyEqualUnroll<key_type, TreeBits>;
    static const size_t smallsort_threshold = 32;
    static const size_t inssort_threshold = 8;
};

// the boolean switches of PS5ParametersDefault, each flipped once over the tiny thresholds
class ParamsNoSeqSS : public ParamsTiny { public: static const bool enable_sequential_sample_sort = false; };   // M
class ParamsNoMkqs : public ParamsTiny { public: static const bool enable_sequential_mkqs = false; };           // S
class ParamsNoPar : public ParamsTiny { public: static const bool enable_parallel_sample_sort = false; };       // P
class ParamsRest : public ParamsTiny { public: static const bool enable_rest_size = true; };                    // R
class ParamsNoShare : public ParamsTiny { public: static const bool enable_work_sharing = false; };             // W
// a narrower key type
class ParamsKey32 : public ssd::PS5ParametersDefault {                                                          // K
public:
    typedef std::uint32_t key_type;
    static const unsigned TreeBits = 2;
    using Classify = ssd::SSClassifyTreeCalcUnrollInterleave<key_type, TreeBits>;
    static const size_t smallsort_threshold = 16;
    static const size_t inssort_threshold = 4;
};

class ParamsSmall : public ssd::PS5ParametersDefault {
public:
    static const unsigned TreeBits = 3;
    using Classify = ssd::SSClassifyTreeCalcUnrollInterleave<key_type, TreeBits>;
    static const size_t smallsort_threshold = 64;
    static const size_t inssort_threshold = 8;
};

static size_t lcp_of(const unsigned char* a, const unsigned char* b) {
    size_t i = 0; while (a[i] && a[i] == b[i]) ++i; return i;
}

template <typename P>
static void sort_c(unsigned char** s, size_t n, std::uint32_t* lcp) {
    if (lcp) ssd::parallel_sample_sort_params<P>(ssd::StringLcpPtr<ssd::UCharStringSet, std::uint32_t>(ssd::UCharStringSet(s, s + n), lcp), 0, 0);
    else ssd::parallel_sample_sort_params<P>(ssd::StringPtr<ssd::UCharStringSet>(ssd::UCharStringSet(s, s + n)), 0, 0);
}
template <typename P>
static void sort_s(std::string* s, size_t n, std::uint32_t* lcp) {
    if (lcp) ssd::parallel_sample_sort_params<P>(ssd::StringLcpPtr<ssd::StdStringSet, std::uint32_t>(ssd::StdStringSet(s, s + n), lcp), 0, 0);
    else ssd::parallel_sample_sort_params<P>(ssd::StringPtr<ssd::StdStringSet>(ssd::StdStringSet(s, s + n)), 0, 0);
}

static std::string unhex(const std::string& h) {
    std::string o; for (size_t i = 0; i + 1 < h.size(); i += 2) o.push_back(static_cast<char>(strtol(h.substr(i, 2).c_str(), nullptr, 16))); return o;
}

int main(int argc, char** argv) {
    if (argc < 2) return 2;
    std::ifstream f(argv[1]); std::string line;
    while (std::getline(f, line)) {
        std::istringstream in(line);
        std::string id, params, set, hex; int workers, lcpflag; long nsched; unsigned long long seed;
        if (!(in >> id >> params >> workers >> lcpflag >> set >> nsched >> seed)) continue;
        in >> hex;
        std::vector<std::string> strs;
        { size_t p = 0; if (hex != "-") while (p <= hex.size()) { size_t q = hex.find(',', p); if (q == std::string::npos) q = hex.size(); strs.push_back(unhex(hex.substr(p, q - p))); p = q + 1; } }
        size_t n = strs.size();
        for (long r = 0; r < nsched; ++r) {
            // fresh copies
            std::vector<std::vector<unsigned char>> bufs(n);
            std::vector<unsigned char*> ptrs(n);
            std::vector<std::string> sstr(strs);
            for (size_t i = 0; i < n; ++i) { bufs[i].assign(strs[i].begin(), strs[i].end()); bufs[i].push_back(0); ptrs[i] = bufs[i].data(); }
            std::vector<unsigned char*> orig(ptrs);
            std::vector<std::uint32_t> lcp(n + 1, 0xDEADBEEF);
            g_ptrace.clear(); g_ids.clear(); g_next_id = 0;
#ifdef USE_SHIM
            verif::Sched::hw_concurrency() = static_cast<unsigned>(workers);
            verif::Sched::get().begin(seed + static_cast<unsigned long long>(r), static_cast<int>(r & 1), true, 4000000);
#endif
            std::uint32_t* lp = lcpflag ? lcp.data() : nullptr;
            if (set == "c") {
                if (params == "T") sort_c<ParamsTiny>(ptrs.data(), n, lp);
                else if (params == "U") sort_c<ParamsTinyU>(ptrs.data(), n, lp);
                else if (params == "V") sort_c<ParamsSmall>(ptrs.data(), n, lp);
                else if (params == "E") sort_c<ParamsTinyE>(ptrs.data(), n, lp);
                else if (params == "M") sort_c<ParamsNoSeqSS>(ptrs.data(), n, lp);
                else if (params == "S") sort_c<ParamsNoMkqs>(ptrs.data(), n, lp);
                else if (params == "P") sort_c<ParamsNoPar>(ptrs.data(), n, lp);
                else if (params == "R") sort_c<ParamsRest>(ptrs.data(), n, lp);
                else if (params == "W") sort_c<ParamsNoShare>(ptrs.data(), n, lp);
                else if (params == "K") sort_c<ParamsKey32>(ptrs.data(), n, lp);
                else sort_c<ssd::PS5ParametersDefault>(ptrs.data(), n, lp);
            } else {
                if (params == "T") sort_s<ParamsTiny>(sstr.data(), n, lp);
                else if (params == "U") sort_s<ParamsTinyU>(sstr.data(), n, lp);
                else if (params == "V") sort_s<ParamsSmall>(sstr.data(), n, lp);
                else if (params == "E") sort_s<ParamsTinyE>(sstr.data(), n, lp);
                else if (params == "M") sort_s<ParamsNoSeqSS>(sstr.data(), n, lp);
                else if (params == "S") sort_s<ParamsNoMkqs>(sstr.data(), n, lp);
                else if (params == "P") sort_s<ParamsNoPar>(sstr.data(), n, lp);
                else if (params == "R") sort_s<ParamsRest>(sstr.data(), n, lp);
                else if (params == "W") sort_s<ParamsNoShare>(sstr.data(), n, lp);
                else if (params == "K") sort_s<ParamsKey32>(sstr.data(), n, lp);
                else sort_s<ssd::PS5ParametersDefault>(sstr.data(), n, lp);
            }
#ifdef USE_SHIM
            std::string sched = verif::Sched::get().choices();
            verif::Sched::get().end();
#endif
            // ---- result check
            std::string verdict = "OK";
            std::vector<const unsigned char*> out(n);
            if (set == "c") { for (size_t i = 0; i < n; ++i) out[i] = ptrs[i]; }
            else { for (size_t i = 0; i < n; ++i) out[i] = reinterpret_cast<const unsigned char*>(sstr[i].c_str()); }
            for (size_t i = 1; i < n && verdict == "OK"; ++i)
                if (strcmp(reinterpret_cast<const char*>(out[i - 1]), reinterpret_cast<const char*>(out[i])) > 0) {
                    // strcmp compares as unsigned char: ok
                    verdict = "FAIL not-sorted@" + std::to_string(i);
                }
            if (verdict == "OK") {
                if (set == "c") {
                    std::vector<unsigned char*> a(orig), b(ptrs); std::sort(a.begin(), a.end()); std::sort(b.begin(), b.end());
                    if (a != b) verdict = "FAIL not-a-permutation-of-the-string-objects";
                } else {
                    std::vector<std::string> a(strs), b(sstr); std::sort(a.begin(), a.end()); std::sort(b.begin(), b.end());
                    if (a != b) verdict = "FAIL not-a-permutation";
                }
            }
            if (verdict == "OK" && lcpflag)
                for (size_t i = 1; i < n; ++i)
                    if (lcp[i] != lcp_of(out[i - 1], out[i])) { verdict = "FAIL lcp@" + std::to_string(i) + "=" + std::to_string(lcp[i]) + " expected " + std::to_string(lcp_of(out[i - 1], out[i])); break; }
            if (!g_ids.empty() && verdict == "OK") verdict = "FAIL steps-not-deleted=" + std::to_string(g_ids.size());
            printf("R %s %ld %s PT %s\n", id.c_str(), r, verdict.c_str(), g_ptrace.c_str());
        }
    }
    printf("DONE events=%ld\n", g_nevents);
    return 0;
}
