// C04 thread-pool mini scenarios under the deterministic scheduler shim: the parallel string sort terminates only if
// tlx::ThreadPool never loses a wake-up (loop_until_empty() returning is what ends the sort).  The PS5 runs exercise the
// pool with a large job graph; this harness aims many schedules at the smallest scenarios, where the window between a
// waiter's predicate check and its wait is hit often.  (The pool's own property is C10; thread_pool.* is anchored by both.)
//
// usage: pool_mini <first seed> <count>      compiled with -include harness/sched/verif_sched.hpp
// output: "P <seed> <scenario> OK" per run; a deadlock prints the shim's DEADLOCK block and exits with status 3.
#include <atomic>
#include <cstdio>
#include <cstdlib>
#include <tlx/thread_pool.hpp>

static int g_done;
int main(int argc, char** argv) {
    unsigned long long first = argc > 1 ? strtoull(argv[1], nullptr, 10) : 1; long count = argc > 2 ? atol(argv[2]) : 100;
    for (long r = 0; r < count; ++r) {
        unsigned long long seed = first + static_cast<unsigned long long>(r);
        int scenario = static_cast<int>(seed % 4);
        int workers = 1 + static_cast<int>((seed / 4) % 3);
        printf("S %llu scenario=%d workers=%d\n", seed, scenario, workers); fflush(stdout);
        verif::Sched::get().begin(seed, static_cast<int>(seed & 1), (seed % 5) == 0, 400000);
        {
            tlx::ThreadPool pool(static_cast<size_t>(workers));
            int njobs = 1 + scenario;                       // 1..4 jobs
            g_done = 0;
            for (int j = 0; j < njobs; ++j) {
                if (scenario == 3 && j == 0) pool.enqueue([&pool]() { pool.enqueue([]() {}); });   // a job that enqueues a job
                else pool.enqueue([]() {});
            }
            pool.loop_until_empty();
            if (scenario == 2) { pool.enqueue([]() {}); pool.loop_until_empty(); }                  // reuse after the first wait
        }
        verif::Sched::get().end();
        printf("P %llu %d OK\n", seed, scenario);
    }
    return 0;
}
