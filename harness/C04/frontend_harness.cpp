// C04 front-end harness: calls every public overload of tlx::sort_strings_parallel / sort_strings_parallel_lcp
// (tlx/sort/strings_parallel.hpp: {unsigned char**, char**, const unsigned char**, const char**, the four vector
// forms, std::string*, std::vector<std::string>} x {plain, lcp}) with real threads and the default parameters, and
// checks the property on the result: non-decreasing unsigned-byte order, a permutation of the original string
// OBJECTS (pointers for the C-string forms, contents for std::string), exact LCP array (lcp[0] is left alone).
//
// case file line: <id> <overload 0..9> <lcp 0|1> <memory> <hex,hex,...|->
// output per case: F <id> <OK|FAIL what>
#include <algorithm>
#include <cstdint>
#include <cstdio>
#include <cstdlib>
#include <cstring>
#include <fstream>
#include <iostream>
#include <sstream>
#include <string>
#include <vector>

#include <tlx/sort/strings_parallel.hpp>

#ifdef TLX_VERIF
namespace tlx { void verif_event(const char*, const void*, const void*) {} }   // protocol hooks are not recorded here
#endif

static size_t lcp_of(const unsigned char* a, const unsigned char* b) {
    size_t i = 0; while (a[i] && a[i] == b[i]) ++i; return i;
}
static std::string unhex(const std::string& h) {
    std::string o; for (size_t i = 0; i + 1 < h.size(); i += 2) o.push_back(static_cast<char>(strtol(h.substr(i, 2).c_str(), nullptr, 16))); return o;
}

static const std::uint32_t CANARY = 0xDEADBEEF;

int main(int argc, char** argv) {
    if (argc < 2) return 2;
    std::ifstream f(argv[1]); std::string line; long ncalls = 0;
    while (std::getline(f, line)) {
        std::istringstream in(line);
        std::string id, hex; int ov, lcpflag; size_t memory;
        if (!(in >> id >> ov >> lcpflag >> memory)) continue;
        in >> hex;   // absent = one empty string; "-" = no string at all
        std::vector<std::string> strs;
        { size_t p = 0; if (hex != "-") while (p <= hex.size()) { size_t q = hex.find(',', p); if (q == std::string::npos) q = hex.size(); strs.push_back(unhex(hex.substr(p, q - p))); p = q + 1; } }
        size_t n = strs.size();
        // exactly sized heap blocks per string: an over-read behind the NUL is an ASan error
        std::vector<unsigned char*> blocks(n);
        for (size_t i = 0; i < n; ++i) { blocks[i] = new unsigned char[strs[i].size() + 1]; memcpy(blocks[i], strs[i].c_str(), strs[i].size() + 1); }
        std::vector<unsigned char*> ptrs(blocks);
        std::vector<std::string> sstr(strs);
        // lcp array with a canary in front and behind
        std::vector<std::uint32_t> lcpbuf(n + 2, CANARY);
        std::uint32_t* lcp = lcpbuf.data() + 1;
        bool with_mem = (memory != 0);
        ++ncalls;
        switch (ov * 2 + lcpflag) {
        case 0: with_mem ? tlx::sort_strings_parallel(ptrs.data(), n, memory) : tlx::sort_strings_parallel(ptrs.data(), n); break;
        case 1: with_mem ? tlx::sort_strings_parallel_lcp(ptrs.data(), n, lcp, memory) : tlx::sort_strings_parallel_lcp(ptrs.data(), n, lcp); break;
        case 2: { char** p = reinterpret_cast<char**>(ptrs.data()); with_mem ? tlx::sort_strings_parallel(p, n, memory) : tlx::sort_strings_parallel(p, n); break; }
        case 3: { char** p = reinterpret_cast<char**>(ptrs.data()); with_mem ? tlx::sort_strings_parallel_lcp(p, n, lcp, memory) : tlx::sort_strings_parallel_lcp(p, n, lcp); break; }
        case 4: { const unsigned char** p = const_cast<const unsigned char**>(ptrs.data()); with_mem ? tlx::sort_strings_parallel(p, n, memory) : tlx::sort_strings_parallel(p, n); break; }
        case 5: { const unsigned char** p = const_cast<const unsigned char**>(ptrs.data()); with_mem ? tlx::sort_strings_parallel_lcp(p, n, lcp, memory) : tlx::sort_strings_parallel_lcp(p, n, lcp); break; }
        case 6: { const char** p = const_cast<const char**>(reinterpret_cast<char**>(ptrs.data())); with_mem ? tlx::sort_strings_parallel(p, n, memory) : tlx::sort_strings_parallel(p, n); break; }
        case 7: { const char** p = const_cast<const char**>(reinterpret_cast<char**>(ptrs.data())); with_mem ? tlx::sort_strings_parallel_lcp(p, n, lcp, memory) : tlx::sort_strings_parallel_lcp(p, n, lcp); break; }
        case 8: case 9: { std::vector<char*> v(n); for (size_t i = 0; i < n; ++i) v[i] = reinterpret_cast<char*>(ptrs[i]);
                  if (lcpflag) { with_mem ? tlx::sort_strings_parallel_lcp(v, lcp, memory) : tlx::sort_strings_parallel_lcp(v, lcp); }
                  else { with_mem ? tlx::sort_strings_parallel(v, memory) : tlx::sort_strings_parallel(v); }
                  for (size_t i = 0; i < n; ++i) ptrs[i] = reinterpret_cast<unsigned char*>(v[i]); break; }
        case 10: case 11: { std::vector<unsigned char*> v(ptrs);
                  if (lcpflag) { with_mem ? tlx::sort_strings_parallel_lcp(v, lcp, memory) : tlx::sort_strings_parallel_lcp(v, lcp); }
                  else { with_mem ? tlx::sort_strings_parallel(v, memory) : tlx::sort_strings_parallel(v); }
                  ptrs = v; break; }
        case 12: case 13: { std::vector<const char*> v(n); for (size_t i = 0; i < n; ++i) v[i] = reinterpret_cast<const char*>(ptrs[i]);
                  if (lcpflag) { with_mem ? tlx::sort_strings_parallel_lcp(v, lcp, memory) : tlx::sort_strings_parallel_lcp(v, lcp); }
                  else { with_mem ? tlx::sort_strings_parallel(v, memory) : tlx::sort_strings_parallel(v); }
                  for (size_t i = 0; i < n; ++i) ptrs[i] = reinterpret_cast<unsigned char*>(const_cast<char*>(v[i])); break; }
        case 14: case 15: { std::vector<const unsigned char*> v(n); for (size_t i = 0; i < n; ++i) v[i] = ptrs[i];
                  if (lcpflag) { with_mem ? tlx::sort_strings_parallel_lcp(v, lcp, memory) : tlx::sort_strings_parallel_lcp(v, lcp); }
                  else { with_mem ? tlx::sort_strings_parallel(v, memory) : tlx::sort_strings_parallel(v); }
                  for (size_t i = 0; i < n; ++i) ptrs[i] = const_cast<unsigned char*>(v[i]); break; }
        case 16: with_mem ? tlx::sort_strings_parallel(sstr.data(), n, memory) : tlx::sort_strings_parallel(sstr.data(), n); break;
        case 17: with_mem ? tlx::sort_strings_parallel_lcp(sstr.data(), n, lcp, memory) : tlx::sort_strings_parallel_lcp(sstr.data(), n, lcp); break;
        case 18: with_mem ? tlx::sort_strings_parallel(sstr, memory) : tlx::sort_strings_parallel(sstr); break;
        case 19: with_mem ? tlx::sort_strings_parallel_lcp(sstr, lcp, memory) : tlx::sort_strings_parallel_lcp(sstr, lcp); break;
        default: printf("F %s FAIL unknown-overload\n", id.c_str()); continue;
        }
        bool is_std = ov >= 8;
        std::string verdict = "OK";
        std::vector<const unsigned char*> out(n);
        for (size_t i = 0; i < n; ++i) out[i] = is_std ? reinterpret_cast<const unsigned char*>(sstr[i].c_str()) : ptrs[i];
        for (size_t i = 1; i < n && verdict == "OK"; ++i)
            if (strcmp(reinterpret_cast<const char*>(out[i - 1]), reinterpret_cast<const char*>(out[i])) > 0) verdict = "FAIL not-sorted@" + std::to_string(i);
        if (verdict == "OK") {
            if (!is_std) { std::vector<unsigned char*> a(blocks), b(ptrs); std::sort(a.begin(), a.end()); std::sort(b.begin(), b.end()); if (a != b) verdict = "FAIL not-a-permutation-of-the-string-objects"; }
            else { std::vector<std::string> a(strs), b(sstr); std::sort(a.begin(), a.end()); std::sort(b.begin(), b.end()); if (a != b) verdict = "FAIL not-a-permutation"; }
        }
        if (verdict == "OK" && !is_std)   // the strings themselves must not be modified
            for (size_t k = 0; k < n; ++k) if (memcmp(blocks[k], strs[k].c_str(), strs[k].size() + 1) != 0) { verdict = "FAIL string-bytes-modified"; break; }
        if (verdict == "OK" && lcpflag)
            for (size_t i = 1; i < n; ++i)
                if (lcp[i] != lcp_of(out[i - 1], out[i])) { verdict = "FAIL lcp@" + std::to_string(i) + "=" + std::to_string(lcp[i]) + " expected " + std::to_string(lcp_of(out[i - 1], out[i])); break; }
        if (verdict == "OK" && (lcpbuf[0] != CANARY || lcpbuf[n + 1] != CANARY)) verdict = "FAIL lcp-array-written-out-of-range";
        if (verdict == "OK" && !lcpflag) for (size_t i = 0; i < n; ++i) if (lcp[i] != CANARY) { verdict = "FAIL lcp-array-written-without-lcp-request"; break; }
        printf("F %s %s\n", id.c_str(), verdict.c_str());
        for (auto* b : blocks) delete[] b;
    }
    printf("DONE calls=%ld\n", ncalls);
    return 0;
}
