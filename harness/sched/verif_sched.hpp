// Deterministic scheduler shim (DESIGN.md section 4.1).
//
// Force-include this header (-include harness/sched/verif_sched.hpp) BEFORE any tlx header: inside
// `namespace tlx` the names std::mutex, std::condition_variable, std::thread, std::atomic<T>,
// std::this_thread::yield, std::atomic_thread_fence then resolve to the shim (namespace tlx::std below), with
// no change to the tlx sources.  Threads are real OS threads serialised by a baton: every shim operation
// announces itself as the thread's pending operation, the scheduler picks one thread whose pending operation is
// enabled (PRNG stream / recorded replay), that thread performs the operation and runs until its next shim call.
// Every operation is logged as one event token; "no thread enabled while some are unfinished" is a deadlock.
#ifndef VERIF_SCHED_HPP
#define VERIF_SCHED_HPP

#include <atomic>
#include <condition_variable>
#include <cstdint>
#include <cstdio>
#include <cstdlib>
#include <functional>
#include <map>
#include <memory>
#include <mutex>
#include <string>
#include <thread>
#include <type_traits>
#include <utility>
#include <vector>
#include <unistd.h>

namespace verif {

class mutex;
class condition_variable;

enum OpKind { OP_ANY, OP_LOCK, OP_WAITEND, OP_JOIN, OP_START };

struct LThread {
    int id = 0;
    ::std::condition_variable cv;   // real one: "it is my turn"
    bool finished = false;
    OpKind kind = OP_START;
    const void* obj = nullptr;      // mutex for OP_LOCK / OP_WAITEND
    int join_target = -1;
    bool notified = false;          // for OP_WAITEND
    ::std::thread real;
};

class Sched {
public:
    static Sched& get() { static Sched s; return s; }

    // ---- run control -------------------------------------------------------------------------------
    // strategy: 0 = uniform random among enabled, 1 = sticky (keep running the current thread with prob 3/4)
    void begin(uint64_t seed, int strategy, bool spurious, long max_steps = 200000) {
        ::std::unique_lock< ::std::mutex> lk(big_);
        threads_.clear(); objids_.clear(); objcls_.clear(); owners_.clear(); waitsets_.clear(); log_.clear(); choices_.clear();
        seed_ = seed; rng_ = seed * 0x9E3779B97F4A7C15ull + 12345; strategy_ = strategy; spurious_ = spurious;
        steps_ = 0; max_steps_ = max_steps; replay_.clear(); replay_pos_ = 0; active_ = true; deadlock_ = false;
        threads_.emplace_back(new LThread()); threads_[0]->id = 0; threads_[0]->kind = OP_ANY;
        current_ = 0; tl_id() = 0;
    }
    void set_replay(const ::std::vector<int>& r) { replay_ = r; replay_pos_ = 0; }
    // returns the event log; all logical threads other than main must have been joined
    ::std::string end() {
        ::std::unique_lock< ::std::mutex> lk(big_);
        active_ = false;
        for (auto& t : threads_) if (t->real.joinable()) { lk.unlock(); t->real.join(); lk.lock(); }
        return log_;
    }
    const ::std::string& log() const { return log_; }
    ::std::string choices() const {
        ::std::string s; for (int c : choices_) { s += ::std::to_string(c); s += ','; } return s;
    }
    bool active() const { return active_; }
    int self() { return tl_id(); }
    int nthreads() { return static_cast<int>(threads_.size()); }
    static unsigned& hw_concurrency() { static unsigned n = 2; return n; }
    // called (with the trace already printed) when no thread is enabled; may print component state
    // ("QUIESCENT ...") so that the caller can tell a legitimate rest state from a lost wake-up. The process
    // then exits with status 3 (use one child process per scenario if runs must continue afterwards).
    ::std::function<void()> on_deadlock;

    // ---- the scheduling point ----------------------------------------------------------------------
    // Announce the pending operation of the calling thread and block until the scheduler picks it.
    void point(OpKind kind, const void* obj = nullptr, int join_target = -1) {
        if (!active_) return;
        ::std::unique_lock< ::std::mutex> lk(big_);
        LThread& me = *threads_[tl_id()];
        me.kind = kind; me.obj = obj; me.join_target = join_target;
        int nxt = pick();
        if (nxt < 0) deadlock("no thread enabled");
        current_ = nxt;
        if (nxt != me.id) {
            threads_[nxt]->cv.notify_one();
            me.cv.wait(lk, [&] { return current_ == me.id; });
        }
        me.kind = OP_ANY;
    }

    void emit(const char* what) {
        log_ += ::std::to_string(tl_id()); log_ += ':'; log_ += what; log_ += ' ';
    }
    void emit(const ::std::string& what) { emit(what.c_str()); }
    // user-level observable
    void user(const char* tag, long long a = 0, long long b = 0) {
        if (!active_) return;
        point(OP_ANY);
        emit(::std::string("US:") + tag + ":" + ::std::to_string(a) + ":" + ::std::to_string(b));
    }
    // user-level observable without a scheduling point (atomic with the preceding operation)
    void note(const char* tag, long long a = 0, long long b = 0) {
        if (!active_) return;
        emit(::std::string("US:") + tag + ":" + ::std::to_string(a) + ":" + ::std::to_string(b));
    }

    int objid(const void* p, char cls) {
        auto it = objids_.find(p);
        if (it != objids_.end()) return it->second;
        int n = 0; for (auto& kv : objids_) if (objcls_[kv.first] == cls) ++n;
        objids_[p] = n; objcls_[p] = cls; return n;
    }
    void forget(const void* p) { objids_.erase(p); objcls_.erase(p); }

    // ---- threads -------------------------------------------------------------------------------------
    int spawn(::std::function<void()> body) {
        point(OP_ANY);
        ::std::unique_lock< ::std::mutex> lk(big_);
        int id = static_cast<int>(threads_.size());
        threads_.emplace_back(new LThread());
        LThread* t = threads_.back().get();
        t->id = id; t->kind = OP_START;
        emit(("SP:" + ::std::to_string(id)).c_str());
        t->real = ::std::thread([this, t, body]() {
            tl_id() = t->id;
            {
                ::std::unique_lock< ::std::mutex> lk2(big_);
                t->cv.wait(lk2, [&] { return current_ == t->id; });
                t->kind = OP_ANY;
            }
            body();
            finish();
        });
        return id;
    }
    void join(int id) {
        point(OP_JOIN, nullptr, id);
        emit(("J:" + ::std::to_string(id)).c_str());
    }
    bool is_finished(int id) { return threads_[id]->finished; }

    // condition-variable support (called with the baton)
    ::std::vector<int>& waitset(const void* cv) { return waitsets_[cv]; }
    void mark_notified(int tid) { threads_[tid]->notified = true; }
    bool take_notified(int tid) { bool n = threads_[tid]->notified; threads_[tid]->notified = false; return n; }
    uint64_t rnd() {
        rng_ += 0x9E3779B97F4A7C15ull; uint64_t z = rng_;
        z = (z ^ (z >> 30)) * 0xBF58476D1CE4E5B9ull; z = (z ^ (z >> 27)) * 0x94D049BB133111EBull; return z ^ (z >> 31);
    }
    // a scheduler-resolved choice among n alternatives (recorded, replayable)
    int choose(int n) {
        int c;
        if (replay_pos_ < replay_.size()) c = replay_[replay_pos_++] % n; else c = static_cast<int>(rnd() % n);
        choices_.push_back(c); return c;
    }
    bool spurious() const { return spurious_; }

    int mutex_owner(const void* m) { auto it = owners_.find(m); return it == owners_.end() ? -1 : it->second; }
    void set_owner(const void* m, int t) { if (t < 0) owners_.erase(m); else owners_[m] = t; }

private:
    static int& tl_id() { static thread_local int id = 0; return id; }

    bool enabled(const LThread& t) {
        if (t.finished) return false;
        switch (t.kind) {
        case OP_ANY: case OP_START: return true;
        case OP_LOCK: return mutex_owner(t.obj) < 0;
        case OP_WAITEND: return (t.notified || spurious_) && mutex_owner(t.obj) < 0;
        case OP_JOIN: return threads_[t.join_target]->finished;
        }
        return false;
    }
    int pick() {
        if (++steps_ > max_steps_) deadlock("step bound exceeded (livelock or unfair schedule)");
        ::std::vector<int> en;
        for (auto& t : threads_) if (enabled(*t)) en.push_back(t->id);
        if (en.empty()) return -1;
        int c;
        if (replay_pos_ < replay_.size()) {
            c = replay_[replay_pos_++];
            bool ok = false; for (int e : en) if (e == c) ok = true;
            if (!ok) c = en[0];
        } else if (strategy_ == 1) {
            bool cur_en = false; for (int e : en) if (e == current_) cur_en = true;
            if (cur_en && (rnd() & 3) != 0) c = current_; else c = en[rnd() % en.size()];
        } else {
            c = en[rnd() % en.size()];
        }
        choices_.push_back(c);
        return c;
    }
    void finish() {
        ::std::unique_lock< ::std::mutex> lk(big_);
        LThread& me = *threads_[tl_id()];
        emit("END");
        me.finished = true;
        int nxt = pick();
        if (nxt < 0) deadlock("no thread enabled after a thread ended");
        current_ = nxt;
        threads_[nxt]->cv.notify_one();
    }
    [[noreturn]] void deadlock(const char* why) {
        deadlock_ = true;
        printf("DEADLOCK seed=%llu strategy=%d why=%s\nTRACE %s\nCHOICES %s\n", static_cast<unsigned long long>(seed_), strategy_, why,
               log_.c_str(), choices().c_str());
        for (auto& t : threads_)
            printf("THREAD %d finished=%d kind=%d notified=%d\n", t->id, t->finished, t->kind, t->notified);
        // the hook inspects the component (e.g. Semaphore::value()); if that goes through a shim primitive (an atomic
        // member, a mutex) it must not re-enter the scheduler, whose lock this thread holds: switch the shim off first
        active_ = false;
        if (on_deadlock) on_deadlock();
        fflush(stdout);
        _exit(3);
    }

    ::std::mutex big_;
    ::std::vector< ::std::unique_ptr<LThread>> threads_;
    ::std::map<const void*, int> objids_;
    ::std::map<const void*, char> objcls_;
    ::std::map<const void*, int> owners_;
    ::std::map<const void*, ::std::vector<int>> waitsets_;
    ::std::string log_;
    ::std::vector<int> choices_, replay_;
    size_t replay_pos_ = 0;
    uint64_t seed_ = 0, rng_ = 0;
    int strategy_ = 0, current_ = 0;
    bool spurious_ = false, active_ = false, deadlock_ = false;
    long steps_ = 0, max_steps_ = 200000;
};

// ------------------------------------------------------------------------------------------- mutex
class mutex {
public:
    mutex() {}
    mutex(const mutex&) = delete;
    mutex& operator=(const mutex&) = delete;
    void lock() {
        Sched& s = Sched::get();
        if (!s.active()) { real_.lock(); return; }
        s.point(OP_LOCK, this);
        s.set_owner(this, s.self());
        s.emit("L:m" + ::std::to_string(s.objid(this, 'm')));
    }
    bool try_lock() {
        Sched& s = Sched::get();
        if (!s.active()) return real_.try_lock();
        s.point(OP_ANY);
        bool ok = s.mutex_owner(this) < 0;
        if (ok) s.set_owner(this, s.self());
        s.emit("TL:m" + ::std::to_string(s.objid(this, 'm')) + ":" + (ok ? "1" : "0"));
        return ok;
    }
    void unlock() {
        Sched& s = Sched::get();
        if (!s.active()) { real_.unlock(); return; }
        s.point(OP_ANY);
        s.set_owner(this, -1);
        s.emit("U:m" + ::std::to_string(s.objid(this, 'm')));
    }
private:
    ::std::mutex real_;
};

// ------------------------------------------------------------------------------------------- condvar
class condition_variable {
public:
    condition_variable() {}
    condition_variable(const condition_variable&) = delete;
    void wait(::std::unique_lock<mutex>& lk) {
        Sched& s = Sched::get();
        mutex* m = lk.mutex();
        // WaitBegin: atomically release the mutex and join the wait set
        s.point(OP_ANY);
        s.set_owner(m, -1);
        s.waitset(this).push_back(s.self());
        ::std::string ids = "c" + ::std::to_string(s.objid(this, 'c')) + ":m" + ::std::to_string(s.objid(m, 'm'));
        s.emit("WB:" + ids);
        // WaitEnd: enabled once notified (or spuriously) and the mutex is free
        s.point(OP_WAITEND, m);
        bool notified = s.take_notified(s.self());
        if (!notified) { // spurious wake-up: leave the wait set
            auto& ws = s.waitset(this);
            for (size_t i = 0; i < ws.size(); ++i) if (ws[i] == s.self()) { ws.erase(ws.begin() + static_cast<long>(i)); break; }
        }
        s.set_owner(m, s.self());
        s.emit("WE:" + ids + (notified ? "" : ":spurious"));
    }
    template <typename Pred>
    void wait(::std::unique_lock<mutex>& lk, Pred pred) { while (!pred()) wait(lk); }
    void notify_one() {
        Sched& s = Sched::get();
        s.point(OP_ANY);
        auto& ws = s.waitset(this);
        ::std::string w = "-";
        if (!ws.empty()) {
            int k = s.choose(static_cast<int>(ws.size()));
            int t = ws[static_cast<size_t>(k)]; ws.erase(ws.begin() + k);
            s.mark_notified(t); w = ::std::to_string(t);
        }
        s.emit("N1:c" + ::std::to_string(s.objid(this, 'c')) + ":" + w);
    }
    void notify_all() {
        Sched& s = Sched::get();
        s.point(OP_ANY);
        auto& ws = s.waitset(this);
        for (int t : ws) s.mark_notified(t);
        ws.clear();
        s.emit("NA:c" + ::std::to_string(s.objid(this, 'c')));
    }
};

// ------------------------------------------------------------------------------------------- atomic
template <typename T>
class atomic {
    static long long ll(T v) {
        if constexpr (::std::is_pointer<T>::value) return v ? 1 : 0; else return static_cast<long long>(v);
    }
    ::std::string name() { return "a" + ::std::to_string(Sched::get().objid(this, 'a')); }
public:
    atomic() noexcept : v_() {}
    constexpr atomic(T v) noexcept : v_(v) {}
    atomic(const atomic&) = delete;
    atomic& operator=(const atomic&) = delete;
    T load(::std::memory_order = ::std::memory_order_seq_cst) const {
        Sched& s = Sched::get();
        if (!s.active()) return v_;
        s.point(OP_ANY);
        s.emit("AL:" + const_cast<atomic*>(this)->name() + ":" + ::std::to_string(ll(v_)));
        return v_;
    }
    void store(T v, ::std::memory_order = ::std::memory_order_seq_cst) {
        Sched& s = Sched::get();
        if (!s.active()) { v_ = v; return; }
        s.point(OP_ANY); v_ = v;
        s.emit("AS:" + name() + ":" + ::std::to_string(ll(v)));
    }
    operator T() const { return load(); }
    T operator=(T v) { store(v); return v; }
    T exchange(T v, ::std::memory_order = ::std::memory_order_seq_cst) { return rmw([&](T) { return v; }); }
    T fetch_add(T d, ::std::memory_order = ::std::memory_order_seq_cst) { return rmw([&](T o) { return static_cast<T>(o + d); }); }
    T fetch_sub(T d, ::std::memory_order = ::std::memory_order_seq_cst) { return rmw([&](T o) { return static_cast<T>(o - d); }); }
    T operator++() { return static_cast<T>(fetch_add(1) + 1); }
    T operator++(int) { return fetch_add(1); }
    T operator--() { return static_cast<T>(fetch_sub(1) - 1); }
    T operator--(int) { return fetch_sub(1); }
    T operator+=(T d) { return static_cast<T>(fetch_add(d) + d); }
    T operator-=(T d) { return static_cast<T>(fetch_sub(d) - d); }
    bool compare_exchange_strong(T& expected, T desired, ::std::memory_order = ::std::memory_order_seq_cst,
                                 ::std::memory_order = ::std::memory_order_seq_cst) {
        Sched& s = Sched::get();
        if (!s.active()) { if (v_ == expected) { v_ = desired; return true; } expected = v_; return false; }
        s.point(OP_ANY);
        T old = v_; bool ok = (old == expected);
        if (ok) v_ = desired; else expected = old;
        s.emit("AC:" + name() + ":" + ::std::to_string(ll(old)) + ":" + ::std::to_string(ll(v_)) + ":" + (ok ? "1" : "0"));
        return ok;
    }
    bool compare_exchange_weak(T& e, T d, ::std::memory_order a = ::std::memory_order_seq_cst,
                               ::std::memory_order b = ::std::memory_order_seq_cst) { return compare_exchange_strong(e, d, a, b); }
private:
    template <typename F> T rmw(F f) {
        Sched& s = Sched::get();
        if (!s.active()) { T o = v_; v_ = f(o); return o; }
        s.point(OP_ANY);
        T o = v_; v_ = f(o);
        s.emit("AR:" + name() + ":" + ::std::to_string(ll(o)) + ":" + ::std::to_string(ll(v_)));
        return o;
    }
    T v_;
};

// ------------------------------------------------------------------------------------------- thread
class thread {
public:
    typedef int id;
    thread() noexcept : id_(-1) {}
    template <typename F, typename... Args,
              typename = typename ::std::enable_if<!::std::is_same<typename ::std::decay<F>::type, thread>::value>::type>
    explicit thread(F&& f, Args&&... args) {
        auto bound = ::std::bind(::std::forward<F>(f), ::std::forward<Args>(args)...);
        id_ = Sched::get().spawn([bound]() mutable { bound(); });
    }
    thread(const thread&) = delete;
    thread& operator=(const thread&) = delete;
    thread(thread&& o) noexcept : id_(o.id_) { o.id_ = -1; }
    thread& operator=(thread&& o) noexcept { id_ = o.id_; o.id_ = -1; return *this; }
    ~thread() {}
    bool joinable() const noexcept { return id_ >= 0; }
    void join() { Sched::get().join(id_); id_ = -1; }
    void detach() { id_ = -1; }
    id get_id() const noexcept { return id_; }
    static unsigned hardware_concurrency() noexcept { return Sched::hw_concurrency(); }
private:
    int id_;
};

namespace this_thread {
inline void yield() { Sched& s = Sched::get(); if (s.active()) { s.point(OP_ANY); s.emit("Y"); } }
inline int get_id() { return Sched::get().self(); }
} // namespace this_thread

} // namespace verif

// The redirection: qualified names std::X written inside namespace tlx find these first.
namespace tlx {
namespace std {
using namespace ::std;
using mutex = ::verif::mutex;
using condition_variable = ::verif::condition_variable;
using thread = ::verif::thread;
template <typename T> using atomic = ::verif::atomic<T>;
namespace this_thread { using ::verif::this_thread::yield; using ::verif::this_thread::get_id; }
inline void atomic_thread_fence(::std::memory_order) {}
} // namespace std
} // namespace tlx

#endif // VERIF_SCHED_HPP
