// C08 correspondence harness: runs tlx::multisequence_partition and tlx::multisequence_selection (compiled from
// /repo's working tree, ASan+UBSan) on the cases of a case file and prints, per tuple of sequences, one line
//     <cmp> <seq>|<seq>|... => <rank>:<off_0>,<off_1>,...:<selected value>:<selection offset> ...
// in exactly the format of ocaml/C08_driver.ml (which prints the same line from the extracted Coq model).
//
// case file lines:
//   one <cmp> <rank> <seq>|<seq>|...          a single rank
//   all <cmp> <seq>|<seq>|...                 every rank 0..N
//   exh <cmp> <m> <minlen> <maxlen> <keys>    every tuple of exactly m sorted sequences with lengths in
//                                             [minlen,maxlen] over keys 0..keys-1, every rank (one line per tuple)
// <cmp>: L = std::less<int>, G = std::greater<int>, Q = less on x/4 (a strict weak order with distinct
// equivalent elements; the selected value is printed as x/4).  A <seq> is a comma separated list of ints,
// sorted w.r.t. <cmp>.  With "-s" as 2nd argument every answer is also compared with a brute-force stable merge
// (development aid only; the check uses the Coq model and the Coq checker).
#include <algorithm>
#include <cstdio>
#include <cstdlib>
#include <exception>
#include <fstream>
#include <functional>
#include <iostream>
#include <sstream>
#include <string>
#include <utility>
#include <vector>

#include <tlx/algorithm/multisequence_partition.hpp>
#include <tlx/algorithm/multisequence_selection.hpp>

typedef std::vector<int> Seq;
typedef Seq::iterator It;
typedef std::ptrdiff_t diff_t;

struct QLess {
    bool operator()(int a, int b) const { return a / 4 < b / 4; }
};

static bool g_self = false;
static long g_self_fail = 0;

template <typename Comp>
static int show_val(int v) { return v; }
template <>
int show_val<QLess>(int v) { return v / 4; }

template <typename Comp>
static void brute(std::vector<Seq>& seqs, diff_t rank, std::vector<diff_t>& cnt, Comp comp) {
    // k-way stable merge by (value, sequence index): take `rank` elements
    size_t m = seqs.size();
    cnt.assign(m, 0);
    for (diff_t k = 0; k < rank; ++k) {
        int best = -1;
        for (size_t i = 0; i < m; ++i) {
            if (cnt[i] >= static_cast<diff_t>(seqs[i].size())) continue;
            if (best < 0 || comp(seqs[i][cnt[i]], seqs[best][cnt[best]])) best = static_cast<int>(i);
        }
        if (best < 0) break;
        ++cnt[best];
    }
}

template <typename Comp>
static void run_rank(std::vector<Seq>& seqs, diff_t rank, std::string& out, Comp comp) {
    size_t m = seqs.size();
    std::vector<std::pair<It, It>> iters;
    diff_t N = 0;
    for (auto& s : seqs) { iters.push_back(std::make_pair(s.begin(), s.end())); N += static_cast<diff_t>(s.size()); }
    std::vector<It> offs(m);
    tlx::multisequence_partition(iters.begin(), iters.end(), rank, offs.begin(), comp);
    char buf[64];
    snprintf(buf, sizeof buf, " %ld:", static_cast<long>(rank));
    out += buf;
    std::vector<diff_t> got(m);
    for (size_t i = 0; i < m; ++i) {
        got[i] = offs[i] - seqs[i].begin();
        snprintf(buf, sizeof buf, "%s%ld", i ? "," : "", static_cast<long>(got[i]));
        out += buf;
    }
    diff_t soff = -1;
    bool thrown = false;
    int v = 0;
    try {
        v = tlx::multisequence_selection<int>(iters.begin(), iters.end(), rank, soff, comp);
    } catch (std::exception&) {
        thrown = true;
    }
    if (thrown) out += ":throw";
    else { snprintf(buf, sizeof buf, ":%d:%ld", show_val<Comp>(v), static_cast<long>(soff)); out += buf; }
    if (g_self) {
        std::vector<diff_t> want;
        brute(seqs, rank, want, comp);
        bool bad = (want != got);
        if (rank < N) {
            // element at that rank of the merged order and its offset among the equivalent ones
            std::vector<diff_t> w1; brute(seqs, rank + 1, w1, comp);
            int ev = 0; for (size_t i = 0; i < m; ++i) if (w1[i] != want[i]) ev = seqs[i][want[i]];
            diff_t eo = 0;
            for (size_t i = 0; i < m; ++i) for (diff_t p = 0; p < want[i]; ++p) if (!comp(seqs[i][p], ev) && !comp(ev, seqs[i][p])) ++eo;
            if (thrown || comp(v, ev) || comp(ev, v) || eo != soff) bad = true;
        } else if (!thrown) bad = true;
        if (bad) { ++g_self_fail; out += "!SELF"; }
    }
}

static Seq parse_seq(const std::string& s) {
    Seq r; size_t p = 0;
    while (p < s.size()) {
        size_t q = s.find(',', p); if (q == std::string::npos) q = s.size();
        r.push_back(atoi(s.substr(p, q - p).c_str()));
        p = q + 1;
    }
    return r;
}

static std::vector<Seq> parse_seqs(const std::string& s) {
    std::vector<Seq> r; size_t p = 0;
    while (p <= s.size()) {
        size_t q = s.find('|', p); if (q == std::string::npos) q = s.size();
        r.push_back(parse_seq(s.substr(p, q - p)));
        p = q + 1;
    }
    return r;
}

static std::string show_seqs(const std::vector<Seq>& seqs) {
    std::string o; char buf[32];
    for (size_t i = 0; i < seqs.size(); ++i) {
        if (i) o += "|";
        for (size_t k = 0; k < seqs[i].size(); ++k) { snprintf(buf, sizeof buf, "%s%d", k ? "," : "", seqs[i][k]); o += buf; }
    }
    return o;
}

template <typename Comp>
static void run_tuple(const char* cname, std::vector<Seq>& seqs, diff_t only_rank, Comp comp) {
    std::string out = cname; out += " "; out += show_seqs(seqs); out += " =>";
    diff_t N = 0; for (auto& s : seqs) N += static_cast<diff_t>(s.size());
    if (only_rank >= 0) run_rank(seqs, only_rank, out, comp);
    else for (diff_t r = 0; r <= N; ++r) run_rank(seqs, r, out, comp);
    puts(out.c_str());
}

static void dispatch(const std::string& c, std::vector<Seq>& seqs, diff_t only_rank) {
    if (c == "L") run_tuple("L", seqs, only_rank, std::less<int>());
    else if (c == "G") run_tuple("G", seqs, only_rank, std::greater<int>());
    else run_tuple("Q", seqs, only_rank, QLess());
}

// all non-decreasing sequences over 0..keys-1 with lengths minlen..maxlen, by length then lexicographically
static void gen_sorted(int len, int keys, int from, Seq& cur, std::vector<Seq>& out) {
    if (static_cast<int>(cur.size()) == len) { out.push_back(cur); return; }
    for (int k = from; k < keys; ++k) { cur.push_back(k); gen_sorted(len, keys, k, cur, out); cur.pop_back(); }
}

static void run_exh(const std::string& c, int m, int minlen, int maxlen, int keys) {
    std::vector<Seq> pool;
    for (int len = minlen; len <= maxlen; ++len) { Seq cur; gen_sorted(len, keys, 0, cur, pool); }
    if (c == "G") for (auto& s : pool) std::reverse(s.begin(), s.end());
    if (c == "Q") for (auto& s : pool) for (size_t k = 0; k < s.size(); ++k) s[k] = s[k] * 4 + static_cast<int>((k * 7 + s.size()) % 4);
    std::vector<size_t> idx(m, 0);
    for (;;) {
        std::vector<Seq> seqs;
        for (int i = 0; i < m; ++i) seqs.push_back(pool[idx[i]]);
        dispatch(c, seqs, -1);
        int k = m - 1;
        while (k >= 0 && ++idx[k] == pool.size()) { idx[k] = 0; --k; }
        if (k < 0) break;
    }
}

int main(int argc, char** argv) {
    if (argc < 2) { fprintf(stderr, "usage: %s casefile [-s]\n", argv[0]); return 2; }
    g_self = argc > 2 && std::string(argv[2]) == "-s";
    std::ifstream in(argv[1]);
    std::string line;
    while (std::getline(in, line)) {
        std::istringstream ls(line);
        std::string kind, c;
        if (!(ls >> kind)) continue;
        if (kind == "one") {
            long rank; std::string s; ls >> c >> rank >> s;
            std::vector<Seq> seqs = parse_seqs(s);
            dispatch(c, seqs, rank);
        } else if (kind == "all") {
            std::string s; ls >> c >> s;
            std::vector<Seq> seqs = parse_seqs(s);
            dispatch(c, seqs, -1);
        } else if (kind == "exh") {
            int m, lo, hi, keys; ls >> c >> m >> lo >> hi >> keys;
            run_exh(c, m, lo, hi, keys);
        } else {
            puts("?");
        }
        fflush(stdout);
    }
    if (g_self) fprintf(stderr, "selfcheck failures: %ld\n", g_self_fail);
    return 0;
}
