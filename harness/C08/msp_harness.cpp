// C08 correspondence harness: runs tlx::multisequence_partition and tlx::multisequence_selection (compiled from
// /repo's working tree, ASan+UBSan) on the cases of a case file and prints, per tuple of sequences, one line
//     <cmp> <seq>|<seq>|... => <rank>:<off_0>,<off_1>,...:<selected value>:<selection offset> ...
// in exactly the format of ocaml/C08_driver.ml (which prints the same line from the extracted Coq model).
//
// case file lines:
//   one <cmp> <rank> <seq>|<seq>|...          a single rank
//   all <cmp> <seq>|<seq>|...                 every rank 0..N
//   rot <cmp> <seq>|<seq>|...                 every rank 0..N, one variant per rank (rotating, as for `exh`)
//   exh <cmp> <m> <minlen> <maxlen> <keys> [<part> <nparts>]
//                                             every tuple of exactly m sorted sequences with lengths in
//                                             [minlen,maxlen] over keys 0..keys-1, every rank (one line per tuple);
//                                             with <part> <nparts> only the tuples whose first sequence has index
//                                             = part (mod nparts) in the enumeration (to split a family over shards)
//   pad <x>                                   the padded length  round_up_to_power_of_two(x + 1) - 1  through every
//                                             overload (int, unsigned, long, unsigned long, long long, unsigned long
//                                             long) in whose range x + 1 and the result lie; x up to 2^62
//   virt <cmp> <rank> <rle>|<rle>|...         VIRTUAL sequences (no memory): <rle> = key*count,key*count,... through a
//                                             random-access iterator with difference_type long computing its value
//                                             from the index; lengths beyond 2^32.  The answer is printed as usual and
//                                             checked HERE against the specification predicate of partition_correct /
//                                             check_select by O(m^2 + m log n) probing (" !SPEC:<why>" on failure); the
//                                             check script compares it with its own evaluation of the specification.
//   sel <cmp> <rank> <seq>|<seq>|...          multisequence_selection ONLY (every variant): cases in which only the
//                                             selection is defined - no data (no sequence "-", or all sequences empty,
//                                             written as nothing between the bars) and ranks outside [0, N) (negative,
//                                             >= N): it must throw.  Output "S<cmp> <seqs> => <rank>:throw".
//   narrow <cmp> <uchar|short> <rank> <seqs>  as `one`, but RankType unsigned char / short (narrower than the total);
//   virtn <cmp> <rank> <rle>|...              as `virt`, RankType int (defect fixed in b429853: N was kept in RankType).
// "-" stands for the empty tuple (m = 0).  For std::less on int elements every rank is also run through the DEFAULT
// comparator argument of both templates.
// Call modes a caller may use on HEAD are exercised on every rank: the same object passed as `rank` and `offset` of
// multisequence_selection, and (pointer variants) offsets written in place into the `first` members of the pairs; a
// deviating result replaces the answer and adds a token "#alias=...".
// <cmp>: L = std::less<int>, G = std::greater<int>, Q = less on x/4 (a strict weak order with distinct
// equivalent elements; the selected value is printed as x/4).  A <seq> is a comma separated list of ints,
// sorted w.r.t. <cmp>.
//
// Template degrees of freedom of the two function templates.  The answer does not depend on them (the model is
// type-agnostic), so they are *varied*, not printed: ten variants combine
//   RankType      int, long, long long, unsigned int, std::size_t
//   iterators     std::vector<T>::iterator, T* (raw pointers), std::deque<T>::iterator
//   RanSeqs       vector<pair>::iterator, pair*, vector<pair>::const_iterator; offsets via iterator or raw pointer
//   element type  int, struct KV {key, payload} compared by key only; a moved-from KV is poisoned.  After every
//                 single call the input sequences are compared element by element with the case's lists
//                 ("!INPUT-MODIFIED" in the entry otherwise), and both functions are called twice per rank
//   comparator    the plain functor (2 variants) and comparators WITH STATE (8 variants): a by-key adaptor and a
//                 non-default-constructible wrapper owning heap state, a capturing lambda, a std::function, a plain
//                 function pointer.  The state (PoisonState) is scrambled by the destructor, so a comparator
//                 object used after its lifetime (e.g. through a dangling reference kept by the internal
//                 lexicographic helpers) gives a sanitizer report under ASan and inverted comparisons without
// `one` and `all` lines run EVERY variant on every rank; if a variant disagrees with variant 0 its answer is printed
// as an additional entry for the same rank plus a token "#v=<variant>" (the checker judges every entry).  `exh`
// lines rotate through the variants (entry k uses variant k mod 10).  The last output line "#VARIANTS ..." gives the
// number of calls per variant.  With "-s" as 2nd argument every answer is also compared with a brute-force stable merge
// (development aid only; the check uses the Coq model and the Coq checker).
#include <algorithm>
#include <cstdio>
#include <cstdint>
#include <cstdlib>
#include <deque>
#include <exception>
#include <fstream>
#include <functional>
#include <iostream>
#include <iterator>
#include <sstream>
#include <string>
#include <type_traits>
#include <utility>
#include <vector>

#include <tlx/algorithm/multisequence_partition.hpp>
#include <tlx/algorithm/multisequence_selection.hpp>

typedef std::vector<int> Seq;
typedef Seq::iterator It;
typedef std::ptrdiff_t diff_t;

struct QLess {
    bool operator()(int a, int b) const { return a / 4 < b / 4; }
};

inline bool g_sel_only = false;   // `sel` lines: call multisequence_selection only
static bool g_self = false;
static long g_self_fail = 0;

// The file can be compiled as ONE translation unit (default) or as FOUR (-DC08_PART=0..3, linked together) to
// compile the 30 (comparator, variant) instantiations in parallel; part 0 holds main().
#ifdef C08_PART
#define C08_MAIN (C08_PART == 0)
#else
#define C08_MAIN 1
#endif

template <typename Comp>
static int show_val(int v) { return v; }
template <>
inline int show_val<QLess>(int v) { return v / 4; }

template <typename Comp>
static void brute(std::vector<Seq>& seqs, diff_t rank, std::vector<diff_t>& cnt, Comp comp) {
    // k-way stable merge by (value, sequence index): take `rank` elements
    size_t m = seqs.size();
    cnt.assign(m, 0);
    for (diff_t k = 0; k < rank; ++k) {
        int best = -1;
        for (size_t i = 0; i < m; ++i) {
            if (cnt[i] >= static_cast<diff_t>(seqs[i].size())) continue;
            if (best < 0 || comp(seqs[i][cnt[i]], seqs[best][cnt[best]])) best = static_cast<int>(i);
        }
        if (best < 0) break;
        ++cnt[best];
    }
}

// moved-from state is visible: a moved-from KV carries the poison key (the functions must not move out of the
// caller's sequences)
static const int kMovedKey = -777777;
struct KV {
    int key;
    int payload;
    KV() : key(0), payload(0) {}
    KV(const KV&) = default;
    KV& operator=(const KV&) = default;
    KV(KV&& o) noexcept : key(o.key), payload(o.payload) { o.key = kMovedKey; o.payload = -1; }
    KV& operator=(KV&& o) noexcept {
        key = o.key; payload = o.payload;
        if (&o != this) { o.key = kMovedKey; o.payload = -1; }
        return *this;
    }
};
static inline bool payload_ok(int, size_t, size_t) { return true; }
static inline bool payload_ok(const KV& x, size_t i, size_t p) { return x.payload == static_cast<int>(i * 100000 + p); }
// the explicit lists of the current tuple: after EVERY call the sequences handed to the functions must still equal them
inline const std::vector<Seq>* g_master = nullptr;
inline bool g_repeat = true;   // explicit second call of both functions (one / all / sel lines; enumerations re-query the
                               // same runs at the next rank anyway and always run the aliased / in-place second calls)
static inline int key_of(int x) { return x; }
static inline int key_of(const KV& x) { return x.key; }
static inline void make_elem(int& e, int x, int) { e = x; }
static inline void make_elem(KV& e, int x, int tag) { e.key = x; e.payload = tag; }

// comparator state: alive <=> flag == 1.  The destructor scrambles it (volatile store, so that lifetime dead-store
// elimination cannot remove it): a comparator object used after its destruction - e.g. through a dangling reference
// to a dead by-value parameter - is a stack-use-after-scope/return report under ASan, and without ASan it sees the
// poison (or whatever overwrote the slot) and inverts its answers.  Copies of a dead object stay poisoned.  (Kept
// inline rather than on the heap: an allocation per comparator copy made the harness a third slower; the
// std::function variant owns its functor on the heap anyway.)
struct PoisonState {
    volatile int flag;
    PoisonState() : flag(1) {}
    PoisonState(const PoisonState& o) : flag(o.flag) {}
    PoisonState& operator=(const PoisonState& o) { flag = o.flag; return *this; }
    ~PoisonState() { flag = -1; }
    bool ok() const { return flag == 1; }
};

// compares KV by key only (owns state)
template <typename Base>
struct ByKey {
    Base base;
    PoisonState st;
    explicit ByKey(Base b) : base(b) {}
    bool operator()(const KV& a, const KV& b) const { return st.ok() ? base(a.key, b.key) : base(b.key, a.key); }
};
// stateful comparator object without default constructor (owns state, counts its calls through a pointer)
inline long g_cmp_calls = 0;
template <typename Base>
struct Stateful {
    Base base;
    long* calls;
    PoisonState st;
    Stateful(Base b, long* c) : base(b), calls(c) {}
    template <typename T>
    bool operator()(const T& a, const T& b) const { ++*calls; return st.ok() ? base(a, b) : base(b, a); }
};
// a lambda capturing its state by value
template <typename Base>
static auto make_lambda_cmp(Base b) {
    PoisonState st;
    return [st, b](int x, int y) { return st.ok() ? b(x, y) : b(y, x); };
}
// a plain function (used through a function pointer)
template <typename Base>
static bool fn_cmp(int x, int y) { return Base()(x, y); }

struct Answer {
    std::vector<long> offs;
    bool thrown = false;
    int v = 0;
    long soff = -1;
    std::string note;   // "#alias=..." when an aliasing call mode deviates
    bool modified = false;   // a call changed the caller's sequences
    bool sel_only = false;
    bool operator==(const Answer& o) const {
        return offs == o.offs && thrown == o.thrown && (thrown || (v == o.v && soff == o.soff)) && modified == o.modified;
    }
};

// all containers of one tuple
struct Tuple {
    std::vector<std::vector<int>> vi;
    std::vector<std::deque<int>> di;
    std::vector<std::vector<KV>> vk;
    std::vector<std::deque<KV>> dk;
    explicit Tuple(const std::vector<Seq>& seqs) : vi(seqs), di(seqs.size()), vk(seqs.size()), dk(seqs.size()) {
        for (size_t i = 0; i < seqs.size(); ++i)
            for (size_t p = 0; p < seqs[i].size(); ++p) {
                di[i].push_back(seqs[i][p]);
                KV e; make_elem(e, seqs[i][p], static_cast<int>(i * 100000 + p));
                vk[i].push_back(e); dk[i].push_back(e);
            }
    }
};
template <typename C>
static std::vector<std::pair<typename C::iterator, typename C::iterator>> iter_pairs(std::vector<C>& cs) {
    std::vector<std::pair<typename C::iterator, typename C::iterator>> r;
    for (auto& c : cs) r.push_back(std::make_pair(c.begin(), c.end()));
    return r;
}
template <typename E>
static std::vector<std::pair<E*, E*>> ptr_pairs(std::vector<std::vector<E>>& cs) {
    std::vector<std::pair<E*, E*>> r;
    for (auto& c : cs) r.push_back(std::make_pair(c.data(), c.data() + c.size()));
    return r;
}

// writes the offsets in place into the `first` members of the iterator pairs
template <typename It>
struct FirstRef {
    std::pair<It, It>* p;
    It& operator[](std::ptrdiff_t i) const { return p[i].first; }
};

// RK: how the sequence of iterator pairs and the offsets are passed (0 iterators, 1 raw pointers, 2 const_iterator)
template <typename RankT, int RK, typename ShowComp, typename It, typename Comp>
static Answer run_one(std::vector<std::pair<It, It>> iters, long rank, Comp comp) {
    typedef typename std::iterator_traits<It>::value_type Elem;
    size_t m = iters.size();
    std::vector<It> offs(m);
    RankT rk = static_cast<RankT>(rank);
    RankT soff = static_cast<RankT>(-1);
    Answer a;
    Elem v = Elem();
    auto select = [&](const RankT& r_in, RankT& off_out) -> Elem {
        if constexpr (RK == 0) return tlx::multisequence_selection<Elem>(iters.begin(), iters.end(), r_in, off_out, comp);
        else if constexpr (RK == 1) return tlx::multisequence_selection<Elem>(iters.data(), iters.data() + m, r_in, off_out, comp);
        else return tlx::multisequence_selection<Elem>(iters.cbegin(), iters.cend(), r_in, off_out, comp);
    };
    a.sel_only = g_sel_only;
    // the sequences are inputs: after every call they must be element-for-element what the case says
    auto input_intact = [&](const char* after) {
        if (!g_master || a.modified) return;
        for (size_t i = 0; i < m; ++i) {
            const Seq& want = (*g_master)[i];
            for (size_t p = 0; p < want.size(); ++p)
                if (key_of(iters[i].first[static_cast<std::ptrdiff_t>(p)]) != want[p] ||
                    !payload_ok(iters[i].first[static_cast<std::ptrdiff_t>(p)], i, p)) {
                    a.modified = true; a.note += " #input-modified-by="; a.note += after; return;
                }
        }
    };
    auto partition_into = [&](std::vector<It>& o) {
        if constexpr (RK == 0) tlx::multisequence_partition(iters.begin(), iters.end(), rk, o.begin(), comp);
        else if constexpr (RK == 1) tlx::multisequence_partition(iters.data(), iters.data() + m, rk, o.data(), comp);
        else tlx::multisequence_partition(iters.cbegin(), iters.cend(), rk, o.begin(), comp);
    };
    for (size_t i = 0; i < m; ++i) offs[i] = iters[i].first;
    if (!g_sel_only) { partition_into(offs); input_intact("partition"); }
    try { v = select(rk, soff); } catch (std::exception&) { a.thrown = true; }
    input_intact("selection");
    // every query twice on the same runs
    if (g_repeat) {
        std::vector<It> offs2(offs);
        if (!g_sel_only) { partition_into(offs2); input_intact("partition(2nd)"); }
        RankT soff2 = static_cast<RankT>(-1); Elem v2 = Elem(); bool thrown2 = false;
        try { v2 = select(rk, soff2); } catch (std::exception&) { thrown2 = true; }
        input_intact("selection(2nd)");
        bool same = (offs2 == offs) && thrown2 == a.thrown && (thrown2 || (key_of(v2) == key_of(v) && soff2 == soff));
        if (!same) { offs = offs2; a.thrown = thrown2; v = v2; soff = soff2; a.note += " #repeat=second-call-differs"; }
    }
    // call mode: the default comparator argument (Comparator = std::less<value_type>) of both templates
    if constexpr (std::is_same<Comp, std::less<Elem>>::value && RK == 0) {
        std::vector<It> offs2(offs);
        if (!g_sel_only) tlx::multisequence_partition(iters.begin(), iters.end(), rk, offs2.begin());
        RankT soff2 = static_cast<RankT>(-1); Elem v2 = Elem(); bool thrown2 = false;
        try { v2 = tlx::multisequence_selection<Elem>(iters.begin(), iters.end(), rk, soff2); } catch (std::exception&) { thrown2 = true; }
        bool same = (offs2 == offs) && thrown2 == a.thrown && (thrown2 || (key_of(v2) == key_of(v) && soff2 == soff));
        if (!same) { offs = offs2; a.thrown = thrown2; v = v2; soff = soff2; a.note += " #mode=default-comparator"; }
        input_intact("default-comparator-calls");
    }
    // call mode: one object is both `rank` (const RankType&) and `offset` (RankType&)
    {
        RankT pos = rk; Elem v2 = Elem(); bool thrown2 = false;
        try { v2 = select(pos, pos); } catch (std::exception&) { thrown2 = true; }
        if (thrown2 != a.thrown || (!thrown2 && (key_of(v2) != key_of(v) || pos != soff))) {
            a.thrown = thrown2; v = v2; soff = pos; a.note += " #alias=selection(rank-is-offset)";
        }
        input_intact("selection(aliased)");
    }
    // call mode: the offsets overwrite the `first` members of the pairs
    if constexpr (RK == 1) if (!g_sel_only) {
        std::vector<std::pair<It, It>> inplace(iters);
        tlx::multisequence_partition(inplace.data(), inplace.data() + m, rk, FirstRef<It>{inplace.data()}, comp);
        bool same = true;
        for (size_t i = 0; i < m; ++i) if (inplace[i].first != offs[i]) same = false;
        if (!same) { for (size_t i = 0; i < m; ++i) offs[i] = inplace[i].first; a.note += " #alias=partition(offsets-in-place)"; }
        input_intact("partition(in-place)");
    }
    for (size_t i = 0; i < m; ++i) a.offs.push_back(static_cast<long>(offs[i] - iters[i].first));
    a.v = show_val<ShowComp>(key_of(v));
    a.soff = static_cast<long>(soff);
    return a;
}

static const int NVARIANTS = 10;
static const char* const VARIANT_NAME[NVARIANTS] = {
    "long/vector-iter/int/plain/iter",        "size_t/vector-iter/int/plain/iter",
    "int/pointer/int/lambda/ptr",             "uint/deque-iter/int/std-function/iter",
    "longlong/vector-iter/KV/bykey/const-iter", "size_t/deque-iter/KV/stateful/iter",
    "int/vector-iter/int/stateful/iter",      "size_t/pointer/KV/bykey/ptr",
    "longlong/deque-iter/int/fnptr/const-iter", "uint/pointer/KV/stateful/ptr"};
static long g_variant_calls[NVARIANTS];

template <int K, typename Comp>
static Answer variant_k(Tuple& T, long rank, Comp comp) {
    ByKey<Comp> bk(comp);
    if constexpr (K == 0) return run_one<long, 0, Comp>(iter_pairs(T.vi), rank, comp);
    else if constexpr (K == 1) return run_one<std::size_t, 0, Comp>(iter_pairs(T.vi), rank, comp);
    else if constexpr (K == 2) return run_one<int, 1, Comp>(ptr_pairs(T.vi), rank, make_lambda_cmp(comp));
    else if constexpr (K == 3) return run_one<unsigned int, 0, Comp>(iter_pairs(T.di), rank,
                                                                 std::function<bool(int, int)>(Stateful<Comp>(comp, &g_cmp_calls)));
    else if constexpr (K == 4) return run_one<long long, 2, Comp>(iter_pairs(T.vk), rank, bk);
    else if constexpr (K == 5) return run_one<std::size_t, 0, Comp>(iter_pairs(T.dk), rank, Stateful<ByKey<Comp>>(bk, &g_cmp_calls));
    else if constexpr (K == 6) return run_one<int, 0, Comp>(iter_pairs(T.vi), rank, Stateful<Comp>(comp, &g_cmp_calls));
    else if constexpr (K == 7) return run_one<unsigned long, 1, Comp>(ptr_pairs(T.vk), rank, bk);
    else if constexpr (K == 8) return run_one<long long, 2, Comp>(iter_pairs(T.di), rank, &fn_cmp<Comp>);
    else return run_one<unsigned int, 1, Comp>(ptr_pairs(T.vk), rank, Stateful<ByKey<Comp>>(bk, &g_cmp_calls));
}

template <int CI> struct CmpOf;
template <> struct CmpOf<0> { typedef std::less<int> type; };
template <> struct CmpOf<1> { typedef std::greater<int> type; };
template <> struct CmpOf<2> { typedef QLess type; };
template <typename Comp> struct CmpIndex;
template <> struct CmpIndex<std::less<int>> { static const int value = 0; };
template <> struct CmpIndex<std::greater<int>> { static const int value = 1; };
template <> struct CmpIndex<QLess> { static const int value = 2; };

#define C08_ROW(X, CI) X(CI, 0) X(CI, 1) X(CI, 2) X(CI, 3) X(CI, 4) X(CI, 5) X(CI, 6) X(CI, 7) X(CI, 8) X(CI, 9)
// instantiation (comparator CI, variant K) lives in part (CI*10+K) mod 4
template <int P>
Answer run_part(int ck, Tuple& T, long rank) {
    switch (ck) {
#define C08_CASE(CI, K)                                                                              \
    case CI * 10 + K:                                                                                \
        if constexpr ((CI * 10 + K) % 4 == P) return variant_k<K>(T, rank, typename CmpOf<CI>::type()); \
        else break;
        C08_ROW(C08_CASE, 0) C08_ROW(C08_CASE, 1) C08_ROW(C08_CASE, 2)
#undef C08_CASE
    }
    abort();
}
#ifdef C08_PART
extern template Answer run_part<0>(int, Tuple&, long);
extern template Answer run_part<1>(int, Tuple&, long);
extern template Answer run_part<2>(int, Tuple&, long);
extern template Answer run_part<3>(int, Tuple&, long);
template Answer run_part<C08_PART>(int, Tuple&, long);
#endif

// ---------------------------------------------------------------------------------------------------------------
// virtual sequences: value computed from the index, difference_type long, no memory
struct VSeq {
    std::vector<long> start;   // first index of every run
    std::vector<int> keys;     // key of every run (storage the returned references point to; never written)
    long n = 0;
};
inline long g_virt_oob = 0;
struct VIt {
    typedef std::random_access_iterator_tag iterator_category;
    typedef int value_type;
    typedef long difference_type;
    typedef int* pointer;
    typedef int& reference;
    VSeq* s = nullptr;
    long pos = 0;
    int& operator[](long k) const {
        long p = pos + k;
        if (p < 0 || p >= s->n) { ++g_virt_oob; p = p < 0 ? 0 : s->n - 1; }   // an out-of-range read is reported
        size_t seg = static_cast<size_t>(std::upper_bound(s->start.begin(), s->start.end(), p) - s->start.begin()) - 1;
        return s->keys[seg];
    }
    int& operator*() const { return (*this)[0]; }
    VIt& operator++() { ++pos; return *this; }
    VIt operator++(int) { VIt t = *this; ++pos; return t; }
    VIt& operator--() { --pos; return *this; }
    VIt operator--(int) { VIt t = *this; --pos; return t; }
    VIt& operator+=(long k) { pos += k; return *this; }
    VIt& operator-=(long k) { pos -= k; return *this; }
    friend VIt operator+(VIt a, long k) { a.pos += k; return a; }
    friend VIt operator+(long k, VIt a) { a.pos += k; return a; }
    friend VIt operator-(VIt a, long k) { a.pos -= k; return a; }
    friend long operator-(const VIt& a, const VIt& b) { return a.pos - b.pos; }
    friend bool operator==(const VIt& a, const VIt& b) { return a.pos == b.pos; }
    friend bool operator!=(const VIt& a, const VIt& b) { return a.pos != b.pos; }
    friend bool operator<(const VIt& a, const VIt& b) { return a.pos < b.pos; }
    friend bool operator>(const VIt& a, const VIt& b) { return a.pos > b.pos; }
    friend bool operator<=(const VIt& a, const VIt& b) { return a.pos <= b.pos; }
    friend bool operator>=(const VIt& a, const VIt& b) { return a.pos >= b.pos; }
};

template <typename RankT, typename Comp>
static Answer run_virtual_as(std::vector<VSeq>& vs, long rank, Comp comp) {
    size_t m = vs.size();
    std::vector<std::pair<VIt, VIt>> iters;
    for (auto& q : vs) { VIt b; b.s = &q; b.pos = 0; VIt e = b; e.pos = q.n; iters.push_back(std::make_pair(b, e)); }
    std::vector<VIt> offs(m);
    RankT rk = static_cast<RankT>(rank);
    RankT soff = static_cast<RankT>(-1);
    Answer a;
    int v = 0;
    tlx::multisequence_partition(iters.begin(), iters.end(), rk, offs.begin(), comp);
    try { v = tlx::multisequence_selection<int>(iters.begin(), iters.end(), rk, soff, comp); }
    catch (std::exception&) { a.thrown = true; }
    for (size_t i = 0; i < m; ++i) a.offs.push_back(offs[i] - iters[i].first);
    a.v = v;
    a.soff = static_cast<long>(soff);
    return a;
}
// variants 0,1 live in part 2, variants 2,3 in part 3
Answer run_virtual_a(int k, std::vector<VSeq>& vs, long rank);   // k = 0: less/long, 1: less/unsigned long
Answer run_virtual_b(int k, std::vector<VSeq>& vs, long rank);   // k = 2: less/long long, 3: greater/long
#if !defined(C08_PART) || C08_PART == 2
Answer run_virtual_a(int k, std::vector<VSeq>& vs, long rank) {
    if (k == 0) return run_virtual_as<long>(vs, rank, std::less<int>());
    if (k == 4) return run_virtual_as<int>(vs, rank, std::less<int>());   // `virtn`: RankType narrower than the total
    return run_virtual_as<unsigned long>(vs, rank, std::less<int>());
}
#endif
#if !defined(C08_PART) || C08_PART == 3
Answer run_virtual_b(int k, std::vector<VSeq>& vs, long rank) {
    if (k == 2) return run_virtual_as<long long>(vs, rank, std::less<int>());
    return run_virtual_as<long>(vs, rank, std::greater<int>());
}
#endif

// RankType narrower than the total (docs/audit/C08.md, fixed in b429853): part 1
Answer run_narrow(int k, Tuple& T, long rank);   // k = 0: unsigned char, 1: short; std::less<int>, vector iterators
#if !defined(C08_PART) || C08_PART == 1
Answer run_narrow(int k, Tuple& T, long rank) {
    if (k == 0) return run_one<unsigned char, 0, std::less<int>>(iter_pairs(T.vi), rank, std::less<int>());
    return run_one<short, 0, std::less<int>>(iter_pairs(T.vi), rank, std::less<int>());
}
#endif

#if C08_MAIN
template <typename Comp>
static Answer run_variant(int k, Tuple& T, long rank, Comp) {
    ++g_variant_calls[k];
    int ck = CmpIndex<Comp>::value * 10 + k;
    switch (ck % 4) {
    case 0: return run_part<0>(ck, T, rank);
    case 1: return run_part<1>(ck, T, rank);
    case 2: return run_part<2>(ck, T, rank);
    default: return run_part<3>(ck, T, rank);
    }
}

static void show_answer(long rank, const Answer& a, std::string& out) {
    char buf[64];
    snprintf(buf, sizeof buf, " %ld:", rank);
    out += buf;
    if (a.sel_only) {
        if (a.thrown) out += "throw";
        else { snprintf(buf, sizeof buf, "%d:%ld", a.v, a.soff); out += buf; }
        if (a.modified) out += "!INPUT-MODIFIED";
        return;
    }
    for (size_t i = 0; i < a.offs.size(); ++i) {
        snprintf(buf, sizeof buf, "%s%ld", i ? "," : "", a.offs[i]);
        out += buf;
    }
    if (a.thrown) out += ":throw";
    else { snprintf(buf, sizeof buf, ":%d:%ld", a.v, a.soff); out += buf; }
    if (a.modified) out += "!INPUT-MODIFIED";
}

static long g_entry = 0;   // rotates the variants over the enumerations

// every_variant: run all variants (one / all lines); else variant (entry number mod NVARIANTS)
template <typename Comp>
static void run_rank(std::vector<Seq>& seqs, Tuple& T, diff_t rank, std::string& out, std::string& tags, bool every_variant, Comp comp) {
    size_t m = seqs.size();
    diff_t N = 0;
    for (auto& s : seqs) N += static_cast<diff_t>(s.size());
    int k0 = every_variant ? 0 : static_cast<int>(g_entry % NVARIANTS);
    g_repeat = every_variant;
    ++g_entry;
    Answer a = run_variant(k0, T, rank, comp);
    show_answer(rank, a, out);
    if (!a.note.empty()) { tags += a.note; tags += "("; tags += VARIANT_NAME[k0]; tags += ")"; }
    if (every_variant)
        for (int k = 1; k < NVARIANTS; ++k) {
            Answer b = run_variant(k, T, rank, comp);
            if (!(b == a)) { show_answer(rank, b, out); tags += " #v="; tags += VARIANT_NAME[k]; tags += b.note; }
        }
    if (g_self) {
        std::vector<diff_t> want;
        brute(seqs, rank, want, comp);
        std::vector<long> w(want.begin(), want.end());
        bool bad = (w != a.offs);
        if (rank < N) {
            // element at that rank of the merged order and its offset among the equivalent ones
            std::vector<diff_t> w1; brute(seqs, rank + 1, w1, comp);
            int ev = 0; for (size_t i = 0; i < m; ++i) if (w1[i] != want[i]) ev = seqs[i][want[i]];
            diff_t eo = 0;
            for (size_t i = 0; i < m; ++i) for (diff_t p = 0; p < want[i]; ++p) if (!comp(seqs[i][p], ev) && !comp(ev, seqs[i][p])) ++eo;
            if (a.thrown || a.v != show_val<Comp>(ev) || eo != a.soff) bad = true;
        } else if (!a.thrown) bad = true;
        if (bad) { ++g_self_fail; out += "!SELF"; }
    }
}

static Seq parse_seq(const std::string& s) {
    Seq r; size_t p = 0;
    while (p < s.size()) {
        size_t q = s.find(',', p); if (q == std::string::npos) q = s.size();
        r.push_back(atoi(s.substr(p, q - p).c_str()));
        p = q + 1;
    }
    return r;
}

static std::vector<Seq> parse_seqs(const std::string& s) {
    std::vector<Seq> r; size_t p = 0;
    if (s == "-") return r;   // no sequence at all
    while (p <= s.size()) {
        size_t q = s.find('|', p); if (q == std::string::npos) q = s.size();
        r.push_back(parse_seq(s.substr(p, q - p)));
        p = q + 1;
    }
    return r;
}

static std::string show_seqs(const std::vector<Seq>& seqs) {
    std::string o; char buf[32];
    if (seqs.empty()) return "-";
    for (size_t i = 0; i < seqs.size(); ++i) {
        if (i) o += "|";
        for (size_t k = 0; k < seqs[i].size(); ++k) { snprintf(buf, sizeof buf, "%s%d", k ? "," : "", seqs[i][k]); o += buf; }
    }
    return o;
}

template <typename Comp>
static void run_tuple(const char* cname, std::vector<Seq>& seqs, diff_t only_rank, bool every_variant, Comp comp) {
    std::string out = cname; out += " "; out += show_seqs(seqs); out += " =>";
    std::string tags;
    Tuple T(seqs);
    g_master = &seqs;
    diff_t N = 0; for (auto& s : seqs) N += static_cast<diff_t>(s.size());
    if (only_rank >= 0) run_rank(seqs, T, only_rank, out, tags, every_variant, comp);
    else for (diff_t r = 0; r <= N; ++r) run_rank(seqs, T, r, out, tags, every_variant, comp);
    out += tags;
    puts(out.c_str());
}

static void dispatch(const std::string& c, std::vector<Seq>& seqs, diff_t only_rank, bool every_variant) {
    if (c == "L") run_tuple("L", seqs, only_rank, every_variant, std::less<int>());
    else if (c == "G") run_tuple("G", seqs, only_rank, every_variant, std::greater<int>());
    else run_tuple("Q", seqs, only_rank, every_variant, QLess());
}

// all non-decreasing sequences over 0..keys-1 with lengths minlen..maxlen, by length then lexicographically
static void gen_sorted(int len, int keys, int from, Seq& cur, std::vector<Seq>& out) {
    if (static_cast<int>(cur.size()) == len) { out.push_back(cur); return; }
    for (int k = from; k < keys; ++k) { cur.push_back(k); gen_sorted(len, keys, k, cur, out); cur.pop_back(); }
}

static void run_exh(const std::string& c, int m, int minlen, int maxlen, int keys, int part, int nparts) {
    std::vector<Seq> pool;
    for (int len = minlen; len <= maxlen; ++len) { Seq cur; gen_sorted(len, keys, 0, cur, pool); }
    if (c == "G") for (auto& s : pool) std::reverse(s.begin(), s.end());
    if (c == "Q") for (auto& s : pool) for (size_t k = 0; k < s.size(); ++k) s[k] = s[k] * 4 + static_cast<int>((k * 7 + s.size()) % 4);
    std::vector<size_t> idx(m, 0);
    for (;;) {
        std::vector<Seq> seqs;
        for (int i = 0; i < m; ++i) seqs.push_back(pool[idx[i]]);
        if (static_cast<int>(idx[0] % static_cast<size_t>(nparts)) == part) dispatch(c, seqs, -1, false);
        int k = m - 1;
        while (k >= 0 && ++idx[k] == pool.size()) { idx[k] = 0; --k; }
        if (k < 0) break;
    }
}

// the specification predicate of partition_correct / check_select on virtual sequences, by probing
template <typename Comp>
static std::string virt_spec(std::vector<VSeq>& vs, long rank, const Answer& a, Comp comp) {
    size_t m = vs.size();
    long N = 0, sum = 0;
    for (auto& q : vs) N += q.n;
    if (a.offs.size() != m) return "shape";
    for (size_t i = 0; i < m; ++i) { if (a.offs[i] < 0 || a.offs[i] > vs[i].n) return "range"; sum += a.offs[i]; }
    if (sum != rank) return "sum";
    auto at = [&](size_t i, long p) { VIt b; b.s = &vs[i]; b.pos = 0; return b[p]; };
    for (size_t i = 0; i < m; ++i)
        for (size_t j = 0; j < m; ++j)
            if (a.offs[i] > 0 && a.offs[j] < vs[j].n) {
                int x = at(i, a.offs[i] - 1), y = at(j, a.offs[j]);
                if (comp(y, x)) return "order";
                if (!comp(x, y) && i > j) return "tie-rule";
            }
    if (rank >= N) return a.thrown ? "" : "no-throw";
    if (a.thrown) return "throw";
    long less = 0, leq = 0;
    for (size_t i = 0; i < m; ++i) {
        VIt b; b.s = &vs[i]; b.pos = 0; VIt e = b; e.pos = vs[i].n;
        less += std::lower_bound(b, e, a.v, comp) - b;
        leq += std::upper_bound(b, e, a.v, comp) - b;
    }
    if (!(less <= rank && rank < leq)) return "selected-value";
    if (a.soff != rank - less) return "selection-offset";
    return "";
}

static void run_virt(const std::string& c, long rank, const std::string& desc, bool narrow_int = false) {
    std::vector<VSeq> vs;
    size_t p = 0;
    while (p <= desc.size()) {
        size_t q = desc.find('|', p); if (q == std::string::npos) q = desc.size();
        std::string one = desc.substr(p, q - p);
        VSeq sq; size_t u = 0;
        while (u < one.size()) {
            size_t w = one.find(',', u); if (w == std::string::npos) w = one.size();
            std::string run = one.substr(u, w - u);
            size_t star = run.find('*');
            sq.start.push_back(sq.n); sq.keys.push_back(atoi(run.substr(0, star).c_str()));
            sq.n += atol(run.substr(star + 1).c_str());
            u = w + 1;
        }
        vs.push_back(sq);
        p = q + 1;
    }
    std::string out = "V" + c + " " + desc + " =>", tags;
    g_virt_oob = 0;
    bool greater = (c == "G");
    Answer a = narrow_int ? run_virtual_a(4, vs, rank) : greater ? run_virtual_b(3, vs, rank) : run_virtual_a(0, vs, rank);
    show_answer(rank, a, out);
    if (!greater && !narrow_int) {
        static const char* const nm[3] = {"", "unsigned-long", "long-long"};
        for (int k = 1; k <= 2; ++k) {
            Answer b = k == 1 ? run_virtual_a(1, vs, rank) : run_virtual_b(2, vs, rank);
            if (!(b == a)) { show_answer(rank, b, out); tags += " #v=virtual/"; tags += nm[k]; }
        }
    }
    std::string why = greater ? virt_spec(vs, rank, a, std::greater<int>()) : virt_spec(vs, rank, a, std::less<int>());
    if (!why.empty()) { out += " !SPEC:"; out += why; }
    if (g_virt_oob) out += " !OUT-OF-RANGE-READ";
    out += tags;
    puts(out.c_str());
}

static void run_sel(const std::string& c, long rank, std::vector<Seq>& seqs) {
    g_sel_only = true;
    std::string out = "S" + c + " " + show_seqs(seqs) + " =>", tags;
    Tuple T(seqs);
    g_master = &seqs;
    if (c == "L") run_rank(seqs, T, rank, out, tags, true, std::less<int>());
    else if (c == "G") run_rank(seqs, T, rank, out, tags, true, std::greater<int>());
    else run_rank(seqs, T, rank, out, tags, true, QLess());
    g_sel_only = false;
    out += tags;
    puts(out.c_str());
}

static void run_narrow_line(const std::string& type, long rank, std::vector<Seq>& seqs) {
    std::string out = "L " + show_seqs(seqs) + " =>";
    Tuple T(seqs);
    g_master = &seqs;
    Answer a = run_narrow(type == "uchar" ? 0 : 1, T, rank);
    show_answer(rank, a, out);
    out += a.note;
    puts(out.c_str());
}

// padded length through every overload of round_up_to_power_of_two
static void run_pad(long long x) {
    char buf[64];
    std::string out = "pad "; snprintf(buf, sizeof buf, "%lld", x); out += buf; out += " =>";
    const long long one = 1;
    auto put = [&](const char* name, bool applicable, unsigned long long val) {
        out += " "; out += name; out += ":";
        if (!applicable) { out += "-"; return; }
        snprintf(buf, sizeof buf, "%llu", val); out += buf;
    };
    put("int", x + 1 <= (one << 30), x + 1 <= (one << 30) ? static_cast<unsigned long long>(tlx::round_up_to_power_of_two(static_cast<int>(x) + 1) - 1) : 0);
    put("uint", x + 1 <= (one << 31), x + 1 <= (one << 31) ? static_cast<unsigned long long>(tlx::round_up_to_power_of_two(static_cast<unsigned int>(x) + 1u) - 1u) : 0);
    put("long", x + 1 <= (one << 62), static_cast<unsigned long long>(tlx::round_up_to_power_of_two(static_cast<long>(x) + 1) - 1));
    put("ulong", true, static_cast<unsigned long long>(tlx::round_up_to_power_of_two(static_cast<unsigned long>(x) + 1ul) - 1ul));
    put("llong", x + 1 <= (one << 62), static_cast<unsigned long long>(tlx::round_up_to_power_of_two(static_cast<long long>(x) + 1) - 1));
    put("ullong", true, static_cast<unsigned long long>(tlx::round_up_to_power_of_two(static_cast<unsigned long long>(x) + 1ull) - 1ull));
    puts(out.c_str());
}

int main(int argc, char** argv) {
    if (argc < 2) { fprintf(stderr, "usage: %s casefile [-s]\n", argv[0]); return 2; }
    g_self = argc > 2 && std::string(argv[2]) == "-s";
    std::ifstream in(argv[1]);
    std::string line;
    while (std::getline(in, line)) {
        std::istringstream ls(line);
        std::string kind, c;
        if (!(ls >> kind)) continue;
        if (kind == "one") {
            long rank; std::string s; ls >> c >> rank >> s;
            std::vector<Seq> seqs = parse_seqs(s);
            dispatch(c, seqs, rank, true);
        } else if (kind == "all") {
            std::string s; ls >> c >> s;
            std::vector<Seq> seqs = parse_seqs(s);
            dispatch(c, seqs, -1, true);
        } else if (kind == "rot") {       // every rank like `all`, but rotating through the variants like `exh`
            std::string s; ls >> c >> s;
            std::vector<Seq> seqs = parse_seqs(s);
            dispatch(c, seqs, -1, false);
        } else if (kind == "exh") {
            int m, lo, hi, keys, part = 0, nparts = 1; ls >> c >> m >> lo >> hi >> keys;
            if (!(ls >> part >> nparts)) { part = 0; nparts = 1; }
            run_exh(c, m, lo, hi, keys, part, nparts);
        } else if (kind == "pad") {
            long long x; ls >> x;
            run_pad(x);
        } else if (kind == "virt" || kind == "virtn") {
            long rank; std::string s; ls >> c >> rank >> s;
            run_virt(c, rank, s, kind == "virtn");
        } else if (kind == "sel") {
            long rank; std::string s; ls >> c >> rank >> s;
            std::vector<Seq> seqs = parse_seqs(s);
            run_sel(c, rank, seqs);
        } else if (kind == "narrow") {
            long rank; std::string t, s; ls >> c >> t >> rank >> s;
            std::vector<Seq> seqs = parse_seqs(s);
            run_narrow_line(t, rank, seqs);
        } else {
            puts("?");
        }
        fflush(stdout);
    }
    std::string vs = "#VARIANTS";
    for (int k = 0; k < NVARIANTS; ++k) { char buf[96]; snprintf(buf, sizeof buf, " %s=%ld", VARIANT_NAME[k], g_variant_calls[k]); vs += buf; }
    puts(vs.c_str());
    if (g_self) fprintf(stderr, "selfcheck failures: %ld\n", g_self_fail);
    return 0;
}
#endif // C08_MAIN
