// C07 correspondence harness: runs the four (stable_)parallel_multiway_merge(_sentinels) entry points of
// /repo on the cases of a case file (real threads) and prints ONE line per case.
//
// case line (whitespace separated integers):
//   entry split p os mwma fseq fpar mink minn size k  len_0 key.. len_1 key.. ... len_{k-1} key..
//   entry: 0 parallel_multiway_merge 1 stable_ 2 _sentinels 3 stable_.._sentinels
//   split: 0 MWMSA_SAMPLING 1 MWMSA_EXACT;  p: num_threads;  os: parallel_multiway_merge_oversampling
//   mwma : layout * 100 + profile * 10 + (0 LOSER_TREE 1 LOSER_TREE_COMBINED 2 LOSER_TREE_SENTINEL 3 BUBBLE); profiles see below
//   fseq/fpar/mink/minn: the four global switches
// Elements are (key, seq, pos) triples compared by key only, so stability is observable.  The memory
// regime of the inputs (own exactly sized heap blocks / one shared buffer / sentinel behind each sequence) is
// described where the inputs are built.  Also: lines "ms stable p split os n key.." run (stable_)parallel_mergesort.
// The output goes through a
// logging random-access iterator over a buffer of exactly `size` elements: every write records the
// writing thread and bumps a per-position counter; a write outside [0,size) is recorded and dropped.
//
// output line:  ret=<r> cur=<c0,c1,..> out=<key:seq:pos,...> win=<start+len,...> w=<verdict> fp=<0|1>
//   win = maximal runs of positions written by one thread, in position order ("?" for the plain-output profiles)
//   w   = ok | multi@<pos> | missing@<pos> | oob<count> | movedout@<pos> (an output element is in a moved-from state)
//         | inputmod@<seq>:<index> (a not yet consumed input element was changed by the call)
//   fp  = 1 iff (sampling) some double-precision sample index differs from the exact integer floor
#include <atomic>
#include <algorithm>
#include <climits>
#include <cstdio>
#include <cstdlib>
#include <deque>
#include <fstream>
#include <iostream>
#include <iterator>
#include <sstream>
#include <string>
#include <thread>
#include <vector>

#include <sys/mman.h>

#include <tlx/algorithm/parallel_multiway_merge.hpp>
#include <tlx/sort/parallel_mergesort.hpp>

// Two element kinds (one binary each):
//  default : 12-byte record (copy-based loser trees)
//  -DC07_FAT: 40-byte record (> 2*sizeof(size_t): pointer-based loser trees) whose key lives in a heap cell it
//             owns; the destructor overwrites the key with INT_MIN and frees the cell, so a comparison with a dead
//             element is a heap-use-after-free for ASan (and would compare smaller than every live key).
#ifdef C07_FAT
struct Elem {
    int* cell;
    int seq, pos;
    long pad[2];
    Elem() : cell(new int(0)), seq(-7), pos(-7), pad{0, 0} {}
    Elem(int k, int s, int p) : cell(new int(k)), seq(s), pos(p), pad{0, 0} {}
    Elem(const Elem& o) : cell(new int(*o.cell)), seq(o.seq), pos(o.pos), pad{0, 0} {}
    Elem& operator=(const Elem& o) { *cell = *o.cell; seq = o.seq; pos = o.pos; return *this; }
    // real move operations that leave the source in an observable moved-from state: key INT_MIN (smaller than every
    // live key), seq = MOVED.  An input element that was moved from shows up as a changed input / as a moved-from output.
    static constexpr int MOVED = -9;
    Elem(Elem&& o) : cell(new int(*o.cell)), seq(o.seq), pos(o.pos), pad{0, 0} { *o.cell = INT_MIN; o.seq = MOVED; }
    Elem& operator=(Elem&& o) {
        if (this != &o) { *cell = *o.cell; seq = o.seq; pos = o.pos; *o.cell = INT_MIN; o.seq = MOVED; }
        return *this;
    }
    ~Elem() { *cell = INT_MIN; delete cell; }
    int key() const { return *cell; }
};
static_assert(sizeof(Elem) > 2 * sizeof(size_t), "fat element must select the pointer loser trees");
#else
struct Elem {
    int key_, seq, pos;
    Elem() : key_(0), seq(-7), pos(-7) {}
    Elem(int k, int s, int p) : key_(k), seq(s), pos(p) {}
    int key() const { return key_; }
};
#endif
struct ByKey {
    bool operator()(const Elem& a, const Elem& b) const { return a.key() < b.key(); }
};

static std::atomic<int> g_next_tid{0};
static int my_tid() {
    thread_local int id = g_next_tid.fetch_add(1, std::memory_order_relaxed);
    return id;
}

struct Shared {
    Elem* buf;
    std::ptrdiff_t size;
    std::atomic<int>* cnt;
    int* who;
    std::atomic<int> oob{0};
};

struct Proxy {
    Shared* sh;
    std::ptrdiff_t pos;
    Proxy& operator=(const Elem& e) {
        if (pos < 0 || pos >= sh->size) {
            sh->oob.fetch_add(1, std::memory_order_relaxed);
            return *this;
        }
        sh->buf[pos] = e;
        sh->who[pos] = my_tid();
        sh->cnt[pos].fetch_add(1, std::memory_order_relaxed);
        return *this;
    }
    Proxy& operator=(const Proxy& o) { return *this = static_cast<Elem>(o); }
    operator Elem() const {
        if (pos < 0 || pos >= sh->size) return Elem{0, -1, -1};
        return sh->buf[pos];
    }
};

struct LogIt {
    using iterator_category = std::random_access_iterator_tag;
    using value_type = Elem;
    using difference_type = std::ptrdiff_t;
    using pointer = Elem*;
    using reference = Proxy;
    Shared* sh = nullptr;
    std::ptrdiff_t pos = 0;
    Proxy operator*() const { return Proxy{sh, pos}; }
    Proxy operator[](std::ptrdiff_t d) const { return Proxy{sh, pos + d}; }
    LogIt& operator++() { ++pos; return *this; }
    LogIt operator++(int) { LogIt t = *this; ++pos; return t; }
    LogIt& operator--() { --pos; return *this; }
    LogIt operator--(int) { LogIt t = *this; --pos; return t; }
    LogIt& operator+=(std::ptrdiff_t d) { pos += d; return *this; }
    LogIt& operator-=(std::ptrdiff_t d) { pos -= d; return *this; }
    LogIt operator+(std::ptrdiff_t d) const { return LogIt{sh, pos + d}; }
    LogIt operator-(std::ptrdiff_t d) const { return LogIt{sh, pos - d}; }
    std::ptrdiff_t operator-(const LogIt& o) const { return pos - o.pos; }
    bool operator==(const LogIt& o) const { return pos == o.pos; }
    bool operator!=(const LogIt& o) const { return pos != o.pos; }
    bool operator<(const LogIt& o) const { return pos < o.pos; }
    bool operator>(const LogIt& o) const { return pos > o.pos; }
    bool operator<=(const LogIt& o) const { return pos <= o.pos; }
    bool operator>=(const LogIt& o) const { return pos >= o.pos; }
};
inline LogIt operator+(std::ptrdiff_t d, const LogIt& i) { return i + d; }

// ---- API-surface profiles (case field mwma = profile * 10 + MWMA constant) -------------------------------------
//  0 seqs: std::vector<pair>::iterator, elements: Elem*, output: logging iterator, comparator: key-only less
//  1 seqs: pair* (raw array),           elements: std::vector<Elem>::iterator, output: Elem* (plain, guard zones)
//  2 seqs: std::deque<pair>::iterator,  elements: std::deque<Elem>::iterator, output: std::vector<Elem>::iterator,
//    comparator: key-only GREATER on keys stored negated (descending inputs)
//  3 as 0 with a stateful, non-default-constructible counting comparator
//  4 as 0 with comp, mwma, mwmsa AND num_threads defaulted (std::less<Elem>, MWMA_ALGORITHM_DEFAULT, MWMSA_DEFAULT,
//    std::thread::hardware_concurrency()); the case file must carry exactly these values (see --hw)
//  5 as 0 with only num_threads defaulted
//  6 as 0 but calling tlx::parallel_multiway_merge_base<Stable> directly (Stable = entry is odd; no switches)
//  (element iterators whose difference_type is not std::ptrdiff_t do not compile: the per-thread call hands
//   std::vector<pair>::iterator to multiway_merge_4_combined, which mixes both difference_types in std::min)
inline bool operator<(const Elem& a, const Elem& b) { return a.key() < b.key(); }
struct ByKeyGreater {
    bool operator()(const Elem& a, const Elem& b) const { return a.key() > b.key(); }
};
struct CountingLess {
    std::atomic<long>* calls;   // shared by the merging threads: atomic, relaxed (no synchronisation added)
    explicit CountingLess(std::atomic<long>* c) : calls(c) {}
    bool operator()(const Elem& a, const Elem& b) const { calls->fetch_add(1, std::memory_order_relaxed); return a.key() < b.key(); }
};
// defaults: 0 = all arguments explicit, 1 = num_threads defaulted, 2 = comp, mwma, mwmsa, num_threads defaulted
template <class SeqIt, class OutIt, class Comp, class Size>
OutIt call_entry(long entry, SeqIt b, SeqIt e, OutIt tgt, Size size, Comp comp, tlx::MultiwayMergeAlgorithm a,
                 tlx::MultiwayMergeSplittingAlgorithm sp, size_t p, int defaults) {
    if (defaults == 2) {
        switch (entry) {
        case 0: return tlx::parallel_multiway_merge(b, e, tgt, size);
        case 1: return tlx::stable_parallel_multiway_merge(b, e, tgt, size);
        case 2: return tlx::parallel_multiway_merge_sentinels(b, e, tgt, size);
        default: return tlx::stable_parallel_multiway_merge_sentinels(b, e, tgt, size);
        }
    }
    if (defaults == 1) {
        switch (entry) {
        case 0: return tlx::parallel_multiway_merge(b, e, tgt, size, comp, a, sp);
        case 1: return tlx::stable_parallel_multiway_merge(b, e, tgt, size, comp, a, sp);
        case 2: return tlx::parallel_multiway_merge_sentinels(b, e, tgt, size, comp, a, sp);
        default: return tlx::stable_parallel_multiway_merge_sentinels(b, e, tgt, size, comp, a, sp);
        }
    }
    switch (entry) {
    case 0: return tlx::parallel_multiway_merge(b, e, tgt, size, comp, a, sp, p);
    case 1: return tlx::stable_parallel_multiway_merge(b, e, tgt, size, comp, a, sp, p);
    case 2: return tlx::parallel_multiway_merge_sentinels(b, e, tgt, size, comp, a, sp, p);
    default: return tlx::stable_parallel_multiway_merge_sentinels(b, e, tgt, size, comp, a, sp, p);
    }
}

struct Outcome {
    const std::vector<std::vector<long>>* keys = nullptr;   // the case's input keys (for the input check)
    bool neg = false;
    std::string inmod;        // first not yet consumed input element that differs from what the case put there ("s:i")
    // after the call: the parts of the inputs behind the cursors must be exactly what the caller stored
    template <class It>
    void check_input(long s, It begin, long cur) {
        if (!inmod.empty() || cur < 0) return;
        const std::vector<long>& ks = (*keys)[static_cast<size_t>(s)];
        for (long i = cur; i < static_cast<long>(ks.size()); ++i) {
            const Elem& e = begin[i];
            long want = neg ? -ks[i] : ks[i];
            if (e.key() != want || e.seq != s || e.pos != i) { inmod = std::to_string(s) + ":" + std::to_string(i); return; }
        }
    }
    long ret = 0;
    std::vector<long> cur;
    bool logged = true;       // windows / exactly-once observable
    long guard_damage = 0;    // plain outputs: guard zone elements changed
};

static const long GUARD = 8;

// run with a plain (non-logging) output iterator made by `mk(Elem* base)`
template <class SeqIt, class OrigVec, class MkOut, class Comp, class Size>
void run_plain(long entry, SeqIt wb, SeqIt we, const OrigVec& orig, std::vector<Elem>& out, MkOut mk, Size size, Comp comp,
               tlx::MultiwayMergeAlgorithm a, tlx::MultiwayMergeSplittingAlgorithm sp, size_t p, Outcome& oc) {
    std::vector<Elem> buf(static_cast<size_t>(size) + 2 * GUARD, Elem{-7, -7, -7});
    auto tgt = mk(buf, GUARD);
    auto ret = call_entry(entry, wb, we, tgt, size, comp, a, sp, p, 0);
    oc.ret = static_cast<long>(ret - tgt);
    oc.logged = false;
    for (long i = 0; i < GUARD; ++i) {
        if (buf[i].seq != -7) ++oc.guard_damage;
        if (buf[GUARD + size + i].seq != -7) ++oc.guard_damage;
    }
    for (long i = 0; i < static_cast<long>(size); ++i) out[i] = buf[GUARD + i];
    long s = 0;
    for (SeqIt it = wb; it != we; ++it, ++s) {
        oc.cur.push_back(static_cast<long>(it->first - orig[s].first));
        oc.check_input(s, orig[s].first, oc.cur.back());
    }
}

using Pair = std::pair<Elem*, Elem*>;
int main(int argc, char** argv) {
    if (argc < 2) { fprintf(stderr, "usage: %s casefile | --hw\n", argv[0]); return 2; }
    if (std::string(argv[1]) == "--hw") { printf("%u\n", std::thread::hardware_concurrency()); return 0; }
    std::ifstream in(argv[1]);
    std::string line;
    while (std::getline(in, line)) {
        if (line.empty() || line[0] == '#') continue;
#ifndef C07_FAT
        if (line.compare(0, 5, "huge ") == 0) {
            // "huge entry split p os mwma size k  L_0 h_0 key.. L_1 h_1 key.. .."  -- HUGE TOTALS: sequence s has L_s elements
            // (up to several 2^30) of type uint8_t in a sparse MAP_NORESERVE mapping; only its first h_s elements are
            // written (value 255 - key, keys ascending 0..254), the rest is the zero page (key 255).  Sorted descending,
            // merged with std::greater<uint8_t>, forced parallel, plain output with guard zones.  Output as keys.
            std::istringstream hs(line.substr(5));
            long entry, split, p, os, mwma, size, k;
            hs >> entry >> split >> p >> os >> mwma >> size >> k;
            using T = uint8_t;
            std::vector<std::pair<T*, T*>> orig;
            std::vector<std::pair<void*, size_t>> maps;
            for (long s = 0; s < k; ++s) {
                long L, h; hs >> L >> h;
                size_t bytes = static_cast<size_t>(L) + 1;
                void* m = mmap(nullptr, bytes, PROT_READ | PROT_WRITE, MAP_PRIVATE | MAP_ANONYMOUS | MAP_NORESERVE, -1, 0);
                if (m == MAP_FAILED) { perror("mmap"); return 3; }
                T* b = static_cast<T*>(m);
                for (long i = 0; i < h; ++i) { long key; hs >> key; b[i] = static_cast<T>(255 - key); }
                maps.push_back({m, bytes});
                orig.push_back({b, b + L});
            }
            tlx::parallel_multiway_merge_force_sequential = false;
            tlx::parallel_multiway_merge_force_parallel = true;
            tlx::parallel_multiway_merge_oversampling = static_cast<size_t>(os);
            std::vector<std::pair<T*, T*>> work(orig);
            std::vector<T> buf(static_cast<size_t>(size) + 2 * GUARD, 0xEE);
            T* tgt = buf.data() + GUARD;
            T* ret = call_entry(entry, work.begin(), work.end(), tgt, static_cast<std::ptrdiff_t>(size), std::greater<T>(),
                                static_cast<tlx::MultiwayMergeAlgorithm>(mwma), static_cast<tlx::MultiwayMergeSplittingAlgorithm>(split),
                                static_cast<size_t>(p), 0);
            long damage = 0;
            for (long i = 0; i < GUARD; ++i) { if (buf[i] != 0xEE) ++damage; if (buf[GUARD + size + i] != 0xEE) ++damage; }
            std::ostringstream o;
            o << "ret=" << (ret - tgt) << " cur=";
            for (long s = 0; s < k; ++s) o << (s ? "," : "") << (work[s].first - orig[s].first);
            o << " out=";
            for (long i = 0; i < size; ++i) o << (i ? "," : "") << (255 - static_cast<int>(tgt[i])) << ":0:0";
            o << " win=? w=" << (damage ? "oob" + std::to_string(damage) : std::string("ok")) << " fp=0";
            puts(o.str().c_str());
            fflush(stdout);
            for (auto& m : maps) munmap(m.first, m.second);
            continue;
        }
#endif
        if (line.compare(0, 3, "ms ") == 0) {
            // "ms stable p split os n key.."  -> (stable_)parallel_mergesort of n elements (key, 0, index)
            std::istringstream ms(line.substr(3));
            long stable, p, split, os, n;
            ms >> stable >> p >> split >> os >> n;
            std::vector<Elem> v;
            v.reserve(static_cast<size_t>(n));
            for (long i = 0; i < n; ++i) { long key; ms >> key; v.push_back(Elem(static_cast<int>(key), 0, static_cast<int>(i))); }
            v.shrink_to_fit();
            tlx::parallel_multiway_merge_oversampling = static_cast<size_t>(os);
            auto sp = static_cast<tlx::MultiwayMergeSplittingAlgorithm>(split);
            if (stable) tlx::stable_parallel_mergesort(v.begin(), v.end(), ByKey(), static_cast<size_t>(p), sp);
            else tlx::parallel_mergesort(v.begin(), v.end(), ByKey(), static_cast<size_t>(p), sp);
            std::ostringstream o;
            o << "ms out=";
            for (long i = 0; i < n; ++i) o << (i ? "," : "") << v[i].key() << ":" << v[i].seq << ":" << v[i].pos;
            puts(o.str().c_str());
            fflush(stdout);
            continue;
        }
        std::istringstream is(line);
        long entry, split, p, os, mwmaf, fseq, fpar, mink, minn, size, k;
        if (!(is >> entry >> split >> p >> os >> mwmaf >> fseq >> fpar >> mink >> minn >> size >> k)) {
            puts("BAD-CASE"); fflush(stdout); continue;
        }
        // mwma field = kind * 1000 + layout * 100 + profile * 10 + MWMA constant (kind: which binary the check feeds the case to)
        long layout = (mwmaf / 100) % 10, profile = (mwmaf / 10) % 10, mwma = mwmaf % 10;   // the thousands digit selects the binary
        const bool neg = (profile == 2);
        // memory regimes.  *_sentinels entry points (entry >= 2): every sequence in its own heap block, followed by
        // the sentinel the caller owes.  Other entry points: NO sentinel; layout 0 = every sequence in its own exactly
        // sized heap block (an overrun is an ASan heap-buffer-overflow), layout 1 = all sequences adjacent in ONE
        // exactly sized buffer (an overrun reads the next sequence's first elements: wrong output).
        const bool with_sentinel = entry >= 2;
        const bool adjacent = !with_sentinel && layout == 1;
        std::vector<std::vector<long>> keys(static_cast<size_t>(k));
        long total = 0;
        for (long s = 0; s < k; ++s) {
            long len; is >> len;
            for (long i = 0; i < len; ++i) { long key; is >> key; keys[s].push_back(key); }
            total += len;
        }
        std::vector<std::vector<Elem>*> store;     // layout 0 / sentinel regime
        std::vector<Elem> big;                     // layout 1
        std::vector<long> off(static_cast<size_t>(k) + 1, 0);
        std::vector<Pair> seqs;
        if (adjacent) {
            big.reserve(static_cast<size_t>(total));
            for (long s = 0; s < k; ++s) {
                off[s] = static_cast<long>(big.size());
                for (size_t i = 0; i < keys[s].size(); ++i) big.push_back(Elem(static_cast<int>(neg ? -keys[s][i] : keys[s][i]), static_cast<int>(s), static_cast<int>(i)));
            }
            off[k] = static_cast<long>(big.size());
            for (long s = 0; s < k; ++s) seqs.push_back(Pair(big.data() + off[s], big.data() + off[s + 1]));
        } else {
            for (long s = 0; s < k; ++s) {
                long len = static_cast<long>(keys[s].size());
                auto* v = new std::vector<Elem>();
                v->reserve(static_cast<size_t>(len + (with_sentinel ? 1 : 0)));
                for (long i = 0; i < len; ++i) v->push_back(Elem(static_cast<int>(neg ? -keys[s][i] : keys[s][i]), static_cast<int>(s), static_cast<int>(i)));
                if (with_sentinel) v->push_back(Elem(neg ? -INT_MAX : INT_MAX, static_cast<int>(s), -1));
                v->shrink_to_fit();
                store.push_back(v);
                seqs.push_back(Pair(v->data(), v->data() + len));
            }
        }
        // does the double-precision sample index of the C++ agree with the exact floor?
        int fp = 0;
        if (split == 0 && total > 0) {
            long nt = p > total ? total : p;
            long ns = nt * os;
            for (long s = 0; s < k; ++s) {
                long len = seqs[s].second - seqs[s].first;
                if (len == 0) continue;
                for (long i = 0; i < ns; ++i) {
                    long d = static_cast<long>(double(len) * (double(i + 1) / double(ns + 1)) * (double(size) / double(total)));
                    long e = static_cast<long>((static_cast<__int128>(len) * (i + 1) * size) / (static_cast<__int128>(ns + 1) * total));
                    if (d != e) fp = 1;
                }
            }
        }
        std::vector<Elem> out(static_cast<size_t>(size > 0 ? size : 0) + 1, Elem{-7, -7, -7});
        std::vector<std::atomic<int>> cnt(static_cast<size_t>(size > 0 ? size : 0) + 1);
        for (auto& c : cnt) c.store(0);
        std::vector<int> who(static_cast<size_t>(size > 0 ? size : 0) + 1, -1);
        Shared sh;
        sh.buf = out.data(); sh.size = size; sh.cnt = cnt.data(); sh.who = who.data();

        tlx::parallel_multiway_merge_force_sequential = fseq != 0;
        tlx::parallel_multiway_merge_force_parallel = fpar != 0;
        tlx::parallel_multiway_merge_minimal_k = static_cast<size_t>(mink);
        tlx::parallel_multiway_merge_minimal_n = static_cast<size_t>(minn);
        tlx::parallel_multiway_merge_oversampling = static_cast<size_t>(os);
        auto a = static_cast<tlx::MultiwayMergeAlgorithm>(mwma);
        auto sp = static_cast<tlx::MultiwayMergeSplittingAlgorithm>(split);
        Outcome oc;
        oc.keys = &keys; oc.neg = neg;
        LogIt tgt{&sh, 0};
        std::atomic<long> comp_calls{0};
        switch (profile) {
        case 1: {   // raw array of pairs over vector iterators, plain pointer output
            using EIt = std::vector<Elem>::iterator;
            std::vector<std::pair<EIt, EIt>> orig;
            for (long s = 0; s < k; ++s) {
                if (adjacent) orig.push_back({big.begin() + off[s], big.begin() + off[s + 1]});
                else orig.push_back({store[s]->begin(), store[s]->begin() + static_cast<long>(keys[s].size())});
            }
            std::vector<std::pair<EIt, EIt>> work(orig);
            auto mk = [](std::vector<Elem>& b, long g) { return b.data() + g; };
            run_plain(entry, work.data(), work.data() + k, orig, out, mk, static_cast<std::ptrdiff_t>(size), ByKey(), a, sp, static_cast<size_t>(p), oc);
            break;
        }
        case 2: {   // deques everywhere, vector-iterator output, greater on negated keys
            using EIt = std::deque<Elem>::iterator;
            std::vector<std::deque<Elem>> dq(static_cast<size_t>(k));
            std::vector<std::pair<EIt, EIt>> orig;
            for (long s = 0; s < k; ++s) {
                dq[s].assign(seqs[s].first, seqs[s].second + (with_sentinel ? 1 : 0));
                orig.push_back({dq[s].begin(), dq[s].begin() + static_cast<long>(keys[s].size())});
            }
            std::deque<std::pair<EIt, EIt>> work(orig.begin(), orig.end());
            auto mk = [](std::vector<Elem>& b, long g) { return b.begin() + g; };
            run_plain(entry, work.begin(), work.end(), orig, out, mk, static_cast<std::ptrdiff_t>(size), ByKeyGreater(), a, sp, static_cast<size_t>(p), oc);
            break;
        }
        default: {
            std::vector<Pair> work(seqs);
            LogIt ret;
            if (profile == 6) {
                if (entry & 1) ret = tlx::parallel_multiway_merge_base<true>(work.begin(), work.end(), tgt, static_cast<std::ptrdiff_t>(size), ByKey(), a, sp, static_cast<size_t>(p));
                else ret = tlx::parallel_multiway_merge_base<false>(work.begin(), work.end(), tgt, static_cast<std::ptrdiff_t>(size), ByKey(), a, sp, static_cast<size_t>(p));
            } else if (profile == 3) ret = call_entry(entry, work.begin(), work.end(), tgt, static_cast<std::ptrdiff_t>(size), CountingLess(&comp_calls), a, sp, static_cast<size_t>(p), 0);
            else ret = call_entry(entry, work.begin(), work.end(), tgt, static_cast<std::ptrdiff_t>(size), ByKey(), a, sp, static_cast<size_t>(p),
                                  profile == 4 ? 2 : profile == 5 ? 1 : 0);
            oc.ret = ret - tgt;
            for (long s = 0; s < k; ++s) {
                oc.cur.push_back(work[s].first - seqs[s].first);
                oc.check_input(s, seqs[s].first, oc.cur.back());
            }
            break;
        }
        }

        std::ostringstream o;
        o << "ret=" << oc.ret << " cur=";
        for (long s = 0; s < k; ++s) o << (s ? "," : "") << oc.cur[s];
        o << " out=";
        for (long i = 0; i < size; ++i) o << (i ? "," : "") << (neg ? -out[i].key() : out[i].key()) << ":" << out[i].seq << ":" << out[i].pos;
        o << " win=";
        std::string verdict = "ok";
        if (oc.logged) {
            bool firstw = true;
            for (long i = 0; i < size;) {
                if (cnt[i].load() == 0) { ++i; continue; }
                long j = i;
                while (j < size && cnt[j].load() != 0 && who[j] == who[i]) ++j;
                o << (firstw ? "" : ",") << i << "+" << (j - i);
                firstw = false;
                i = j;
            }
            if (sh.oob.load() != 0) verdict = "oob" + std::to_string(sh.oob.load());
            else
                for (long i = 0; i < size; ++i) {
                    int c = cnt[i].load();
                    if (c > 1) { verdict = "multi@" + std::to_string(i); break; }
                    if (c == 0) { verdict = "missing@" + std::to_string(i); break; }
                }
        } else {
            o << "?";
            if (oc.guard_damage != 0) verdict = "oob" + std::to_string(oc.guard_damage);
            else
                for (long i = 0; i < size; ++i)
                    if (out[i].seq == -7) { verdict = "missing@" + std::to_string(i); break; }
        }
        if (verdict == "ok") {
            for (long i = 0; i < size; ++i)
                if (out[i].key() == INT_MIN || out[i].seq == -9) { verdict = "movedout@" + std::to_string(i); break; }
        }
        if (verdict == "ok" && !oc.inmod.empty()) verdict = "inputmod@" + oc.inmod;
        o << " w=" << verdict << " fp=" << fp;
        puts(o.str().c_str());
        fflush(stdout);
        for (auto* v : store) delete v;
    }
    return 0;
}
