// C19 correspondence harness: runs the string codecs / helpers of /repo on the cases of a case file and prints
// one canonical line per case (same format as ocaml/C19_driver.ml, without the model-only " | ..." suffix).
// Where tlx offers several overloads of one function (in-place / copying, std::string / string_view /
// const char*, char / string argument) all applicable ones are called; a disagreement is appended as
// " !OVERLOAD:<which>".
#include <cstdint>
#include <sys/mman.h>
#include <cstdio>
#include <deque>
#include <list>
#include <cstdlib>
#include <cstring>
#include <fstream>
#include <iostream>
#include <memory>
#include <algorithm>
#include <sstream>
#include <stdexcept>
#include <string>
#include <vector>

#include <tlx/container/string_view.hpp>
#include <tlx/string/base64.hpp>
#include <tlx/string/compare_icase.hpp>
#include <tlx/string/contains.hpp>
#include <tlx/string/ends_with.hpp>
#include <tlx/string/equal_icase.hpp>
#include <tlx/string/erase_all.hpp>
#include <tlx/string/hexdump.hpp>
#include <tlx/string/join.hpp>
#include <tlx/string/join_generic.hpp>
#include <tlx/string/join_quoted.hpp>
#include <tlx/string/less_icase.hpp>
#include <tlx/string/levenshtein.hpp>
#include <tlx/string/pad.hpp>
#include <tlx/string/replace.hpp>
#include <tlx/string/split.hpp>
#include <tlx/string/split_quoted.hpp>
#include <tlx/string/split_view.hpp>
#include <tlx/string/starts_with.hpp>
#include <tlx/string/to_lower.hpp>
#include <tlx/string/to_upper.hpp>
#include <tlx/string/trim.hpp>

typedef std::string S;
typedef std::vector<std::string> VS;

static int hv(char c) { return c <= '9' ? c - '0' : (c | 32) - 'a' + 10; }
static S unhex(const S& h) {
    if (h == "-") return S();
    S o; for (size_t i = 0; i + 1 < h.size(); i += 2) o += static_cast<char>(hv(h[i]) * 16 + hv(h[i + 1]));
    return o;
}
static S hex(const S& s) {
    if (s.empty()) return "-";
    static const char* d = "0123456789abcdef"; S o;
    for (unsigned char c : s) { o += d[c >> 4]; o += d[c & 15]; }
    return o;
}
static S show(const VS& v) {
    S o = std::to_string(v.size()) + ":";
    for (size_t i = 0; i < v.size(); ++i) { if (i) o += ","; o += hex(v[i]); }
    return o;
}
static size_t limit_of(const S& s) { return s == "npos" ? S::npos : static_cast<size_t>(strtoull(s.c_str(), nullptr, 10)); }
static char byte_of(const S& h) { return unhex(h)[0]; }
static bool no_nul(const S& s) { return s.find('\0') == S::npos; }
static S b2s(bool b) { return b ? "1" : "0"; }
// a string_view over an exactly-sized heap copy, so that ASan sees any read past the end
struct Exact {
    char* p; size_t n;
    explicit Exact(const S& s) : p(new char[s.size() ? s.size() : 1]), n(s.size()) { if (n) memcpy(p, s.data(), n); }
    ~Exact() { delete[] p; }
    Exact(const Exact&) = delete; Exact& operator=(const Exact&) = delete;
    tlx::string_view view() const { return tlx::string_view(p, n); }
};


typedef std::vector<tlx::string_view> VV;
// materialise views; a view that does not lie inside the source buffer is reported, never dereferenced
static bool views_to_strings(const VV& v, const char* base, size_t n, VS& out) {
    out.clear();
    for (const auto& x : v) {
        if (x.size() == 0) { out.push_back(S()); continue; }
        if (x.data() < base || x.size() > n || x.data() + x.size() > base + n) return false;
        out.push_back(S(x.data(), x.size()));
    }
    return true;
}
template <typename F> static S view_check(const VS& expect, bool expect_exc, const char* base, size_t n, F f) {
    try {
        VV v = f(); VS w;
        if (!views_to_strings(v, base, n, w)) return "view outside the source string";
        if (expect_exc) return "no exception";
        return w == expect ? "" : "different parts";
    } catch (const std::exception&) { return expect_exc ? "" : "exception"; }
}

// ---------------------------------------------------------------------------------------------------------
// ALIASING argument mode: the argument VALUES of a call are laid out in ONE exactly-sized heap buffer and passed
// as views into it -- same start with different lengths, same end, one inside the other, overlapping, the very
// same range twice, or (always possible) directly adjacent.  The result must be the one obtained with
// independently allocated arguments; a difference is flagged " !ALIAS:<function>:<layout>".
struct Layout {
    S name; char* buf; size_t n; std::vector<std::pair<size_t, size_t>> pos;
    Layout() : buf(nullptr), n(0) {}
    ~Layout() { delete[] buf; }
    Layout(const Layout&) = delete; Layout& operator=(const Layout&) = delete;
    tlx::string_view v(size_t i) const { return tlx::string_view(buf + pos[i].first, pos[i].second); }
};
typedef std::vector<std::unique_ptr<Layout>> Layouts;
static Layouts layouts(const std::vector<S>& vals) {
    Layouts out;
    std::vector<std::pair<size_t, size_t>> adjacent;
    for (int mode = 0; mode < 4; ++mode) {
        std::unique_ptr<Layout> L(new Layout());
        static const char* names[4] = {"adjacent", "shared-first", "shared-last", "overlap"};
        L->name = names[mode];
        S acc;
        for (const S& v : vals) {
            size_t k = S::npos;
            if (mode == 1 && !v.empty()) k = acc.find(v);
            if (mode == 2 && !v.empty()) k = acc.rfind(v);
            if (mode == 3 && !v.empty()) {
                size_t o = std::min(acc.size(), v.size());
                while (o > 0 && acc.compare(acc.size() - o, o, v, 0, o) != 0) --o;
                k = acc.size() - o; acc += v.substr(o);
            }
            if (v.empty()) k = acc.size() / 2;                       // an empty view somewhere inside
            if (k == S::npos) { k = acc.size(); acc += v; }
            L->pos.push_back(std::make_pair(k, v.size()));
        }
        if (mode == 0) adjacent = L->pos; else if (L->pos == adjacent) continue;
        L->n = acc.size(); L->buf = new char[acc.size() ? acc.size() : 1];
        if (L->n) memcpy(L->buf, acc.data(), L->n);
        out.push_back(std::move(L));
    }
    return out;
}
template <typename F> static void alias_check(std::ostream& out, const char* fn, const std::vector<S>& vals, const S& expect, F f) {
    Layouts ls = layouts(vals);
    for (auto& L : ls) {
        S r; try { r = f(*L); } catch (const std::exception&) { r = "EXC"; }
        if (r != expect) { out << " !ALIAS:" << fn << ":" << L->name; return; }
    }
}
// NUL-terminated variant for the const char* overloads: b must be a suffix of a (same end) -- includes b == a (same pointer)
struct CAlias {
    bool ok; char* buf; const char* a; const char* b; size_t na, nb;
    CAlias(const S& x, const S& y) : ok(false), buf(nullptr), a(nullptr), b(nullptr), na(x.size()), nb(y.size()) {
        if (x.find('\0') != S::npos || y.size() > x.size() || x.compare(x.size() - y.size(), y.size(), y) != 0) return;
        buf = new char[x.size() + 1]; memcpy(buf, x.c_str(), x.size() + 1); a = buf; b = buf + (x.size() - y.size()); ok = true;
    }
    ~CAlias() { delete[] buf; }
    CAlias(const CAlias&) = delete; CAlias& operator=(const CAlias&) = delete;
    tlx::string_view va() const { return tlx::string_view(a, na); }
    tlx::string_view vb() const { return tlx::string_view(b, nb); }
};
// in-place functions whose read-only arguments are views INTO the string being modified: the values are located in
// a copy of s with spare capacity (no reallocation, so the views stay inside live storage)
static bool find_in(const S& t, const S& v, bool last, tlx::string_view* out) {
    if (v.empty()) { *out = tlx::string_view(t.data(), static_cast<size_t>(0)); return true; }
    size_t k = last ? t.rfind(v) : t.find(v);
    if (k == S::npos) return false;
    *out = tlx::string_view(t.data() + k, v.size()); return true;
}

// a user-supplied parameter struct for levenshtein_algorithm<>: other costs, coarser character equality
struct WeightedParam {
    static const unsigned int cost_insert_delete = 2;
    static const unsigned int cost_replace = 3;
    static bool char_equal(const char& a, const char& b) { return (a | 0x20) == (b | 0x20); }
};

static VS parts_of(std::istringstream& in) {
    size_t n; in >> n; VS v; S t;
    for (size_t i = 0; i < n; ++i) { in >> t; v.push_back(unhex(t)); }
    return v;
}

template <typename F> static S guard(F f) {
    try { return f(); } catch (const std::exception&) { return "EXC"; }
}

// ---------------------------------------------------------------------------------------------------------
// HUGE sizes: views of 2^31-1 .. 2^32+1 bytes over ONE sparse MAP_NORESERVE mapping of zero bytes; a few bytes at the
// start (head) and at the end (tail) are written for the case and cleared afterwards.  Only helpers that touch O(1)
// bytes at the ends are called (no scan, no allocation of the size of the view): any narrowing of a size / position /
// size difference to int or 32 bits changes their answer.
static const size_t HUGE_TOTAL = (size_t(1) << 32) + 65536;
static char* huge_map() {
    static char* m = [] {
        void* p = mmap(nullptr, HUGE_TOTAL, PROT_READ | PROT_WRITE, MAP_PRIVATE | MAP_ANONYMOUS | MAP_NORESERVE, -1, 0);
        return p == MAP_FAILED ? static_cast<char*>(nullptr) : static_cast<char*>(p);
    }();
    return m;
}
static S vdims(const char* base, tlx::string_view v) { return std::to_string(v.data() - base) + ":" + std::to_string(v.size()); }
static S run_huge(std::istringstream& in) {
    size_t n, padlen; S hh, ht, hm, hd; in >> n >> hh >> ht >> hm >> hd >> padlen;
    S head = unhex(hh), tail = unhex(ht), m = unhex(hm), d = unhex(hd);
    char* base = huge_map();
    if (!base || n + 1 > HUGE_TOTAL || head.size() + tail.size() > n) return "unavailable";
    memcpy(base, head.data(), head.size()); memcpy(base + n - tail.size(), tail.data(), tail.size());
    std::ostringstream out;
    {
        tlx::string_view V(base, n), V1(base + 1, n - 1);
        Exact xm(m), xd(d); tlx::string_view M = xm.view(), D = xd.view();
        bool sw = tlx::starts_with(V, M), swi = tlx::starts_with_icase(V, M), ew = tlx::ends_with(V, M), ewi = tlx::ends_with_icase(V, M);
        bool rsw = tlx::starts_with(M, V), rswi = tlx::starts_with_icase(M, V), rew = tlx::ends_with(M, V), rewi = tlx::ends_with_icase(M, V);
        out << "sw=" << b2s(sw) << " swi=" << b2s(swi) << " ew=" << b2s(ew) << " ewi=" << b2s(ewi)
            << " rsw=" << b2s(rsw) << " rswi=" << b2s(rswi) << " rew=" << b2s(rew) << " rewi=" << b2s(rewi);
        int c1 = tlx::compare_icase(V, M), c2 = tlx::compare_icase(M, V), c3 = tlx::compare_icase(V, V1), c4 = tlx::compare_icase(V1, V);
        bool e1 = tlx::equal_icase(V, M), e2 = tlx::equal_icase(M, V), e3 = tlx::equal_icase(V, V1);
        bool l1 = tlx::less_icase(V, M), l2 = tlx::less_icase(M, V), l3 = tlx::less_icase(V, V1), l4 = tlx::less_icase(V1, V);
        out << " cmp=" << c1 << " eq=" << b2s(e1) << " lt=" << b2s(l1) << " rcmp=" << c2 << " req=" << b2s(e2) << " rlt=" << b2s(l2)
            << " scmp=" << c3 << "," << c4 << " seq=" << b2s(e3) << " slt=" << b2s(l3) << "," << b2s(l4);
        tlx::string_view tl = tlx::trim_left(V, D), tr = tlx::trim_right(V, D), tt = tlx::trim(V, D);
        out << " tl=" << vdims(base, tl) << " tr=" << vdims(base, tr) << " t=" << vdims(base, tt);
        out << " pad=" << hex(tlx::pad(V, padlen, '.'));
        // the other forms of the same functions
        if (no_nul(m)) {
            if (tlx::ends_with(V, m.c_str()) != ew || tlx::ends_with_icase(V, m.c_str()) != ewi) out << " !OVERLOAD:ends_with(string_view,const char*)";
            if (tlx::ends_with(m.c_str(), V) != rew || tlx::ends_with_icase(m.c_str(), V) != rewi) out << " !OVERLOAD:ends_with(const char*,string_view)";
            if (tlx::compare_icase(V, m.c_str()) != c1 || tlx::compare_icase(m.c_str(), V) != c2) out << " !OVERLOAD:compare_icase(const char*)";
            if (tlx::equal_icase(m.c_str(), V) != e2 || tlx::equal_icase(V, m.c_str()) != e1) out << " !OVERLOAD:equal_icase(const char*)";
            if (tlx::less_icase(V, m.c_str()) != l1 || tlx::less_icase(m.c_str(), V) != l2) out << " !OVERLOAD:less_icase(const char*)";
        }
        { tlx::string_view a = V, b = V, c = V; tlx::trim_left(&a, D); tlx::trim_right(&b, D); tlx::trim(&c, D);
          if (vdims(base, a) != vdims(base, tl) || vdims(base, b) != vdims(base, tr) || vdims(base, c) != vdims(base, tt)) out << " !OVERLOAD:trim(string_view*)"; }
        if (d.size() == 1) {
            tlx::string_view a = V, b = V, c = V; tlx::trim_left(&a, d[0]); tlx::trim_right(&b, d[0]); tlx::trim(&c, d[0]);
            if (vdims(base, a) != vdims(base, tl) || vdims(base, b) != vdims(base, tr) || vdims(base, c) != vdims(base, tt) ||
                vdims(base, tlx::trim_left(V, d[0])) != vdims(base, tl) || vdims(base, tlx::trim_right(V, d[0])) != vdims(base, tr) || vdims(base, tlx::trim(V, d[0])) != vdims(base, tt))
                out << " !OVERLOAD:trim(char)";
        }
        if (d == " \r\n\t") {
            tlx::string_view a = V, b = V, c = V; tlx::trim_left(&a); tlx::trim_right(&b); tlx::trim(&c);
            if (vdims(base, a) != vdims(base, tl) || vdims(base, b) != vdims(base, tr) || vdims(base, c) != vdims(base, tt) ||
                vdims(base, tlx::trim_left(V)) != vdims(base, tl) || vdims(base, tlx::trim_right(V)) != vdims(base, tr) || vdims(base, tlx::trim(V)) != vdims(base, tt))
                out << " !OVERLOAD:trim()";
        }
        if (tlx::pad(V, padlen) != tlx::pad(V, padlen, ' ')) out << " !OVERLOAD:pad(default pad_char)";
    }
    memset(base, 0, head.size()); memset(base + n - tail.size(), 0, tail.size());
    return out.str();
}

static S run_case(const S& line) {
    std::istringstream in(line);
    S op; in >> op;
    std::ostringstream out, py;      // py: results judged by the Python side only (appended after " ## ")
    if (op == "huge") return run_huge(in);
    if (op == "b64") {
        S hs; size_t lb; in >> hs >> lb; S s = unhex(hs); Exact xs(s);
        S e = tlx::base64_encode(xs.view(), lb);
        S e2 = tlx::base64_encode(xs.p, xs.n, lb);
        Exact xe(e);
        out << "enc=" << hex(e) << " decs=" << guard([&] { return hex(tlx::base64_decode(xe.view(), true)); })
            << " decn=" << guard([&] { return hex(tlx::base64_decode(xe.view(), false)); });
        if (e2 != e) out << " !OVERLOAD:base64_encode(void*)";
        if (lb == 0 && (tlx::base64_encode(xs.view()) != e || tlx::base64_encode(xs.p, xs.n) != e)) out << " !OVERLOAD:base64_encode(default line_break)";
        S dv = guard([&] { return hex(tlx::base64_decode(xe.p, xe.n, true)); }), dvn = guard([&] { return hex(tlx::base64_decode(xe.p, xe.n, false)); });
        S dd = guard([&] { return hex(tlx::base64_decode(xe.view())); }), ddv = guard([&] { return hex(tlx::base64_decode(xe.p, xe.n)); });
        S ds = guard([&] { return hex(tlx::base64_decode(xe.view(), true)); }), dn = guard([&] { return hex(tlx::base64_decode(xe.view(), false)); });
        if (dv != ds || dvn != dn) out << " !OVERLOAD:base64_decode(void*)";
        if (dd != ds || ddv != ds) out << " !OVERLOAD:base64_decode(default strict)";
    } else if (op == "b64d") {
        S hs; int strict; in >> hs >> strict; S s = unhex(hs); Exact xs(s);
        S r = guard([&] { return hex(tlx::base64_decode(xs.view(), strict != 0)); });
        out << "out=" << r;
        if (guard([&] { return hex(tlx::base64_decode(xs.p, xs.n, strict != 0)); }) != r) out << " !OVERLOAD:base64_decode(void*)";
        if (strict && (guard([&] { return hex(tlx::base64_decode(xs.view())); }) != r || guard([&] { return hex(tlx::base64_decode(xs.p, xs.n)); }) != r)) out << " !OVERLOAD:base64_decode(default strict)";
    } else if (op == "hex") {
        S hs; in >> hs; S s = unhex(hs); Exact xs(s);
        S u = tlx::hexdump(xs.view()), l = tlx::hexdump_lc(xs.view());
        std::vector<char> vc(s.begin(), s.end()); std::vector<std::uint8_t> vu(s.begin(), s.end());
        Exact xu(u), xl(l);
        out << "uc=" << hex(u) << " lc=" << hex(l) << " puc=" << guard([&] { return hex(tlx::parse_hexdump(xu.view())); })
            << " plc=" << guard([&] { return hex(tlx::parse_hexdump(xl.view())); });
        if (tlx::hexdump(vc) != u || tlx::hexdump(vu) != u || tlx::hexdump(xs.p, xs.n) != u) out << " !OVERLOAD:hexdump";
        if (tlx::hexdump_lc(vc) != l || tlx::hexdump_lc(vu) != l || tlx::hexdump_lc(xs.p, xs.n) != l) out << " !OVERLOAD:hexdump_lc";
        if (s.size() == 1) { std::uint8_t t; memcpy(&t, s.data(), 1); if (tlx::hexdump_type(t) != u || tlx::hexdump_lc_type(t) != l) out << " !OVERLOAD:hexdump_type<uint8_t>"; }
        if (s.size() == 2) { std::uint16_t t; memcpy(&t, s.data(), 2); if (tlx::hexdump_type(t) != u || tlx::hexdump_lc_type(t) != l) out << " !OVERLOAD:hexdump_type<uint16_t>"; }
        if (s.size() == 4) { std::uint32_t t; memcpy(&t, s.data(), 4); if (tlx::hexdump_type(t) != u || tlx::hexdump_lc_type(t) != l) out << " !OVERLOAD:hexdump_type<uint32_t>"; }
        if (s.size() == 8) { std::uint64_t t; memcpy(&t, s.data(), 8); if (tlx::hexdump_type(t) != u || tlx::hexdump_lc_type(t) != l) out << " !OVERLOAD:hexdump_type<uint64_t>"; }
        if (s.size() == 12) { struct { unsigned char b[12]; } t; memcpy(&t, s.data(), 12); if (tlx::hexdump_type(t) != u || tlx::hexdump_lc_type(t) != l) out << " !OVERLOAD:hexdump_type<struct>"; }
        // Python-only part (no Coq model): hexdump_sourcecode with an explicit and with the default variable name
        py << " src=" << hex(tlx::hexdump_sourcecode(xs.view(), "v")) << " srcn=" << hex(tlx::hexdump_sourcecode(xs.view()));
    } else if (op == "phex") {
        S hs; in >> hs; S s = unhex(hs); Exact xs(s);
        out << "out=" << guard([&] { return hex(tlx::parse_hexdump(xs.view())); });
    } else if (op == "splc" || op == "splcm") {
        S hsep, hs, lim; size_t mn = 0; in >> hsep >> hs; if (op == "splcm") in >> mn; in >> lim;
        S s = unhex(hs); Exact xs(s); char sep = byte_of(hsep);
        out << guard([&] {
            VS v = op == "splcm" ? tlx::split(sep, xs.view(), mn, limit_of(lim)) : tlx::split(sep, xs.view(), limit_of(lim));
            VS w; w.push_back("junk");
            if (op == "splcm") tlx::split(&w, sep, xs.view(), mn, limit_of(lim)); else tlx::split(&w, sep, xs.view(), limit_of(lim));
            S flags = v == w ? "" : " !OVERLOAD:split(into)";
            if (lim == "npos" && op == "splc") { VS d1 = tlx::split(sep, xs.view()); VS d2; d2.push_back("junk"); tlx::split(&d2, sep, xs.view()); if (d1 != v || d2 != v) flags += " !OVERLOAD:split(char,default limit)"; }
            return show(v) + flags;
        });
        {   // split_view, all char-separator overloads: same parts as split()
            VS expect; bool exc = false; try { expect = op == "splcm" ? tlx::split(sep, xs.view(), mn, limit_of(lim)) : tlx::split(sep, xs.view(), limit_of(lim)); } catch (const std::exception&) { exc = true; }
            size_t L = limit_of(lim); S why;
            if (op == "splcm") {
                why = view_check(expect, exc, xs.p, xs.n, [&] { return tlx::split_view(sep, xs.view(), mn, L); });
                if (why.empty()) why = view_check(expect, exc, xs.p, xs.n, [&] { VV w; w.resize(2); tlx::split_view(&w, sep, xs.view(), mn, L); return w; });
            } else {
                why = view_check(expect, exc, xs.p, xs.n, [&] { return tlx::split_view(sep, xs.view(), L); });
                if (why.empty()) why = view_check(expect, exc, xs.p, xs.n, [&] { VV w; w.resize(2); tlx::split_view(&w, sep, xs.view(), L); return w; });
                if (why.empty() && lim == "npos") why = view_check(expect, exc, xs.p, xs.n, [&] { return tlx::split_view(sep, xs.view()); });
                if (why.empty() && lim == "npos") why = view_check(expect, exc, xs.p, xs.n, [&] { VV w; tlx::split_view(&w, sep, xs.view()); return w; });
            }
            if (!why.empty()) out << " !OVERLOAD:split_view(char):" << why;
        }
    } else if (op == "spls" || op == "splsm") {
        S hsep, hs, lim; size_t mn = 0; in >> hsep >> hs; if (op == "splsm") in >> mn; in >> lim;
        S s = unhex(hs), sep = unhex(hsep); Exact xs(s), xsep(sep);
        out << guard([&] {
            VS v = op == "splsm" ? tlx::split(xsep.view(), xs.view(), mn, limit_of(lim)) : tlx::split(xsep.view(), xs.view(), limit_of(lim));
            VS w; w.push_back("junk");
            if (op == "splsm") tlx::split(&w, xsep.view(), xs.view(), mn, limit_of(lim)); else tlx::split(&w, xsep.view(), xs.view(), limit_of(lim));
            S flags = v == w ? "" : " !OVERLOAD:split(into)";
            if (lim == "npos" && op == "spls") { VS d1 = tlx::split(xsep.view(), xs.view()); VS d2; d2.push_back("junk"); tlx::split(&d2, xsep.view(), xs.view()); if (d1 != v || d2 != v) flags += " !OVERLOAD:split(string,default limit)"; }
            return show(v) + flags;
        });
        {   // split_view, all string-separator overloads: same parts as split()
            VS expect; bool exc = false; try { expect = op == "splsm" ? tlx::split(xsep.view(), xs.view(), mn, limit_of(lim)) : tlx::split(xsep.view(), xs.view(), limit_of(lim)); } catch (const std::exception&) { exc = true; }
            size_t L = limit_of(lim); S why;
            if (op == "splsm") {
                why = view_check(expect, exc, xs.p, xs.n, [&] { return tlx::split_view(xsep.view(), xs.view(), mn, L); });
                if (why.empty()) why = view_check(expect, exc, xs.p, xs.n, [&] { VV w; w.resize(2); tlx::split_view(&w, xsep.view(), xs.view(), mn, L); return w; });
            } else {
                why = view_check(expect, exc, xs.p, xs.n, [&] { return tlx::split_view(xsep.view(), xs.view(), L); });
                if (why.empty()) why = view_check(expect, exc, xs.p, xs.n, [&] { VV w; w.resize(2); tlx::split_view(&w, xsep.view(), xs.view(), L); return w; });
                if (why.empty() && lim == "npos") why = view_check(expect, exc, xs.p, xs.n, [&] { return tlx::split_view(xsep.view(), xs.view()); });
                if (why.empty() && lim == "npos") why = view_check(expect, exc, xs.p, xs.n, [&] { VV w; tlx::split_view(&w, xsep.view(), xs.view()); return w; });
            }
            if (!why.empty()) out << " !OVERLOAD:split_view(string):" << why;
        }
        {   // aliasing: separator and text are views of one buffer
            S expect = guard([&] { return show(op == "splsm" ? tlx::split(xsep.view(), xs.view(), mn, limit_of(lim)) : tlx::split(xsep.view(), xs.view(), limit_of(lim))); });
            size_t L = limit_of(lim);
            alias_check(out, "split(string)", {s, sep}, expect, [&](const Layout& l) {
                VS w; w.push_back("junk");
                if (op == "splsm") { tlx::split(&w, l.v(1), l.v(0), mn, L); return show(tlx::split(l.v(1), l.v(0), mn, L)) + (w == tlx::split(l.v(1), l.v(0), mn, L) ? "" : "?into"); }
                tlx::split(&w, l.v(1), l.v(0), L); return show(tlx::split(l.v(1), l.v(0), L)) + (w == tlx::split(l.v(1), l.v(0), L) ? "" : "?into"); });
            alias_check(out, "split_view(string)", {s, sep}, expect, [&](const Layout& l) {
                VV v = op == "splsm" ? tlx::split_view(l.v(1), l.v(0), mn, L) : tlx::split_view(l.v(1), l.v(0), L);
                VS w; if (!views_to_strings(v, l.buf, l.n, w)) return S("view outside the buffer"); return show(w); });
        }
    } else if (op == "joinc") {
        S hsep; in >> hsep; char sep = byte_of(hsep); VS parts = parts_of(in);
        S j = tlx::join(sep, parts); Exact xj(j);
        out << "j=" << hex(j) << " s=" << guard([&] { return show(tlx::split(sep, xj.view())); });
        std::list<S> pl(parts.begin(), parts.end()); std::deque<S> pd(parts.begin(), parts.end());
        if (tlx::join(sep, pl.begin(), pl.end()) != j || tlx::join(sep, parts.begin(), parts.end()) != j) out << " !OVERLOAD:join(char,first,last)";
        if (tlx::join(sep, pl) != j || tlx::join(sep, pd) != j) out << " !OVERLOAD:join(char,Container)";
    } else if (op == "joins") {
        S hsep; in >> hsep; S sep = unhex(hsep); VS parts = parts_of(in); Exact xsep(sep);
        S j = tlx::join(xsep.view(), parts); Exact xj(j);
        out << "j=" << hex(j) << " s=" << guard([&] { return show(tlx::split(xsep.view(), xj.view())); });
        if (no_nul(sep) && tlx::join(sep.c_str(), parts) != j) out << " !OVERLOAD:join(const char*)";
        std::list<S> pl(parts.begin(), parts.end()); std::deque<S> pd(parts.begin(), parts.end());
        if (tlx::join(xsep.view(), pl.begin(), pl.end()) != j || tlx::join(sep, parts.begin(), parts.end()) != j) out << " !OVERLOAD:join(string,first,last)";
        if (no_nul(sep) && tlx::join(sep.c_str(), pl.begin(), pl.end()) != j) out << " !OVERLOAD:join(const char*,first,last)";
        if (tlx::join(xsep.view(), pl) != j || tlx::join(xsep.view(), pd) != j) out << " !OVERLOAD:join(string_view,Container)";
        for (size_t i = 0; i < parts.size(); ++i) {          // aliasing: the separator object is (part of) an element of the vector
            size_t k = sep.empty() ? S::npos : parts[i].find(sep);
            if (k == S::npos) continue;
            tlx::string_view g(parts[i].data() + k, sep.size());
            if (tlx::join(g, parts) != j || tlx::join(g, parts.begin(), parts.end()) != j || tlx::join(g, pl.begin(), pl.end()) != j) out << " !ALIAS:join(string_view glue inside parts)";
            if (parts[i] == sep && (tlx::join(tlx::string_view(parts[i]), parts) != j || tlx::join(parts[i], parts.begin(), parts.end()) != j ||
                                    (no_nul(sep) && tlx::join(parts[i].c_str(), parts) != j))) out << " !ALIAS:join(parts[i], parts)";
            break;
        }
    } else if (op == "jq") {
        S a, b, c; in >> a >> b >> c; char sep = byte_of(a), q = byte_of(b), e = byte_of(c); VS parts = parts_of(in);
        S j = tlx::join_quoted(parts, sep, q, e); Exact xj(j);
        out << "j=" << hex(j) << " s=" << guard([&] { return show(tlx::split_quoted(xj.view(), sep, q, e)); });
        if (sep == ' ' && q == '"' && e == '\\' && tlx::join_quoted(parts) != j) out << " !OVERLOAD:join_quoted()";
    } else if (op == "sq") {
        S a, b, c, hs; in >> a >> b >> c >> hs; char sep = byte_of(a), q = byte_of(b), e = byte_of(c); S s = unhex(hs); Exact xs(s);
        S r = guard([&] { return show(tlx::split_quoted(xs.view(), sep, q, e)); });
        out << r;
        if (sep == ' ' && q == '"' && e == '\\' && guard([&] { return show(tlx::split_quoted(xs.view())); }) != r) out << " !OVERLOAD:split_quoted()";
    } else if (op == "rep1" || op == "repa") {
        S hs, hn, hi; in >> hs >> hn >> hi; S s = unhex(hs), nd = unhex(hn), ins = unhex(hi); Exact xs(s), xn(nd), xi(ins);
        S r, t = s;
        if (op == "rep1") { r = tlx::replace_first(xs.view(), xn.view(), xi.view()); tlx::replace_first(&t, xn.view(), xi.view()); }
        else { r = tlx::replace_all(xs.view(), xn.view(), xi.view()); tlx::replace_all(&t, xn.view(), xi.view()); }
        out << hex(r); if (t != r) out << " !OVERLOAD:in-place";
        alias_check(out, op == "rep1" ? "replace_first" : "replace_all", {s, nd, ins}, hex(r), [&](const Layout& l) {
            return hex(op == "rep1" ? tlx::replace_first(l.v(0), l.v(1), l.v(2)) : tlx::replace_all(l.v(0), l.v(1), l.v(2))); });
        {   // output = input: the result is assigned back to the string the views refer to
            S u = s; u = op == "rep1" ? tlx::replace_first(tlx::string_view(u), xn.view(), xi.view()) : tlx::replace_all(tlx::string_view(u), xn.view(), xi.view());
            if (u != r) out << " !ALIAS:s=replace(s)";
        }
        for (int last = 0; last < 2; ++last) {   // in-place, needle / instead are views into *str
            S u = s; u.reserve(u.size() * (ins.size() + 1) + 64);
            tlx::string_view vn, vi;
            bool an = !nd.empty() && find_in(u, nd, last != 0, &vn), ai = !ins.empty() && find_in(u, ins, last == 0, &vi);
            if (!an && !ai) continue;                    // at least one of the two is a view into *str, the other one may be independent
            if (!an) vn = xn.view();
            if (!ai) vi = xi.view();
            if (op == "rep1") { tlx::replace_first(&u, vn, vi); if (u != r) { out << " !ALIAS:replace_first(&s, views of s)"; break; } }
            else { tlx::replace_all(&u, vn, vi); if (u != r) { py << " aobs=replace_all(&s,views_of_s)"; break; } }
        }
    } else if (op == "rep1c" || op == "repac") {
        S hs, a, b; in >> hs >> a >> b; S s = unhex(hs); Exact xs(s); char x = byte_of(a), y = byte_of(b);
        S r, t = s;
        if (op == "rep1c") { r = tlx::replace_first(xs.view(), x, y); tlx::replace_first(&t, x, y); }
        else { r = tlx::replace_all(xs.view(), x, y); tlx::replace_all(&t, x, y); }
        out << hex(r); if (t != r) out << " !OVERLOAD:in-place";
    } else if (op == "trim") {
        S hs, hd; in >> hs >> hd; S s = unhex(hs), d = unhex(hd); Exact xs(s), xd(d);
        S ti = s; tlx::trim(&ti, xd.view());
        tlx::string_view tv = xs.view(); tlx::trim(&tv, xd.view());
        S tc = tlx::trim(xs.view(), xd.view()).to_string();
        S l = s; tlx::trim_left(&l, xd.view());
        tlx::string_view lv = xs.view(); tlx::trim_left(&lv, xd.view());
        S lc = tlx::trim_left(xs.view(), xd.view()).to_string();
        S r = s; tlx::trim_right(&r, xd.view());
        tlx::string_view rv = xs.view(); tlx::trim_right(&rv, xd.view());
        S rc = tlx::trim_right(xs.view(), xd.view()).to_string();
        out << "ti=" << hex(ti) << " tc=" << hex(tc) << " l=" << hex(l) << " r=" << hex(r);
        if (tv.to_string() != ti) out << " !OVERLOAD:trim(string_view*)";
        if (lv.to_string() != l || lc != l) out << " !OVERLOAD:trim_left";
        if (rv.to_string() != r || rc != r) out << " !OVERLOAD:trim_right";
        {   // aliasing: text and drop set are views of one buffer (copying and string_view* versions)
            S expect = hex(tc) + "/" + hex(l) + "/" + hex(r);
            alias_check(out, "trim/trim_left/trim_right(string_view)", {s, d}, expect, [&](const Layout& y) {
                return hex(tlx::trim(y.v(0), y.v(1)).to_string()) + "/" + hex(tlx::trim_left(y.v(0), y.v(1)).to_string()) + "/" + hex(tlx::trim_right(y.v(0), y.v(1)).to_string()); });
            alias_check(out, "trim/trim_left/trim_right(string_view*)", {s, d}, expect, [&](const Layout& y) {
                tlx::string_view a = y.v(0), b = y.v(0), c = y.v(0); tlx::trim(&a, y.v(1)); tlx::trim_left(&b, y.v(1)); tlx::trim_right(&c, y.v(1));
                return hex(a.to_string()) + "/" + hex(b.to_string()) + "/" + hex(c.to_string()); });
            // output = input: s = trim(s)
            S u = s; { tlx::string_view w = tlx::trim(tlx::string_view(u), xd.view()); u.assign(w.data(), w.size()); } if (u != tc) out << " !ALIAS:s=trim(s)";
            S u2 = s; { tlx::string_view w = tlx::trim_left(tlx::string_view(u2), xd.view()); u2 = S(w.data(), w.size()); } if (u2 != l) out << " !ALIAS:s=trim_left(s)";
            // in-place std::string*, the drop set a view INTO the string
            for (int last = 0; last < 2; ++last) {
                S a = s, b = s, c = s; tlx::string_view va, vb, vc;
                if (d.empty() || !find_in(a, d, last != 0, &va) || !find_in(b, d, last != 0, &vb) || !find_in(c, d, last != 0, &vc)) continue;
                tlx::trim_left(&b, vb); if (b != l) { out << " !ALIAS:trim_left(&s, view of s)"; break; }
                tlx::trim_right(&c, vc); if (c != r) { out << " !ALIAS:trim_right(&s, view of s)"; break; }
                tlx::trim(&a, va); if (a != ti) { py << " aobs=trim(&s,view_of_s)"; break; }
            }
        }
        if (d.size() == 1) {
            char c = d[0];
            S a = s; tlx::trim(&a, c); tlx::string_view av = xs.view(); tlx::trim(&av, c);
            if (a != ti || av.to_string() != ti || tlx::trim(xs.view(), c).to_string() != tc) out << " !OVERLOAD:trim(char)";
            S b = s; tlx::trim_left(&b, c); tlx::string_view bv = xs.view(); tlx::trim_left(&bv, c);
            if (b != l || bv.to_string() != l || tlx::trim_left(xs.view(), c).to_string() != l) out << " !OVERLOAD:trim_left(char)";
            S e = s; tlx::trim_right(&e, c); tlx::string_view ev = xs.view(); tlx::trim_right(&ev, c);
            if (e != r || ev.to_string() != r || tlx::trim_right(xs.view(), c).to_string() != r) out << " !OVERLOAD:trim_right(char)";
        }
        if (d == " \r\n\t") {
            S a = s; tlx::trim(&a); tlx::string_view av = xs.view(); tlx::trim(&av);
            if (a != ti || av.to_string() != ti || tlx::trim(xs.view()).to_string() != tc) out << " !OVERLOAD:trim()";
            S b = s; tlx::trim_left(&b); tlx::string_view bv = xs.view(); tlx::trim_left(&bv);
            if (b != l || bv.to_string() != l || tlx::trim_left(xs.view()).to_string() != l) out << " !OVERLOAD:trim_left()";
            S e = s; tlx::trim_right(&e); tlx::string_view ev = xs.view(); tlx::trim_right(&ev);
            if (e != r || ev.to_string() != r || tlx::trim_right(xs.view()).to_string() != r) out << " !OVERLOAD:trim_right()";
        }
    } else if (op == "sw") {
        S hs, hm; in >> hs >> hm; S s = unhex(hs), m = unhex(hm); Exact xs(s), xm(m);
        bool sw = tlx::starts_with(xs.view(), xm.view()), swi = tlx::starts_with_icase(xs.view(), xm.view());
        bool ew = tlx::ends_with(xs.view(), xm.view()), ewi = tlx::ends_with_icase(xs.view(), xm.view());
        bool c = tlx::contains(xs.view(), xm.view());
        out << "sw=" << b2s(sw) << " swi=" << b2s(swi) << " ew=" << b2s(ew) << " ewi=" << b2s(ewi) << " c=" << b2s(c);
        {
            S expect = out.str();
            alias_check(out, "starts_with/ends_with/contains", {s, m}, expect, [&](const Layout& y) {
                return "sw=" + b2s(tlx::starts_with(y.v(0), y.v(1))) + " swi=" + b2s(tlx::starts_with_icase(y.v(0), y.v(1))) + " ew=" + b2s(tlx::ends_with(y.v(0), y.v(1))) +
                       " ewi=" + b2s(tlx::ends_with_icase(y.v(0), y.v(1))) + " c=" + b2s(tlx::contains(y.v(0), y.v(1))); });
            CAlias ca(s, m);            // m a suffix of s: both C strings end at the same NUL
            if (ca.ok && no_nul(s) && (tlx::ends_with(ca.a, ca.b) != ew || tlx::ends_with(ca.a, ca.vb()) != ew || tlx::ends_with(ca.va(), ca.b) != ew ||
                          tlx::ends_with_icase(ca.a, ca.b) != ewi || tlx::ends_with_icase(ca.a, ca.vb()) != ewi || tlx::ends_with_icase(ca.va(), ca.b) != ewi))
                out << " !ALIAS:ends_with(const char*, same end)";
        }
        if (m.size() == 1 && tlx::contains(xs.view(), m[0]) != c) out << " !OVERLOAD:contains(char)";
        if (no_nul(s) && no_nul(m)) {
            if (tlx::ends_with(s.c_str(), m.c_str()) != ew || tlx::ends_with(s.c_str(), xm.view()) != ew ||
                tlx::ends_with(xs.view(), m.c_str()) != ew) out << " !OVERLOAD:ends_with(const char*)";
            if (tlx::ends_with_icase(s.c_str(), m.c_str()) != ewi || tlx::ends_with_icase(s.c_str(), xm.view()) != ewi ||
                tlx::ends_with_icase(xs.view(), m.c_str()) != ewi) out << " !OVERLOAD:ends_with_icase(const char*)";
        }
    } else if (op == "case") {
        S hs; in >> hs; S s = unhex(hs); Exact xs(s);
        S lo = tlx::to_lower(xs.view()), up = tlx::to_upper(xs.view());
        S a = s, b = s; tlx::to_lower(&a); tlx::to_upper(&b);
        out << "lo=" << hex(lo) << " up=" << hex(up);
        if (a != lo || b != up) out << " !OVERLOAD:in-place";
        S cl, cu; for (char c : s) { cl += tlx::to_lower(c); cu += tlx::to_upper(c); }
        if (cl != lo || cu != up) out << " !OVERLOAD:to_lower(char)/to_upper(char)";
    } else if (op == "cmp") {
        S ha, hb; in >> ha >> hb; S a = unhex(ha), b = unhex(hb); Exact xa(a), xb(b);
        int r = tlx::compare_icase(xa.view(), xb.view());
        bool eq = tlx::equal_icase(xa.view(), xb.view()), lt = tlx::less_icase(xa.view(), xb.view());
        out << r << " eq=" << b2s(eq) << " lt=" << b2s(lt);
        {
            S expect = out.str();
            alias_check(out, "compare_icase/equal_icase/less_icase", {a, b}, expect, [&](const Layout& y) {
                return std::to_string(tlx::compare_icase(y.v(0), y.v(1))) + " eq=" + b2s(tlx::equal_icase(y.v(0), y.v(1))) + " lt=" + b2s(tlx::less_icase(y.v(0), y.v(1))); });
            for (int sw = 0; sw < 2; ++sw) {     // C strings sharing their end (the shorter is a suffix of the longer; equal strings: the same pointer twice)
                const S& x = sw ? b : a; const S& z = sw ? a : b;
                CAlias ca(x, z); if (!ca.ok) continue;
                const char* pa = sw ? ca.b : ca.a; const char* pb = sw ? ca.a : ca.b;
                tlx::string_view wa = sw ? ca.vb() : ca.va(), wb = sw ? ca.va() : ca.vb();
                if (tlx::compare_icase(pa, pb) != r || tlx::compare_icase(pa, wb) != r || tlx::compare_icase(wa, pb) != r) out << " !ALIAS:compare_icase(const char*, same end)";
                if (tlx::equal_icase(pa, pb) != eq || tlx::equal_icase(pa, wb) != eq || tlx::equal_icase(wa, pb) != eq) out << " !ALIAS:equal_icase(const char*, same end)";
                if (tlx::less_icase(pa, pb) != lt || tlx::less_icase(pa, wb) != lt || tlx::less_icase(wa, pb) != lt) out << " !ALIAS:less_icase(const char*, same end)";
                break;
            }
        }
        if (tlx::less_icase_asc()(xa.view(), xb.view()) != lt || tlx::less_icase_desc()(xa.view(), xb.view()) != !lt) out << " !OVERLOAD:less_icase_asc/desc";
        if (no_nul(a) && no_nul(b)) {
            if (tlx::equal_icase(a.c_str(), b.c_str()) != eq) out << " !OVERLOAD:equal_icase(const char*,const char*)";
            if (tlx::equal_icase(a.c_str(), xb.view()) != eq) out << " !OVERLOAD:equal_icase(const char*,string_view)";
            if (tlx::equal_icase(xa.view(), b.c_str()) != eq) out << " !OVERLOAD:equal_icase(string_view,const char*)";
            if (tlx::less_icase(a.c_str(), b.c_str()) != lt) out << " !OVERLOAD:less_icase(const char*,const char*)";
            if (tlx::less_icase(a.c_str(), xb.view()) != lt) out << " !OVERLOAD:less_icase(const char*,string_view)";
            if (tlx::less_icase(xa.view(), b.c_str()) != lt) out << " !OVERLOAD:less_icase(string_view,const char*)";
        }
        if (no_nul(a) && no_nul(b)) {
            if (tlx::compare_icase(a.c_str(), b.c_str()) != r || tlx::compare_icase(a.c_str(), xb.view()) != r ||
                tlx::compare_icase(xa.view(), b.c_str()) != r) out << " !OVERLOAD:compare_icase(const char*)";
        }
    } else if (op == "era") {
        S hs, hd; in >> hs >> hd; S s = unhex(hs), d = unhex(hd); Exact xs(s), xd(d);
        S c = tlx::erase_all(xs.view(), xd.view());
        S i = s; tlx::erase_all(&i, xd.view());
        out << "c=" << hex(c) << " i=" << hex(i);
        alias_check(out, "erase_all(string_view, string_view)", {s, d}, hex(c), [&](const Layout& y) { return hex(tlx::erase_all(y.v(0), y.v(1))); });
        { S u = s; u = tlx::erase_all(tlx::string_view(u), xd.view()); if (u != c) out << " !ALIAS:s=erase_all(s)"; }
        for (int last = 0; last < 2; ++last) {   // in-place, the drop set a view INTO the string
            S u = s; tlx::string_view vd;
            if (d.empty() || !find_in(u, d, last != 0, &vd)) continue;
            tlx::erase_all(&u, vd); if (u != c) { py << " aobs=erase_all(&s,view_of_s)"; break; }
        }
        if (d.size() == 1) {
            S j = s; tlx::erase_all(&j, d[0]);
            if (tlx::erase_all(xs.view(), d[0]) != c || j != i) out << " !OVERLOAD:erase_all(char)";
            if (d[0] == ' ') { S k = s; tlx::erase_all(&k); if (tlx::erase_all(xs.view()) != c || k != i) out << " !OVERLOAD:erase_all(default drop)"; }
        }
    } else if (op == "pad") {
        S hs, hc; size_t len; in >> hs >> len >> hc; S s = unhex(hs); Exact xs(s);
        S r = tlx::pad(xs.view(), len, byte_of(hc));
        out << hex(r);
        if (byte_of(hc) == ' ' && tlx::pad(xs.view(), len) != r) out << " !OVERLOAD:pad(default pad_char)";
    } else if (op == "lev") {
        S ha, hb; in >> ha >> hb; S a = unhex(ha), b = unhex(hb); Exact xa(a), xb(b);
        size_t d = tlx::levenshtein(xa.view(), xb.view()), di = tlx::levenshtein_icase(xa.view(), xb.view());
        out << "d=" << d << " di=" << di;
        py << " lw=" << tlx::levenshtein_algorithm<WeightedParam>(xa.p, xa.n, xb.p, xb.n);     // judged by the Python oracle only
        {
            S expect = out.str();
            alias_check(out, "levenshtein/levenshtein_icase", {a, b}, expect, [&](const Layout& y) {
                return "d=" + std::to_string(tlx::levenshtein(y.v(0), y.v(1))) + " di=" + std::to_string(tlx::levenshtein_icase(y.v(0), y.v(1))); });
            alias_check(out, "levenshtein/levenshtein_icase(swapped)", {b, a}, expect, [&](const Layout& y) {
                return "d=" + std::to_string(tlx::levenshtein(y.v(1), y.v(0))) + " di=" + std::to_string(tlx::levenshtein_icase(y.v(1), y.v(0))); });
            for (int sw = 0; sw < 2; ++sw) {
                CAlias ca(sw ? b : a, sw ? a : b); if (!ca.ok) continue;
                const char* pa = sw ? ca.b : ca.a; const char* pb = sw ? ca.a : ca.b;
                if (tlx::levenshtein(pa, pb) != d || tlx::levenshtein_icase(pa, pb) != di) out << " !ALIAS:levenshtein(const char*, same end)";
                break;
            }
        }
        if (no_nul(a) && no_nul(b) && (tlx::levenshtein(a.c_str(), b.c_str()) != d || tlx::levenshtein_icase(a.c_str(), b.c_str()) != di))
            out << " !OVERLOAD:levenshtein(const char*)";
    } else {
        out << "?";
    }
    if (!py.str().empty()) out << " ##" << py.str();
    return out.str();
}

int main(int argc, char** argv) {
    if (argc < 2) return 2;
    std::ifstream f(argv[1]);
    S line;
    while (std::getline(f, line)) {
        S r;
        try { r = run_case(line); } catch (const std::exception& e) { r = S("EXC-ESCAPED ") + e.what(); }
        std::cout << r << "\n" << std::flush;
    }
    return 0;
}
