// C15 correspondence + property harness: runs the real entry points of the three network families on
// every 0/1 input (and more), checks "sorted permutation" directly and compares with the result of
// applying the recorded comparator list (the generated Coq model's data) to the same input.
//
// usage: exhaust <tables.txt> <tier> <seed>
// output: FAIL ... / MISMATCH ... lines, then "STATS evaluations=<n> nontrivial=<n>"
#include <algorithm>
#include <cstdint>
#include <cstdio>
#include <cstdlib>
#include <cstring>
#include <deque>
#include <iterator>
#include <memory>
#include <functional>
#include <map>
#include <string>
#include <utility>
#include <vector>

#include <tlx/sort/networks/best.hpp>
#include <tlx/sort/networks/bose_nelson.hpp>
#include <tlx/sort/networks/bose_nelson_parameter.hpp>

#include "verif_rng.hpp"

namespace sn = tlx::sort_networks;

struct KV { int key; int id; };
struct KVLess { bool operator()(const KV& a, const KV& b) const { return a.key < b.key; } };
struct KVGreater { bool operator()(const KV& a, const KV& b) const { return a.key > b.key; } };

// a comparator whose moved-from state differs from a copy: it owns its rank table. A network implementation that
// std::move()s the comparator / cswap object into a sub-network and then keeps using it calls an empty table.
struct RankCmp {
    std::vector<int> rank;
    explicit RankCmp(int universe) { for (int i = 0; i < universe; ++i) rank.push_back(i); }
    bool operator()(int a, int b) const {
        if (rank.empty()) { printf("FAIL comparator used after being moved from\n"); fflush(stdout); abort(); }
        return rank[static_cast<size_t>(a)] < rank[static_cast<size_t>(b)];
    }
};

typedef std::vector<std::pair<int, int>> Net;
static std::map<std::string, std::map<int, Net>> g_tabs;

#define DIRECT_ARR(NS, N) case N: sn::NS::sort##N<T*, sn::CS_IfSwap<C>>(a, sn::CS_IfSwap<C>(c)); break;
#define ALLN(M, NS) M(NS, 2) M(NS, 3) M(NS, 4) M(NS, 5) M(NS, 6) M(NS, 7) M(NS, 8) M(NS, 9) M(NS, 10) \
    M(NS, 11) M(NS, 12) M(NS, 13) M(NS, 14) M(NS, 15) M(NS, 16)

template <typename T, typename C>
void direct_best(T* a, int n, C c) { switch (n) { ALLN(DIRECT_ARR, best) default: break; } }
template <typename T, typename C>
void direct_bn(T* a, int n, C c) { switch (n) { ALLN(DIRECT_ARR, bose_nelson) default: break; } }

#define BNP_DEF(NS, N) template <typename T, typename C, size_t... I> \
    void bnp_call##N(T* a, C c, std::index_sequence<I...>) { \
        sn::bose_nelson_parameter::sort##N<T, sn::CS_IfSwap<C>>(a[I]..., sn::CS_IfSwap<C>(c)); }
ALLN(BNP_DEF, x)
#define BNP_CASE(NS, N) case N: bnp_call##N(a, c, std::make_index_sequence<N>()); break;
template <typename T, typename C>
void direct_bnp(T* a, int n, C c) { switch (n) { ALLN(BNP_CASE, x) default: break; } }

// The direct sortN(a, CSwap cswap = CSwap()) entry points cannot be called with their default argument at all
// (CS_IfSwap has no default constructor), so only the dispatching sort(begin, end) has a usable default (std::less).
static long long g_eval = 0, g_nontrivial = 0, g_fail = 0;
static bool g_count_distinct = true; // false while running inputs that may repeat earlier ones

template <typename T, typename C>
static void apply_net(const Net& net, T* a, C c) {
    for (auto& p : net) if (c(a[p.second], a[p.first])) std::swap(a[p.first], a[p.second]);
}

static int keyof(const std::string& x) { return atoi(x.c_str()); }
static int idof(const std::string& x) { return atoi(x.c_str()); }
static bool same(const std::string& a, const std::string& b) { return a == b; }
static int keyof(int x) { return x; }
static int keyof(const KV& x) { return x.key; }
static int idof(int x) { return x; }
static int idof(const KV& x) { return x.id; }
static bool same(int a, int b) { return a == b; }
static bool same(const KV& a, const KV& b) { return a.key == b.key && a.id == b.id; }

template <typename T>
static void print_vec(const char* tag, const T* a, int n) {
    printf(" %s=", tag);
    for (int i = 0; i < n; ++i) printf("%s%d.%d", i ? "," : "", keyof(a[i]), idof(a[i]));
}

// run one input through one entry point; fam in {best,bn,bnp}; kind 0 = direct, 1 = dispatch
template <typename T, typename C>
static void run_one(const char* fam, int kind, int n, const T* in, C c, const char* cname) {
    T a[16], m[16];
    std::copy(in, in + n, a);
    std::copy(in, in + n, m);
    std::string f(fam);
    if (kind == 0) {
        if (n < 2) return;
        if (f == "best") direct_best(a, n, c); else if (f == "bn") direct_bn(a, n, c); else direct_bnp(a, n, c);
    } else {
        if (f == "best") sn::best::sort(a, a + n, c);
        else if (f == "bn") sn::bose_nelson::sort(a, a + n, c);
        else sn::bose_nelson_parameter::sort(a, a + n, c);
    }
    ++g_eval;
    bool changed = false;
    for (int i = 0; i < n; ++i) if (!same(a[i], in[i])) changed = true;
    if (changed && g_count_distinct) ++g_nontrivial;
    // property: sorted w.r.t. c, permutation of the input objects
    bool ok = true;
    for (int i = 0; i + 1 < n; ++i) if (c(a[i + 1], a[i])) ok = false;
    std::vector<std::pair<int, int>> x, y;
    for (int i = 0; i < n; ++i) { x.emplace_back(keyof(in[i]), idof(in[i])); y.emplace_back(keyof(a[i]), idof(a[i])); }
    std::sort(x.begin(), x.end()); std::sort(y.begin(), y.end());
    if (x != y) ok = false;
    if (!ok) {
        if (g_fail++ < 20) {
            printf("FAIL fam=%s kind=%s n=%d cmp=%s", fam, kind ? "dispatch" : "direct", n, cname);
            print_vec("in", in, n); print_vec("out", a, n); printf("\n");
        }
        return;
    }
    // correspondence with the recorded network (= the data of the Coq model)
    std::string key = f + (kind ? ".dispatch.false" : ".direct");
    auto it = g_tabs.find(key);
    if (it == g_tabs.end() || !it->second.count(n)) return;
    apply_net(it->second[n], m, c);
    bool eq = true;
    for (int i = 0; i < n; ++i) if (!same(a[i], m[i])) eq = false;
    if (!eq && g_fail++ < 20) {
        printf("MISMATCH fam=%s kind=%s n=%d cmp=%s", fam, kind ? "dispatch" : "direct", n, cname);
        print_vec("in", in, n); print_vec("out", a, n); print_vec("model", m, n); printf("\n");
    }
}


// ---- iterator kinds other than T*: the dispatcher and the direct entry points are templates over the iterator, so a
// version that quietly assumes contiguous / forward memory (e.g. passes &*begin on) is wrong for these.
#define DIRECT_IT(NS, N) case N: sn::NS::sort##N<It, sn::CS_IfSwap<C>>(a, sn::CS_IfSwap<C>(c)); break;
template <typename It, typename C>
void direct_best_it(It a, int n, C c) { switch (n) { ALLN(DIRECT_IT, best) default: break; } }
template <typename It, typename C>
void direct_bn_it(It a, int n, C c) { switch (n) { ALLN(DIRECT_IT, bose_nelson) default: break; } }

template <typename It, typename C>
static void call_it(int f, int kind, It b, int n, C c) {
    if (kind == 0) { if (n < 2) return; if (f == 0) direct_best_it(b, n, c); else direct_bn_it(b, n, c); }
    else if (f == 0) sn::best::sort(b, b + n, c);
    else if (f == 1) sn::bose_nelson::sort(b, b + n, c);
    else sn::bose_nelson_parameter::sort(b, b + n, c);
}

static void report_it(const char* what, int f, int kind, int n, const int* in, const int* out) {
    static const char* fams[3] = { "best", "bn", "bnp" };
    if (g_fail++ < 20) {
        printf("FAIL fam=%s kind=%s n=%d cmp=%s", fams[f], kind ? "dispatch" : "direct", n, what);
        print_vec("in", in, n); print_vec("out", out, n); printf("\n");
    }
}

static void run_iterators(int n, const int* in) {
    const int G = 777; // guard value around the range
    int e[16]; std::copy(in, in + n, e); std::sort(e, e + n);
    for (int f = 0; f < 3; ++f) for (int kind = 0; kind < 2; ++kind) {
        if (kind == 0 && f == 2) continue; // bose_nelson_parameter direct takes references, no iterator involved
        {   // std::reverse_iterator<int*>: position i of the range is buf[4 + n - 1 - i]
            int buf[16 + 8]; std::fill(buf, buf + 24, G);
            for (int i = 0; i < n; ++i) buf[4 + n - 1 - i] = in[i];
            call_it(f, kind, std::reverse_iterator<int*>(buf + 4 + n), n, std::less<int>());
            int out[16]; bool ok = true;
            for (int i = 0; i < n; ++i) { out[i] = buf[4 + n - 1 - i]; if (out[i] != e[i]) ok = false; }
            for (int i = 0; i < 24; ++i) if ((i < 4 || i >= 4 + n) && buf[i] != G) ok = false;
            ++g_eval; if (!ok) report_it("less/reverse_iterator", f, kind, n, in, out);
        }
        {   // std::deque<int>::iterator over a range that straddles a block boundary (blocks hold 128 ints)
            std::deque<int> d(static_cast<size_t>(120 + n + 10), G);
            for (int i = 0; i < n; ++i) d[static_cast<size_t>(120 + i)] = in[i];
            call_it(f, kind, d.begin() + 120, n, std::less<int>());
            int out[16]; bool ok = true;
            for (int i = 0; i < n; ++i) { out[i] = d[static_cast<size_t>(120 + i)]; if (out[i] != e[i]) ok = false; }
            for (size_t i = 0; i < d.size(); ++i) if ((i < 120 || i >= static_cast<size_t>(120 + n)) && d[i] != G) ok = false;
            ++g_eval; if (!ok) report_it("less/deque_iterator", f, kind, n, in, out);
        }
        {   // std::vector<int>::iterator in an exactly sized heap block
            std::vector<int> v(in, in + n);
            call_it(f, kind, v.begin(), n, std::less<int>());
            bool ok = std::equal(v.begin(), v.end(), e);
            ++g_eval; if (!ok) report_it("less/vector_iterator", f, kind, n, in, v.data());
        }
    }
}

// ---- a CS_IfSwap object that OUTLIVES the comparator it was built from (it must own a copy): built from a temporary
// and from a by-value constructor argument, kept as a member / on the heap, used later for the direct entry points.
struct SwapHolder {
    sn::CS_IfSwap<RankCmp> cs;
    explicit SwapHolder(RankCmp c) : cs(c) {}
};
#define DIRECT_CS(NS, N) case N: sn::NS::sort##N<int*, sn::CS_IfSwap<RankCmp>>(a, cs); break;
static void direct_best_cs(int* a, int n, const sn::CS_IfSwap<RankCmp>& cs) { switch (n) { ALLN(DIRECT_CS, best) default: break; } }
static void direct_bn_cs(int* a, int n, const sn::CS_IfSwap<RankCmp>& cs) { switch (n) { ALLN(DIRECT_CS, bose_nelson) default: break; } }
#define BNP_CS_DEF(NS, N) template <size_t... I> \
    void bnp_cs##N(int* a, const sn::CS_IfSwap<RankCmp>& cs, std::index_sequence<I...>) { \
        sn::bose_nelson_parameter::sort##N<int, sn::CS_IfSwap<RankCmp>>(a[I]..., cs); }
ALLN(BNP_CS_DEF, x)
#define BNP_CS_CASE(NS, N) case N: bnp_cs##N(a, cs, std::make_index_sequence<N>()); break;
static void direct_bnp_cs(int* a, int n, const sn::CS_IfSwap<RankCmp>& cs) { switch (n) { ALLN(BNP_CS_CASE, x) default: break; } }

static void scribble_stack() { volatile char junk[4096]; for (int i = 0; i < 4096; ++i) junk[i] = static_cast<char>(0x5A); (void)junk[7]; }

static void run_stored_cswap(int n, const int* in, const SwapHolder& member, const sn::CS_IfSwap<RankCmp>& heap) {
    if (n < 2) return;
    int e[16]; std::copy(in, in + n, e); std::sort(e, e + n);
    for (int which = 0; which < 2; ++which) for (int f = 0; f < 3; ++f) {
        const sn::CS_IfSwap<RankCmp>& cs = which ? heap : member.cs;
        int a[16]; std::copy(in, in + n, a);
        if (f == 0) direct_best_cs(a, n, cs); else if (f == 1) direct_bn_cs(a, n, cs); else direct_bnp_cs(a, n, cs);
        ++g_eval;
        if (!std::equal(a, a + n, e)) report_it(which ? "rank-table/stored-cswap-heap" : "rank-table/stored-cswap-member", f, 0, n, in, a);
    }
}

// ---- two comparator OBJECTS of one type (function pointers asc / desc, rank tables asc / desc) through the same entry
// point one after the other: each call must use the comparator it was given (an implementation that caches its
// CS_IfSwap / comparator in a function-local static would keep the first one).
static bool fp_asc(const int& a, const int& b) { return a < b; }
static bool fp_desc(const int& a, const int& b) { return a > b; }
struct TableCmp {
    std::vector<int> rank;
    TableCmp(int universe, bool desc) { for (int i = 0; i < universe; ++i) rank.push_back(desc ? universe - i : i); }
    bool operator()(int a, int b) const { return rank[static_cast<size_t>(a)] < rank[static_cast<size_t>(b)]; }
};
template <typename C>
static void check_with(const char* what, int f, int kind, int n, const int* in, C c) {
    int a[16]; std::copy(in, in + n, a);
    if (kind == 0) { if (n < 2) return; if (f == 0) direct_best(a, n, c); else if (f == 1) direct_bn(a, n, c); else direct_bnp(a, n, c); }
    else if (f == 0) sn::best::sort(a, a + n, c);
    else if (f == 1) sn::bose_nelson::sort(a, a + n, c);
    else sn::bose_nelson_parameter::sort(a, a + n, c);
    ++g_eval;
    bool ok = true;
    for (int i = 0; i + 1 < n; ++i) if (c(a[i + 1], a[i])) ok = false;
    int x[16], y[16]; std::copy(in, in + n, x); std::copy(a, a + n, y); std::sort(x, x + n); std::sort(y, y + n);
    if (!std::equal(x, x + n, y)) ok = false;
    if (!ok) report_it(what, f, kind, n, in, a);
}
static void run_two_objects(int n, const int* in) {
    typedef bool (*FP)(const int&, const int&);
    TableCmp tasc(2, false), tdesc(2, true);
    for (int f = 0; f < 3; ++f) for (int kind = 0; kind < 2; ++kind) {
        check_with<FP>("fnptr-asc(first object)", f, kind, n, in, &fp_asc);
        check_with<FP>("fnptr-desc(second object of the same type)", f, kind, n, in, &fp_desc);
        check_with<FP>("fnptr-asc(again)", f, kind, n, in, &fp_asc);
        check_with<TableCmp>("table-desc(first object)", f, kind, n, in, tdesc);
        check_with<TableCmp>("table-asc(second object of the same type)", f, kind, n, in, tasc);
    }
}

// default-argument variants: ascending order of ints expected
static void run_defaults(int n, const int* in) {
    static const char* fams[3] = { "best", "bn", "bnp" };
    for (int f = 0; f < 3; ++f) for (int kind = 1; kind < 2; ++kind) {
        int a[16]; std::copy(in, in + n, a);
        if (f == 0) sn::best::sort(a, a + n); else if (f == 1) sn::bose_nelson::sort(a, a + n); else sn::bose_nelson_parameter::sort(a, a + n);
        ++g_eval;
        int e[16]; std::copy(in, in + n, e); std::sort(e, e + n);
        bool ok = std::equal(a, a + n, e);
        if (!ok && g_fail++ < 20) {
            printf("FAIL fam=%s kind=%s n=%d cmp=default-arguments", fams[f], kind ? "dispatch" : "direct", n);
            print_vec("in", in, n); print_vec("out", a, n); printf("\n");
        }
    }
}

template <typename T, typename C>
static void run_all_entry(int n, const T* in, C c, const char* cname) {
    static const char* fams[3] = { "best", "bn", "bnp" };
    for (int f = 0; f < 3; ++f) for (int k = 0; k < 2; ++k) run_one(fams[f], k, n, in, c, cname);
}

int main(int argc, char** argv) {
    if (argc < 4) return 2;
    {
        FILE* f = fopen(argv[1], "r");
        if (!f) return 2;
        char name[64]; int n;
        while (fscanf(f, "%63s %d", name, &n) == 2) {
            Net net; int c;
            while ((c = fgetc(f)) == ' ') { int i, j; if (fscanf(f, "%d:%d", &i, &j) != 2) break; net.emplace_back(i, j); }
            g_tabs[name][n] = net;
        }
        fclose(f);
    }
    bool thorough = !strcmp(argv[2], "thorough");
    verif::Rng rng(strtoull(argv[3], nullptr, 10));
    // (1) every 0/1 input, n = 0..16, int with less and greater, KV (ties carry distinct ids)
    for (int n = 0; n <= 16; ++n) {
        for (uint32_t mask = 0; mask < (1u << n); ++mask) {
            int a[16]; KV b[16];
            for (int i = 0; i < n; ++i) { a[i] = (mask >> i) & 1; b[i].key = a[i]; b[i].id = i; }
            run_all_entry(n, a, std::less<int>(), "less");
            run_defaults(n, a);
            if (thorough || n <= 12) run_all_entry(n, a, std::greater<int>(), "greater");
            if (thorough || n <= 12) run_all_entry(n, b, KVLess(), "kvless");
        }
    }
    // (1b) the stateful rank-table comparator (move-sensitive), every 0/1 input up to n = 16 (thorough) / 11 (quick) + n = 12..16 samples
    {
        RankCmp rc(2);
        for (int n = 0; n <= 16; ++n) {
            uint32_t total = 1u << n, stride = (thorough || n <= 11) ? 1 : 37;
            for (uint32_t mask = 0; mask < total; mask += stride) {
                int a[16]; for (int i = 0; i < n; ++i) a[i] = (mask >> i) & 1;
                run_all_entry(n, a, rc, "rank-table");
            }
        }
    }
    // (1c) iterator kinds (reverse_iterator, deque across a block boundary, vector) and CS_IfSwap objects that outlive
    // the comparator they were built from: every 0/1 input up to n = 16 (thorough) / 10 (quick) + samples beyond
    {
        std::unique_ptr<SwapHolder> member(new SwapHolder(RankCmp(2)));
        std::unique_ptr<sn::CS_IfSwap<RankCmp>> heap(new sn::CS_IfSwap<RankCmp>(RankCmp(2)));
        scribble_stack();
        for (int n = 0; n <= 16; ++n) {
            uint32_t total = 1u << n, stride = (thorough || n <= 10) ? 1 : 53;
            for (uint32_t mask = 0; mask < total; mask += stride) {
                int a[16]; for (int i = 0; i < n; ++i) a[i] = (mask >> i) & 1;
                run_iterators(n, a);
                run_stored_cswap(n, a, *member, *heap);
                run_two_objects(n, a);
            }
        }
    }
    // (1d) keys at the extremes of the type (a comparison through a subtraction overflows exactly here): every two-valued input
    // over {INT_MIN, INT_MAX} and over {-2e9, 2e9}, std::less / default arguments / greater, plus long long and short extremes
    {
        static const int lo[2] = { -2147483647 - 1, -2000000000 }, hi[2] = { 2147483647, 2000000000 };
        for (int n = 0; n <= 16; ++n) {
            uint32_t total = 1u << n, stride = (thorough || n <= 10) ? 1 : 61;
            for (uint32_t mask = 0; mask < total; mask += stride) for (int w = 0; w < 2; ++w) {
                int a[16]; for (int i = 0; i < n; ++i) a[i] = ((mask >> i) & 1) ? hi[w] : lo[w];
                g_count_distinct = false;
                run_all_entry(n, a, std::less<int>(), "less/extreme-int");
                run_defaults(n, a);
                if (w == 0) run_all_entry(n, a, std::greater<int>(), "greater/extreme-int");
            }
        }
        g_count_distinct = true;
    }
    // (1e) element types that point into themselves (short std::string keys live in the object's own buffer): a conditional swap
    // that copies object representations instead of calling std::swap breaks exactly these; plus long (heap) strings
    {
        for (int n = 0; n <= 16; ++n) {
            uint32_t total = 1u << n, stride = (thorough || n <= 9) ? 1 : 97;
            for (uint32_t mask = 0; mask < total; mask += stride) for (int w = 0; w < 2; ++w) {
                std::string a[16];
                for (int i = 0; i < n; ++i) a[i] = ((mask >> i) & 1) ? (w ? "1000000000000000000000000000000000000001" : "1") : (w ? "0000000000000000000000000000000000000000" : "0");
                g_count_distinct = false;
                run_all_entry(n, a, std::less<std::string>(), w ? "less/long-string" : "less/short-string");
            }
        }
        g_count_distinct = true;
    }
    // (2) every input over three keys for small n
    int max3 = thorough ? 11 : 8;
    for (int n = 0; n <= max3; ++n) {
        long total = 1; for (int i = 0; i < n; ++i) total *= 3;
        for (long code = 0; code < total; ++code) {
            KV b[16]; long c = code; bool has2 = false;
            for (int i = 0; i < n; ++i) { b[i].key = c % 3; if (b[i].key == 2) has2 = true; b[i].id = i; c /= 3; }
            g_count_distinct = has2; // pure 0/1 inputs were already counted in phase (1)
            run_all_entry(n, b, KVLess(), "kvless");
            run_all_entry(n, b, KVGreater(), "kvgreater");
        }
    }
    // (3) random permutations and random multisets
    g_count_distinct = false; // random inputs may repeat: not counted as distinct
    long nr = thorough ? 400000 : 30000;
    for (long r = 0; r < nr; ++r) {
        int n = rng.below(17);
        int a[16];
        int universe = rng.chance(1, 2) ? 1 + rng.below(4) : 1000;
        bool extremes = rng.chance(1, 4);   // spread the keys over the whole int range
        for (int i = 0; i < n; ++i) {
            a[i] = rng.below(universe);
            if (extremes) { static const int ex[7] = { -2147483647 - 1, -2147483647, -2000000000, 0, 2000000000, 2147483646, 2147483647 }; a[i] = ex[rng.below(7)] ; }
        }
        run_all_entry(n, a, std::less<int>(), "less");
        run_all_entry(n, a, std::greater<int>(), "greater");
    }
    printf("STATS evaluations=%lld nontrivial=%lld failures=%lld\n", g_eval, g_nontrivial, g_fail);
    return 0;
}
