// C03 correspondence harness: runs tlx's sequential string sorters (public sort_strings / sort_strings_lcp overloads
// and every detail sorter) on the cases of a case file and prints, per case, the identity of the object at every
// output position and the lcp array.  Compiled against /repo's working tree on every run (ASan + UBSan).
//
// case line:  <algo> <rep> <ov> <lcp> <mem> <depth> <n> <hex_1> ... <hex_n>      ("-" = empty string)
//   algo 0 sort_strings(_lcp) public overload (reps 0,1,2) / radixsort_CE3 at depth 0 (reps 3..6)
//        1 radixsort_CE0  2 radixsort_CE2  3 radixsort_CE3  4 radixsort_CI2  5 radixsort_CI3
//        6 multikey_quicksort  7 insertion_sort
//   rep  0 unsigned char* (UCharStringSet)  1 const unsigned char* (CUCharStringSet)  2 std::string (StdStringSet)
//        3 std::unique_ptr<std::string> (UPtrStdStringSet)
//        4 suffixes of a text (StringSuffixSet::Initialize; n = 1, hex_1 = the text; the set is all its suffixes)
//        5 char* (CharStringSet)  6 const char* (CCharStringSet)
//   ov   algo 0, reps 0/1: ov % 10 = overload: 0 unsigned char**  1 char**  2 const unsigned char**  3 const char**
//           4 vector<char*>  5 vector<unsigned char*>  6 vector<const char*>  7.. vector<const unsigned char*>;
//           rep 2: even std::string* / odd vector<std::string>;  (ov % 20) >= 10: the memory argument is omitted (default 0)
//           reps 0/1/5/6: ov >= 20 (algo 0) resp. ov >= 10 (detail sorters): strings of equal contents are ONE buffer that
//           occurs several times in the pointer array (aliased objects)
//        algo != 0 (not rep 4): the string-pointer view the sorter is called through
//           0 StringPtr / StringLcpPtr over exactly the n strings
//           1 strptr.sub(G1, n) of a larger array with guard strings before and after (also exercises size(), active(),
//             fill_lcp(), get_lcp(), lcp()); guards and the lcp cells outside (G1, G1+n) must stay untouched
//           2 (algos 4..7) add_shadow() + flip(G1, n) + copy_back(): the strings start in the shadow array
//           3 / 4 / 5 (rep 5, with LCP): StringLcpPtr<CharStringSet, LcpType> with LcpType = uint8_t / uint16_t / uint64_t
//        rep 4: 0 StringSuffixSet::Initialize (all suffixes in index order)  1 all suffixes, initially in reverse order
//               2 only the suffixes at even positions (set constructed from an iterator range)
// usage: sort_harness <case file> [threads]   threads > 1: the cases are processed in batches of <threads> real threads that
//        start together (each thread sorts its own collection with its own lcp array); output is in case order either way
// output line: ids:<i0,i1,...>|lcp:<v0,v1,...or ->|strs:<hex,... only for rep 2, else ~>     or  APIFAIL:<what>
#include <tlx/sort/strings.hpp>
#include <tlx/sort/strings/insertion_sort.hpp>
#include <tlx/sort/strings/multikey_quicksort.hpp>
#include <tlx/sort/strings/radix_sort.hpp>

#include <algorithm>
#include <atomic>
#include <thread>
#include <deque>
#include <cstdint>
#include <cstdio>
#include <cstdlib>
#include <cstring>
#include <fstream>
#include <iostream>
#include <memory>
#include <sstream>
#include <string>
#include <unordered_map>
#include <vector>

using namespace tlx::sort_strings_detail;

// the check compiles this file twice in parallel (C03_PART bit mask: 1 = reps 0,1;  2 = reps 2,6;  4 = reps 3,4;  8 = rep 5 incl. the LcpType variants) to cut the build time
#ifndef C03_PART
#define C03_PART 15
#endif

static const std::uint32_t POISON = 777;

static std::string unhex(const std::string& h) {
    if (h == "-") return std::string();
    std::string s;
    auto v = [](char c) { return c <= '9' ? c - '0' : c - 'a' + 10; };
    for (size_t i = 0; i + 1 < h.size(); i += 2) s.push_back(static_cast<char>(v(h[i]) * 16 + v(h[i + 1])));
    return s;
}
static std::string tohex(const std::string& s) {
    if (s.empty()) return "-";
    static const char* d = "0123456789abcdef";
    std::string h;
    for (unsigned char c : s) { h.push_back(d[c >> 4]); h.push_back(d[c & 15]); }
    return h;
}

template <typename Ptr>
static void run_detail(int algo, const Ptr& p, size_t depth, size_t mem) {
    switch (algo) {
    case 0: case 3: radixsort_CE3(p, depth, mem); break;
    case 1: radixsort_CE0(p, depth, mem); break;
    case 2: radixsort_CE2(p, depth, mem); break;
    case 4: radixsort_CI2(p, depth, mem); break;
    case 5: radixsort_CI3(p, depth, mem); break;
    case 6: multikey_quicksort(p, depth, mem); break;
    case 7: insertion_sort(p, depth, mem); break;
    default: std::abort();
    }
}

// sorters that work through any string-pointer type, including the shadow variants
template <typename Ptr>
static void run_detail_inplace(int algo, const Ptr& p, size_t depth, size_t mem) {
    switch (algo) {
    case 4: radixsort_CI2(p, depth, mem); break;
    case 5: radixsort_CI3(p, depth, mem); break;
    case 6: multikey_quicksort(p, depth, mem); break;
    case 7: insertion_sort(p, depth, mem); break;
    default: std::abort();
    }
}

static thread_local const char* g_apifail = nullptr;
static thread_local std::string g_line;          // result line of the case this thread is processing

// threaded mode: the threads of a batch meet here once more right before they call the sorter, so that the sorts really overlap
static std::atomic<size_t> g_sync_arrived(0);
static size_t g_sync_k = 1;
#include <chrono>
static void sync_point() {
    if (g_sync_k <= 1) return;
    ++g_sync_arrived;
    auto t0 = std::chrono::steady_clock::now();
    while (g_sync_arrived.load() < g_sync_k &&
           std::chrono::steady_clock::now() - t0 < std::chrono::seconds(3)) std::this_thread::yield();
}
#define API_CHECK(c) do { if (!(c) && !g_apifail) g_apifail = #c; } while (0)

static const size_t G1 = 2, G2 = 3;

// Runs `algo` on the n strings of `arr` through the requested view; results are left in arr / lcpa.
//   mkguard(i) creates guard string number i, token(s) is a comparable snapshot of a String (pointer value or contents)
template <typename SS, typename MkGuard, typename Token>
static void run_array(int algo, int view, bool lcp, size_t depth, size_t mem,
                      std::vector<typename SS::String>& arr, std::vector<std::uint32_t>& lcpa, MkGuard mkguard, Token token) {
    typedef typename SS::String String;
    const size_t n = arr.size();
    sync_point();
    if (view == 0) {
        SS ss(arr.data(), arr.data() + n);
        if (lcp) { StringLcpPtr<SS, std::uint32_t> p(ss, lcpa.data()); API_CHECK(p.with_lcp); API_CHECK(p.size() == n); run_detail(algo, p, depth, mem); }
        else { StringPtr<SS> p(ss); API_CHECK(!p.with_lcp); API_CHECK(p.size() == n); run_detail(algo, p, depth, mem); }
        return;
    }
    const size_t total = G1 + n + G2;
    std::vector<String> full(total);
    for (size_t i = 0; i < G1; ++i) full[i] = mkguard(i);
    for (size_t i = 0; i < n; ++i) full[G1 + i] = std::move(arr[i]);
    for (size_t i = 0; i < G2; ++i) full[G1 + n + i] = mkguard(G1 + i);
    std::vector<std::string> snap;
    for (size_t i = 0; i < total; ++i) if (i < G1 || i >= G1 + n) snap.push_back(token(full[i]));
    std::vector<std::uint32_t> lf(total, POISON);
    SS fs(full.data(), full.data() + total);
    if (view == 1) {
        if (lcp) {
            StringLcpPtr<SS, std::uint32_t> p = StringLcpPtr<SS, std::uint32_t>(fs, lf.data()).sub(G1, n);
            API_CHECK(p.size() == n); API_CHECK(p.active().size() == n); API_CHECK(p.lcp() == lf.data() + G1);
            API_CHECK(n == 0 || p.active().begin() == fs.begin() + G1);
            p.fill_lcp(123u);
            for (size_t i = 1; i < n; ++i) API_CHECK(p.get_lcp(i) == 123u);
            API_CHECK(lf[G1] == POISON);
            if (n > 1) { p.set_lcp(n - 1, 7u); API_CHECK(lf[G1 + n - 1] == 7u); }
            std::fill(lf.begin(), lf.end(), POISON);
            run_detail(algo, p, depth, mem);
        } else {
            StringPtr<SS> p = StringPtr<SS>(fs).sub(G1, n);
            API_CHECK(p.size() == n); API_CHECK(p.active().size() == n);
            p.fill_lcp(123u); p.set_lcp(0, 5u);            // no-ops without LCP
            run_detail(algo, p, depth, mem);
        }
    } else {
        typename SS::Container shadow = fs.allocate(total);
        SS shs(shadow);
        std::move(fs.begin() + G1, fs.begin() + G1 + n, shs.begin() + G1);      // the strings start in the shadow array
        if (lcp) {
            auto sp = StringLcpPtr<SS, std::uint32_t>(fs, lf.data()).add_shadow(shs);
            API_CHECK(!sp.flipped()); API_CHECK(sp.size() == total); API_CHECK(sp.with_lcp);
            auto s1 = sp.sub(G1, n); API_CHECK(!s1.flipped()); API_CHECK(s1.size() == n); API_CHECK(s1.lcp() == lf.data() + G1);
            auto s2 = sp.flip(G1, n); API_CHECK(s2.flipped()); API_CHECK(s2.size() == n); API_CHECK(s2.lcp() == lf.data() + G1);
            API_CHECK(n == 0 || (s2.active().begin() == shs.begin() + G1 && s2.shadow().begin() == fs.begin() + G1));
            auto s3 = s2.copy_back(); API_CHECK(!s3.flipped()); API_CHECK(s3.size() == n);
            API_CHECK(n == 0 || s3.active().begin() == fs.begin() + G1);
            auto s4 = s3.copy_back(); API_CHECK(!s4.flipped());                  // nothing to copy
            run_detail_inplace(algo, s3, depth, mem);
        } else {
            auto sp = StringPtr<SS>(fs).add_shadow(shs);
            API_CHECK(!sp.flipped()); API_CHECK(sp.size() == total); API_CHECK(!sp.with_lcp);
            auto s1 = sp.sub(G1, n); API_CHECK(!s1.flipped()); API_CHECK(s1.size() == n);
            auto s2 = sp.flip(G1, n); API_CHECK(s2.flipped()); API_CHECK(s2.size() == n);
            API_CHECK(n == 0 || (s2.active().begin() == shs.begin() + G1 && s2.shadow().begin() == fs.begin() + G1));
            auto s3 = s2.copy_back(); API_CHECK(!s3.flipped()); API_CHECK(s3.size() == n);
            API_CHECK(n == 0 || s3.active().begin() == fs.begin() + G1);
            s3.fill_lcp(1u); s3.set_lcp(0, 1u);
            run_detail_inplace(algo, s3, depth, mem);
        }
        SS::deallocate(shadow);
    }
    size_t k = 0;
    for (size_t i = 0; i < total; ++i) if (i < G1 || i >= G1 + n) { API_CHECK(token(full[i]) == snap[k]); ++k; }
    for (size_t i = 0; i < total; ++i) if (i <= G1 || i >= G1 + n) API_CHECK(lf[i] == POISON);
    for (size_t i = 0; i < n; ++i) { arr[i] = std::move(full[G1 + i]); lcpa[i] = lf[G1 + i]; }
}

static void print_result(const std::vector<long>& ids, bool lcp, const std::vector<std::uint32_t>& lcpa,
                         const std::vector<std::string>* strs) {
    if (g_apifail) { g_line = std::string("APIFAIL:") + g_apifail; return; }
    std::string out = "ids:";
    char buf[32];
    for (size_t i = 0; i < ids.size(); ++i) { snprintf(buf, sizeof buf, i ? ",%ld" : "%ld", ids[i]); out += buf; }
    out += "|lcp:";
    if (!lcp) out += "-";
    else for (size_t i = 0; i < lcpa.size(); ++i) { snprintf(buf, sizeof buf, i ? ",%u" : "%u", lcpa[i]); out += buf; }
    out += "|strs:";
    if (!strs) out += "~";
    else for (size_t i = 0; i < strs->size(); ++i) { if (i) out += ","; out += tohex((*strs)[i]); }
    g_line = out;
}

static std::string ptr_token(const void* p) { char b[32]; snprintf(b, sizeof b, "%p", p); return b; }
static unsigned char g_guard_bufs[8][8] = { "\x7fg0", "", "\x01g2", "zz", "\xffg4", "a", "b", "c" };

// the LcpType template parameter of StringLcpPtr (the public front-ends fix std::uint32_t)
template <typename SS, typename LcpT>
static void run_lcptype(int algo, size_t depth, size_t mem, std::vector<typename SS::String>& arr, std::vector<std::uint32_t>& lcpa) {
    const size_t n = arr.size();
    const LcpT poison = static_cast<LcpT>(POISON);
    sync_point();
    std::vector<LcpT> l(n, poison);
    SS ss(arr.data(), arr.data() + n);
    StringLcpPtr<SS, LcpT> p(ss, l.data());
    API_CHECK(p.with_lcp); API_CHECK(p.size() == n); API_CHECK(p.lcp() == l.data());
    run_detail(algo, p, depth, mem);
    for (size_t i = 0; i < n; ++i) lcpa[i] = (i == 0 && l[i] == poison) ? POISON : static_cast<std::uint32_t>(l[i]);
}

// C strings: reps 0, 1 (unsigned), 5, 6 (char)
template <typename SS, typename CharT>
static void run_cstring_set(int algo, int view, bool lcp, size_t depth, size_t mem,
                            std::vector<unsigned char*>& ptrs, std::vector<std::uint32_t>& lcpa) {
    typedef typename SS::String String;                       // CharT*
    std::vector<String> arr(ptrs.size());
    for (size_t i = 0; i < ptrs.size(); ++i) arr[i] = reinterpret_cast<String>(ptrs[i]);
    run_array<SS>(algo, view, lcp, depth, mem, arr, lcpa,
                  [](size_t i) { return reinterpret_cast<String>(g_guard_bufs[i]); },
                  [](const String& s) { return ptr_token(s); });
    for (size_t i = 0; i < ptrs.size(); ++i) ptrs[i] = reinterpret_cast<unsigned char*>(const_cast<typename std::remove_const<CharT>::type*>(arr[i]));
}

static void process(const std::string& line) {
    g_line = "SKIPPED";          // representation not compiled into this part
    {
        std::istringstream is(line);
        int algo, rep, ov, lcpi; unsigned long long memll, depthll, nll;
        is >> algo >> rep >> ov >> lcpi >> memll >> depthll >> nll;
        size_t mem = memll, depth = depthll, n = nll;
        bool lcp = lcpi != 0;
        std::vector<std::string> strs(n);
        for (size_t i = 0; i < n; ++i) { std::string h; is >> h; strs[i] = unhex(h); }
        g_apifail = nullptr;
        const bool cstr_rep = rep == 0 || rep == 1 || rep == 5 || rep == 6;
        const bool alias = cstr_rep && (algo == 0 ? ov >= 20 : ov >= 10);     // equal contents share one buffer
        const int view = algo == 0 ? 0 : (cstr_rep ? ov % 10 : ov);
        (void)view; (void)alias;

#if C03_PART & 11
        if (((C03_PART & 1) && (rep == 0 || rep == 1)) || ((C03_PART & 8) && rep == 5) || ((C03_PART & 2) && rep == 6)) {
            // individually allocated, exactly sized NUL-terminated buffers (ASan sees any over-read)
            std::vector<unsigned char*> ptrs(n);
            std::unordered_map<const void*, std::deque<long> > idx;       // buffer -> original positions holding it
            std::unordered_map<std::string, unsigned char*> shared;
            std::vector<unsigned char*> orig;                             // every buffer once
            for (size_t i = 0; i < n; ++i) {
                auto it = alias ? shared.find(strs[i]) : shared.end();
                if (it != shared.end()) ptrs[i] = it->second;
                else {
                    ptrs[i] = new unsigned char[strs[i].size() + 1];
                    memcpy(ptrs[i], strs[i].data(), strs[i].size());
                    ptrs[i][strs[i].size()] = 0;
                    orig.push_back(ptrs[i]);
                    if (alias) shared[strs[i]] = ptrs[i];
                }
                idx[ptrs[i]].push_back(static_cast<long>(i));
            }
            std::vector<std::uint32_t> lcpa(n, POISON);
            if (false) {}
#if C03_PART & 1
            else if (algo == 0 && rep <= 1) {
                // the public overloads, with the memory argument passed or omitted (default 0)
                const bool omit = (ov % 20) >= 10;
                if (omit && mem != 0) std::abort();
                auto call = [&](auto&&... a) {
                    if (lcp) { if (omit) tlx::sort_strings_lcp(a..., lcpa.data()); else tlx::sort_strings_lcp(a..., lcpa.data(), mem); }
                    else { if (omit) tlx::sort_strings(a...); else tlx::sort_strings(a..., mem); }
                };
                sync_point();
                switch (ov % 10) {
                case 0: call(ptrs.data(), n); break;
                case 1: call(reinterpret_cast<char**>(ptrs.data()), n); break;
                case 2: call(const_cast<const unsigned char**>(ptrs.data()), n); break;
                case 3: call((const char**)(ptrs.data()), n); break;
                case 4: { std::vector<char*> v(n); for (size_t i = 0; i < n; ++i) v[i] = reinterpret_cast<char*>(ptrs[i]);
                          call(v); for (size_t i = 0; i < n; ++i) ptrs[i] = reinterpret_cast<unsigned char*>(v[i]); break; }
                case 5: call(ptrs); break;
                case 6: { std::vector<const char*> v(n); for (size_t i = 0; i < n; ++i) v[i] = reinterpret_cast<const char*>(ptrs[i]);
                          call(v); for (size_t i = 0; i < n; ++i) ptrs[i] = reinterpret_cast<unsigned char*>(const_cast<char*>(v[i])); break; }
                default: { std::vector<const unsigned char*> v(ptrs.begin(), ptrs.end());
                          call(v); for (size_t i = 0; i < n; ++i) ptrs[i] = const_cast<unsigned char*>(v[i]); break; }
                }
            }
            else if (rep == 0) run_cstring_set<UCharStringSet, unsigned char>(algo, view, lcp, depth, mem, ptrs, lcpa);
            else if (rep == 1) run_cstring_set<CUCharStringSet, const unsigned char>(algo, view, lcp, depth, mem, ptrs, lcpa);
#endif
#if C03_PART & 8
            else if (rep == 5 && view >= 3) {
                std::vector<char*> arr(n);
                for (size_t i = 0; i < n; ++i) arr[i] = reinterpret_cast<char*>(ptrs[i]);
                if (!lcp) std::abort();
                if (view == 3) run_lcptype<CharStringSet, std::uint8_t>(algo, depth, mem, arr, lcpa);
                else if (view == 4) run_lcptype<CharStringSet, std::uint16_t>(algo, depth, mem, arr, lcpa);
                else run_lcptype<CharStringSet, std::uint64_t>(algo, depth, mem, arr, lcpa);
                for (size_t i = 0; i < n; ++i) ptrs[i] = reinterpret_cast<unsigned char*>(arr[i]);
            }
            else if (rep == 5) run_cstring_set<CharStringSet, char>(algo, view, lcp, depth, mem, ptrs, lcpa);
#endif
#if C03_PART & 2
            else if (rep == 6) run_cstring_set<CCharStringSet, const char>(algo, view, lcp, depth, mem, ptrs, lcpa);
#endif
            std::vector<long> ids(n);
            for (size_t i = 0; i < n; ++i) {
                auto it = idx.find(ptrs[i]);
                if (it == idx.end() || it->second.empty()) ids[i] = -1;
                else { ids[i] = it->second.front(); it->second.pop_front(); }
            }
            print_result(ids, lcp, lcpa, nullptr);
            for (size_t i = 0; i < orig.size(); ++i) delete[] orig[i];
            return;
        }
#endif
#if C03_PART & 2
        if (rep == 2) {
            std::vector<std::string> v(strs);
            std::vector<std::uint32_t> lcpa(n, POISON);
            if (algo == 0) {
                const bool omit = ov >= 10;
                if (omit && mem != 0) std::abort();
                auto call = [&](auto&&... a) {
                    if (lcp) { if (omit) tlx::sort_strings_lcp(a..., lcpa.data()); else tlx::sort_strings_lcp(a..., lcpa.data(), mem); }
                    else { if (omit) tlx::sort_strings(a...); else tlx::sort_strings(a..., mem); }
                };
                sync_point();
                if (ov % 2 == 0) call(v.data(), n); else call(v);
            } else {
                run_array<StdStringSet>(algo, view, lcp, depth, mem, v, lcpa,
                                        [](size_t i) { return std::string("\x7fguard") + char('0' + i); },
                                        [](const std::string& s) { return s; });
            }
            std::vector<long> ids(n, 0);
            print_result(ids, lcp, lcpa, &v);
            return;
        }
#endif
#if C03_PART & 4
        if (rep == 3) {
            std::vector<std::unique_ptr<std::string> > v(n);
            std::unordered_map<const void*, long> idx;
            for (size_t i = 0; i < n; ++i) { v[i].reset(new std::string(strs[i])); idx[v[i].get()] = static_cast<long>(i); }
            std::vector<std::uint32_t> lcpa(n, POISON);
            run_array<UPtrStdStringSet>(algo, view, lcp, depth, mem, v, lcpa,
                                        [](size_t i) { return std::unique_ptr<std::string>(new std::string(1, char('p' + i))); },
                                        [](const std::unique_ptr<std::string>& s) { return ptr_token(s.get()); });
            std::vector<long> ids(n);
            for (size_t i = 0; i < n; ++i) { auto it = idx.find(v[i].get()); ids[i] = it == idx.end() ? -1 : it->second; }
            print_result(ids, lcp, lcpa, nullptr);
            return;
        }
        if (rep == 4) {
            std::string text = n ? strs[0] : std::string();
            std::vector<size_t> sa;
            if (ov == 0) {
                StringSuffixSet ss0 = StringSuffixSet::Initialize(text, sa);
                API_CHECK(ss0.size() == text.size()); API_CHECK(sa.size() == text.size());
                for (size_t i = 0; i < sa.size(); ++i) API_CHECK(sa[i] == i);
            }
            else if (ov == 1) for (size_t i = text.size(); i > 0; --i) sa.push_back(i - 1);
            else for (size_t i = 0; i < text.size(); i += 2) sa.push_back(i);
            StringSuffixSet ss(text, sa.begin(), sa.end());
            API_CHECK(ss.size() == sa.size());
            std::vector<std::uint32_t> lcpa(sa.size(), POISON);
            sync_point();
            if (lcp) run_detail(algo, StringLcpPtr<StringSuffixSet, std::uint32_t>(ss, lcpa.data()), depth, mem);
            else run_detail(algo, StringPtr<StringSuffixSet>(ss), depth, mem);
            std::vector<long> ids(sa.size());
            for (size_t i = 0; i < sa.size(); ++i) ids[i] = sa[i] < text.size() ? static_cast<long>(sa[i]) : -1;
            print_result(ids, lcp, lcpa, nullptr);
            return;
        }
#endif
    }
}

int main(int argc, char** argv) {
    if (argc < 2) return 2;
    std::ifstream in(argv[1]);
    std::vector<std::string> lines;
    for (std::string line; std::getline(in, line);) if (!line.empty()) lines.push_back(line);
    const size_t nthreads = argc > 2 ? static_cast<size_t>(atoi(argv[2])) : 1;
    if (nthreads <= 1) {
        for (const std::string& l : lines) { process(l); puts(g_line.c_str()); fflush(stdout); }
        return 0;
    }
    std::vector<std::string> results(lines.size());
    for (size_t base = 0; base < lines.size(); base += nthreads) {
        const size_t k = std::min(nthreads, lines.size() - base);
        std::atomic<size_t> arrived(0);
        g_sync_arrived = 0; g_sync_k = k;
        std::vector<std::thread> th;
        for (size_t t = 0; t < k; ++t)
            th.emplace_back([&, t]() {
                ++arrived;
                while (arrived.load() < k) std::this_thread::yield();       // start together
                process(lines[base + t]);
                results[base + t] = g_line;
            });
        for (auto& x : th) x.join();
        for (size_t t = 0; t < k; ++t) puts(results[base + t].c_str());
        fflush(stdout);
    }
    return 0;
}
