// C03 correspondence harness: runs tlx's sequential string sorters (public sort_strings / sort_strings_lcp overloads
// and every detail sorter) on the cases of a case file and prints, per case, the identity of the object at every
// output position and the lcp array.  Compiled against /repo's working tree on every run (ASan + UBSan).
//
// case line:  <algo> <rep> <ov> <lcp> <mem> <depth> <n> <hex_1> ... <hex_n>      ("-" = empty string)
//   algo 0 sort_strings(_lcp) public overload `ov` (reps 0,1,2) / radixsort_CE3 at depth 0 (reps 3,4)
//        1 radixsort_CE0  2 radixsort_CE2  3 radixsort_CE3  4 radixsort_CI2  5 radixsort_CI3
//        6 multikey_quicksort  7 insertion_sort
//   rep  0 unsigned char*  1 const unsigned char*  2 std::string  3 std::unique_ptr<std::string>
//        4 suffixes of a text (n = 1, hex_1 = the text; the set is all its suffixes in index order)
// output line: ids:<i0,i1,...>|lcp:<v0,v1,...or ->|strs:<hex,... only for rep 2, else ~>
#include <tlx/sort/strings.hpp>
#include <tlx/sort/strings/insertion_sort.hpp>
#include <tlx/sort/strings/multikey_quicksort.hpp>
#include <tlx/sort/strings/radix_sort.hpp>

#include <cstdint>
#include <cstdio>
#include <cstdlib>
#include <cstring>
#include <fstream>
#include <iostream>
#include <memory>
#include <sstream>
#include <string>
#include <unordered_map>
#include <vector>

using namespace tlx::sort_strings_detail;

// the check compiles this file twice in parallel (C03_PART bit mask: 1 = reps 0,1;  2 = rep 2;  4 = reps 3,4) to cut the build time
#ifndef C03_PART
#define C03_PART 7
#endif

static const std::uint32_t POISON = 777;

static std::string unhex(const std::string& h) {
    if (h == "-") return std::string();
    std::string s;
    auto v = [](char c) { return c <= '9' ? c - '0' : c - 'a' + 10; };
    for (size_t i = 0; i + 1 < h.size(); i += 2) s.push_back(static_cast<char>(v(h[i]) * 16 + v(h[i + 1])));
    return s;
}
static std::string tohex(const std::string& s) {
    if (s.empty()) return "-";
    static const char* d = "0123456789abcdef";
    std::string h;
    for (unsigned char c : s) { h.push_back(d[c >> 4]); h.push_back(d[c & 15]); }
    return h;
}

template <typename Ptr>
static void run_detail(int algo, const Ptr& p, size_t depth, size_t mem) {
    switch (algo) {
    case 0: case 3: radixsort_CE3(p, depth, mem); break;
    case 1: radixsort_CE0(p, depth, mem); break;
    case 2: radixsort_CE2(p, depth, mem); break;
    case 4: radixsort_CI2(p, depth, mem); break;
    case 5: radixsort_CI3(p, depth, mem); break;
    case 6: multikey_quicksort(p, depth, mem); break;
    case 7: insertion_sort(p, depth, mem); break;
    default: std::abort();
    }
}

template <typename SS>
static void run_set(int algo, const SS& ss, bool lcp, std::uint32_t* lcpa, size_t depth, size_t mem) {
    if (lcp) run_detail(algo, StringLcpPtr<SS, std::uint32_t>(ss, lcpa), depth, mem);
    else run_detail(algo, StringPtr<SS>(ss), depth, mem);
}

static void print_result(const std::vector<long>& ids, bool lcp, const std::vector<std::uint32_t>& lcpa,
                         const std::vector<std::string>* strs) {
    std::string out = "ids:";
    char buf[32];
    for (size_t i = 0; i < ids.size(); ++i) { snprintf(buf, sizeof buf, i ? ",%ld" : "%ld", ids[i]); out += buf; }
    out += "|lcp:";
    if (!lcp) out += "-";
    else for (size_t i = 0; i < lcpa.size(); ++i) { snprintf(buf, sizeof buf, i ? ",%u" : "%u", lcpa[i]); out += buf; }
    out += "|strs:";
    if (!strs) out += "~";
    else for (size_t i = 0; i < strs->size(); ++i) { if (i) out += ","; out += tohex((*strs)[i]); }
    puts(out.c_str());
}

int main(int argc, char** argv) {
    if (argc < 2) return 2;
    std::ifstream in(argv[1]);
    std::string line;
    while (std::getline(in, line)) {
        if (line.empty()) continue;
        std::istringstream is(line);
        int algo, rep, ov, lcpi; unsigned long long memll, depthll, nll;
        is >> algo >> rep >> ov >> lcpi >> memll >> depthll >> nll;
        size_t mem = memll, depth = depthll, n = nll;
        bool lcp = lcpi != 0;
        std::vector<std::string> strs(n);
        for (size_t i = 0; i < n; ++i) { std::string h; is >> h; strs[i] = unhex(h); }

#if C03_PART & 1
        if (rep == 0 || rep == 1) {
            // individually allocated, exactly sized NUL-terminated buffers (ASan sees any over-read)
            std::vector<unsigned char*> ptrs(n);
            std::unordered_map<const void*, long> idx;
            for (size_t i = 0; i < n; ++i) {
                ptrs[i] = new unsigned char[strs[i].size() + 1];
                memcpy(ptrs[i], strs[i].data(), strs[i].size());
                ptrs[i][strs[i].size()] = 0;
                idx[ptrs[i]] = static_cast<long>(i);
            }
            std::vector<unsigned char*> orig(ptrs);
            std::vector<std::uint32_t> lcpa(n, POISON);
            if (algo == 0) {
                // the public overloads
                if (!lcp) switch (ov) {
                    case 0: tlx::sort_strings(ptrs.data(), n, mem); break;
                    case 1: tlx::sort_strings(reinterpret_cast<char**>(ptrs.data()), n, mem); break;
                    case 2: tlx::sort_strings(const_cast<const unsigned char**>(ptrs.data()), n, mem); break;
                    case 3: tlx::sort_strings((const char**)(ptrs.data()), n, mem); break;
                    case 4: { std::vector<char*> v(n); for (size_t i = 0; i < n; ++i) v[i] = reinterpret_cast<char*>(ptrs[i]);
                              tlx::sort_strings(v, mem); for (size_t i = 0; i < n; ++i) ptrs[i] = reinterpret_cast<unsigned char*>(v[i]); break; }
                    case 5: tlx::sort_strings(ptrs, mem); break;
                    case 6: { std::vector<const char*> v(n); for (size_t i = 0; i < n; ++i) v[i] = reinterpret_cast<const char*>(ptrs[i]);
                              tlx::sort_strings(v, mem); for (size_t i = 0; i < n; ++i) ptrs[i] = reinterpret_cast<unsigned char*>(const_cast<char*>(v[i])); break; }
                    default: { std::vector<const unsigned char*> v(ptrs.begin(), ptrs.end());
                              tlx::sort_strings(v, mem); for (size_t i = 0; i < n; ++i) ptrs[i] = const_cast<unsigned char*>(v[i]); break; }
                } else switch (ov) {
                    case 0: tlx::sort_strings_lcp(ptrs.data(), n, lcpa.data(), mem); break;
                    case 1: tlx::sort_strings_lcp(reinterpret_cast<char**>(ptrs.data()), n, lcpa.data(), mem); break;
                    case 2: tlx::sort_strings_lcp(const_cast<const unsigned char**>(ptrs.data()), n, lcpa.data(), mem); break;
                    case 3: tlx::sort_strings_lcp((const char**)(ptrs.data()), n, lcpa.data(), mem); break;
                    case 4: { std::vector<char*> v(n); for (size_t i = 0; i < n; ++i) v[i] = reinterpret_cast<char*>(ptrs[i]);
                              tlx::sort_strings_lcp(v, lcpa.data(), mem); for (size_t i = 0; i < n; ++i) ptrs[i] = reinterpret_cast<unsigned char*>(v[i]); break; }
                    case 5: tlx::sort_strings_lcp(ptrs, lcpa.data(), mem); break;
                    case 6: { std::vector<const char*> v(n); for (size_t i = 0; i < n; ++i) v[i] = reinterpret_cast<const char*>(ptrs[i]);
                              tlx::sort_strings_lcp(v, lcpa.data(), mem); for (size_t i = 0; i < n; ++i) ptrs[i] = reinterpret_cast<unsigned char*>(const_cast<char*>(v[i])); break; }
                    default: { std::vector<const unsigned char*> v(ptrs.begin(), ptrs.end());
                              tlx::sort_strings_lcp(v, lcpa.data(), mem); for (size_t i = 0; i < n; ++i) ptrs[i] = const_cast<unsigned char*>(v[i]); break; }
                }
            } else if (rep == 0) {
                run_set(algo, UCharStringSet(ptrs.data(), ptrs.data() + n), lcp, lcpa.data(), depth, mem);
            } else {
                const unsigned char** cp = const_cast<const unsigned char**>(ptrs.data());
                run_set(algo, CUCharStringSet(cp, cp + n), lcp, lcpa.data(), depth, mem);
            }
            std::vector<long> ids(n);
            for (size_t i = 0; i < n; ++i) { auto it = idx.find(ptrs[i]); ids[i] = it == idx.end() ? -1 : it->second; }
            print_result(ids, lcp, lcpa, nullptr);
            for (size_t i = 0; i < n; ++i) delete[] orig[i];
            fflush(stdout);
            continue;
        }
#endif
#if C03_PART & 2
        if (rep == 2) {
            std::vector<std::string> v(strs);
            std::vector<std::uint32_t> lcpa(n, POISON);
            if (algo == 0) {
                if (!lcp) { if (ov % 2 == 0) tlx::sort_strings(v.data(), n, mem); else tlx::sort_strings(v, mem); }
                else { if (ov % 2 == 0) tlx::sort_strings_lcp(v.data(), n, lcpa.data(), mem); else tlx::sort_strings_lcp(v, lcpa.data(), mem); }
            } else {
                run_set(algo, StdStringSet(v.data(), v.data() + n), lcp, lcpa.data(), depth, mem);
            }
            std::vector<long> ids(n, 0);
            print_result(ids, lcp, lcpa, &v);
            fflush(stdout);
            continue;
        }
#endif
#if C03_PART & 4
        if (rep == 3) {
            std::vector<std::unique_ptr<std::string> > v(n);
            std::unordered_map<const void*, long> idx;
            for (size_t i = 0; i < n; ++i) { v[i].reset(new std::string(strs[i])); idx[v[i].get()] = static_cast<long>(i); }
            std::vector<std::uint32_t> lcpa(n, POISON);
            run_set(algo, UPtrStdStringSet(v.data(), v.data() + n), lcp, lcpa.data(), depth, mem);
            std::vector<long> ids(n);
            for (size_t i = 0; i < n; ++i) { auto it = idx.find(v[i].get()); ids[i] = it == idx.end() ? -1 : it->second; }
            print_result(ids, lcp, lcpa, nullptr);
            fflush(stdout);
            continue;
        }
        if (rep == 4) {
            std::string text = n ? strs[0] : std::string();
            std::vector<size_t> sa;
            StringSuffixSet ss = StringSuffixSet::Initialize(text, sa);
            std::vector<std::uint32_t> lcpa(sa.size(), POISON);
            run_set(algo, ss, lcp, lcpa.data(), depth, mem);
            std::vector<long> ids(sa.size());
            for (size_t i = 0; i < sa.size(); ++i) ids[i] = sa[i] < text.size() ? static_cast<long>(sa[i]) : -1;
            print_result(ids, lcp, lcpa, nullptr);
            fflush(stdout);
            continue;
        }
#endif
        puts("SKIPPED");   // representation not compiled into this part
        fflush(stdout);
    }
    return 0;
}
