// C01/C02 correspondence harness: replays operation histories on tlx::btree_{set,multiset,map,multimap}
// (counting allocator, lifetime-tracked element types, ASan/UBSan) next to the std ordered containers.
// Operation names: I/Ih/I2/Ih2/Ib/IR (insert overloads), E1 EK EI, F X C L U R (+ suffix c: through a const reference),
// T (iteration, all four iterator kinds, size/empty/max_size/key_comp/value_comp/get_allocator), CL AS CC SW/SWs/SWt CMP B CR,
// NC,i,dir,arena (re-create variable i empty with comparator state dir over allocator arena).  The comparator is
// stateful (run-time direction) and the allocator has per-instance identity (three arenas with their own ledgers).
// Prints ONE line per case: one token per operation
//     <result>/<allocs>.<frees>.<leaves>.<inner>.<size>      (/VERIFYFAIL:... if verify() throws)
// then " final=..." (ledger verdict after destruction) and, if a result differs from the std container's,
// " STDDIFF@<op>:<tlx>:<std>".  argv[2] (optional) receives, per case, the key-only node structure of the
// operated tree after every mutating operation (read through the TLX_BTREE_FRIENDS door; no source hook).
// The configurations (kind, comparator, leaf slots, inner slots, in-node search) are compiled in from the
// file named by -DCONFIGS_INC="..." (written by the check script): lines  CFG(kind, gt, L, I, bin); the
// source is compiled once per group of configurations (parallel translation units), one with -DHARNESS_MAIN.
struct BtAccess;
#define TLX_BTREE_FRIENDS friend struct ::BtAccess

#include <algorithm>
#include <csignal>
#include <unistd.h>
#include <cstdio>
#include <cstdlib>
#include <cstring>
#include <fstream>
#include <iostream>
#include <map>
#include <memory>
#include <set>
#include <sstream>
#include <string>
#include <type_traits>
#include <vector>

#include <tlx/container/btree_map.hpp>
#include <tlx/container/btree_multimap.hpp>
#include <tlx/container/btree_multiset.hpp>
#include <tlx/container/btree_set.hpp>
#include <tlx/die/core.hpp>

#include "ledger.hpp"

// Heap-owning, lifetime-tracked element whose MOVED-FROM state is visible (like a std::string that is emptied
// by a move): a move leaves -7777 behind, so an element that was moved out of a node slot instead of copied
// shows up as a wrong key / datum.  Copies behave like verif::Tracked.
struct HKey {
    verif::Tracked t;
    HKey() : t() {}
    explicit HKey(int x) : t(x) {}
    HKey(const HKey& o) : t(o.t) {}
    HKey(HKey&& o) noexcept : t(o.t) { o.t = verif::Tracked(-7777); }
    HKey& operator=(const HKey& o) { t = o.t; return *this; }
    HKey& operator=(HKey&& o) noexcept { if (this != &o) { t = o.t; o.t = verif::Tracked(-7777); } return *this; }
    int get() const { return t.get(); }
    friend bool operator<(const HKey& a, const HKey& b) { return a.get() < b.get(); }
    friend bool operator==(const HKey& a, const HKey& b) { return a.get() == b.get(); }
};
typedef HKey Tracked;

static inline int kval(int x) { return x; }
static inline int kval(const Tracked& t) { return t.get(); }

// Stateful comparator: the sort direction is a run-time flag of the INSTANCE (default state = GT), so that
// container variables of one type can order differently and the comparator has to travel with the tree.
template <class Key, bool GT> struct DirCmp {
    bool gt;
    DirCmp() : gt(GT) {}
    explicit DirCmp(bool g) : gt(g) {}
    bool operator()(const Key& a, const Key& b) const { return gt ? kval(b) < kval(a) : kval(a) < kval(b); }
};

// Allocator with per-instance identity: every instance belongs to an arena (id); operator== compares ids;
// each arena keeps its own ledger; a block must be returned through the arena it came from.  The totals also
// go to verif::AllocLedger (per-operation deltas, leak check).
struct Arenas {
    std::map<const void*, int> owner;          // live block -> arena that allocated it
    std::map<int, long> allocs, frees;
    static Arenas& get() { static Arenas a; return a; }
};
template <typename T>
struct ArenaAlloc {
    using value_type = T;
    using size_type = std::size_t;
    using difference_type = std::ptrdiff_t;
    using pointer = T*;
    using const_pointer = const T*;
    using reference = T&;
    using const_reference = const T&;
    template <typename U> struct rebind { using other = ArenaAlloc<U>; };
    int id;
    ArenaAlloc() noexcept : id(0) {}
    explicit ArenaAlloc(int i) noexcept : id(i) {}
    template <typename U> ArenaAlloc(const ArenaAlloc<U>& o) noexcept : id(o.id) {}
    T* allocate(size_t n) {
        T* p = std::allocator<T>().allocate(n ? n : 1);
        auto& L = verif::AllocLedger::get(); ++L.allocs; L.blocks[p] = n;
        auto& A = Arenas::get(); A.owner[p] = id; ++A.allocs[id];
        return p;
    }
    void deallocate(T* p, size_t n) {
        if (p == nullptr) return;
        auto& L = verif::AllocLedger::get(); auto& A = Arenas::get();
        auto it = L.blocks.find(p);
        if (it == L.blocks.end()) { L.err("deallocate of unknown/freed block", p); return; }
        if (it->second != n) L.err("deallocate with wrong size", p);
        if (A.owner[p] != id) L.err("deallocate through a foreign arena", p);
        A.owner.erase(p); ++A.frees[id];
        L.blocks.erase(it); ++L.frees;
        std::allocator<T>().deallocate(p, n ? n : 1);
    }
    template <typename U, typename... Args> void construct(U* p, Args&&... args) { ::new (static_cast<void*>(p)) U(std::forward<Args>(args)...); }
    template <typename U> void destroy(U* p) { p->~U(); }
    template <typename U> bool operator==(const ArenaAlloc<U>& o) const { return id == o.id; }
    template <typename U> bool operator!=(const ArenaAlloc<U>& o) const { return id != o.id; }
};
// direction of a comparator instance (stateless comparators: ascending) and construction from a direction
template <class Cmp> static auto cmp_dir(const Cmp& c, int) -> decltype(c.gt) { return c.gt; }
template <class Cmp> static bool cmp_dir(const Cmp&, long) { return false; }
template <class Cmp> static Cmp make_cmp(bool gt) {
    if constexpr (std::is_constructible<Cmp, bool>::value) return Cmp(gt); else return Cmp();
}
// an allocator of arena `id` where the container's allocator has arenas (tlx side), a default one otherwise
template <class X> static typename X::allocator_type make_alloc(int id) {
    if constexpr (std::is_constructible<typename X::allocator_type, int>::value) return typename X::allocator_type(id);
    else return typename X::allocator_type();
}

template <int L, int I, bool BIN>
struct Tr {
    // the tree's own self-verification (verify() inside insert / erase / copy / bulk_load, and the linear
    // cross-check inside the binary search) is switched on for a third of the capacity pairs
    static const bool self_verify = ((L + I) % 3 == 0);
    static const bool debug = false;
    static const int leaf_slots = L;
    static const int inner_slots = I;
    static const size_t binsearch_threshold = BIN ? 0 : static_cast<size_t>(-1);
};

// ------------------------------------------------------------------ the four kinds
// xxxB<GT>: element types, comparator, std reference container (shared by all capacities);
// xxxK<GT, L, I, BIN>: the tlx container for one (leaf slots, inner slots, search strategy).
template <bool GT>
struct setB {     // set<Tracked>: heap-owning keys in leaves and inner nodes
    typedef Tracked Key;
    typedef DirCmp<Key, GT> Cmp;
    typedef std::set<Key, Cmp> S;
    static const bool dup = false, ismap = false;
    static Key mk(int k, int) { return Key(k); }
    template <class VT> static int kof(const VT& v) { return kval(v); }
    template <class VT> static int dof(const VT&) { return 0; }
};
template <bool GT, int L, int I, bool BIN>
struct setK {
    typedef setB<GT> B;
    typedef tlx::btree_set<typename B::Key, typename B::Cmp, Tr<L, I, BIN>, ArenaAlloc<typename B::Key>> C;
};
template <bool GT>
struct msetB {    // multiset<HKey>: heap-owning keys with a visible moved-from state, duplicates
    typedef Tracked Key;
    typedef DirCmp<Key, GT> Cmp;
    typedef std::multiset<Key, Cmp> S;
    static const bool dup = true, ismap = false;
    static Key mk(int k, int) { return Key(k); }
    template <class VT> static int kof(const VT& v) { return kval(v); }
    template <class VT> static int dof(const VT&) { return 0; }
};
template <bool GT, int L, int I, bool BIN>
struct msetK {
    typedef msetB<GT> B;
    typedef tlx::btree_multiset<typename B::Key, typename B::Cmp, Tr<L, I, BIN>, ArenaAlloc<typename B::Key>> C;
};
template <bool GT>
struct imsB {     // multiset<int>: trivial element type (also used for the huge node capacities)
    typedef int Key;
    typedef DirCmp<Key, GT> Cmp;
    typedef std::multiset<Key, Cmp> S;
    static const bool dup = true, ismap = false;
    static Key mk(int k, int) { return k; }
    template <class VT> static int kof(const VT& v) { return kval(v); }
    template <class VT> static int dof(const VT&) { return 0; }
};
template <bool GT, int L, int I, bool BIN>
struct imsK {
    typedef imsB<GT> B;
    typedef tlx::btree_multiset<typename B::Key, typename B::Cmp, Tr<L, I, BIN>, ArenaAlloc<typename B::Key>> C;
};
// "dms": btree_multiset<int> with the DEFAULT Compare (std::less) and the DEFAULT traits
// (btree_default_traits: 64 leaf slots, 21 inner slots for int on LP64, binsearch_threshold 256);
// the configuration name carries those numbers for the model, run_case checks them against the real type
struct dmsB {
    typedef int Key;
    typedef std::less<int> Cmp;
    typedef std::multiset<Key> S;
    static const bool dup = true, ismap = false;
    static Key mk(int k, int) { return k; }
    template <class VT> static int kof(const VT& v) { return kval(v); }
    template <class VT> static int dof(const VT&) { return 0; }
};
template <bool GT, int L, int I, bool BIN>
struct dmsK {
    typedef dmsB B;
    typedef tlx::btree_multiset<int, std::less<int>, tlx::btree_default_traits<int, int>, ArenaAlloc<int>> C;
};
template <bool GT>
struct mapB {     // map<int, Tracked>
    typedef int Key;
    typedef Tracked Data;
    typedef DirCmp<Key, GT> Cmp;
    typedef std::map<Key, Data, Cmp> S;
    static const bool dup = false, ismap = true;
    static std::pair<Key, Data> mk(int k, int d) { return std::pair<Key, Data>(k, Data(d)); }
    template <class VT> static int kof(const VT& v) { return kval(v.first); }
    template <class VT> static int dof(const VT& v) { return kval(v.second); }
};
template <bool GT, int L, int I, bool BIN>
struct mapK {
    typedef mapB<GT> B;
    typedef tlx::btree_map<typename B::Key, typename B::Data, typename B::Cmp, Tr<L, I, BIN>,
                           ArenaAlloc<std::pair<typename B::Key, typename B::Data>>> C;
};
template <bool GT>
struct mmapB {    // multimap<Tracked, int>
    typedef Tracked Key;
    typedef int Data;
    typedef DirCmp<Key, GT> Cmp;
    typedef std::multimap<Key, Data, Cmp> S;
    static const bool dup = true, ismap = true;
    static std::pair<Key, Data> mk(int k, int d) { return std::pair<Key, Data>(Key(k), d); }
    template <class VT> static int kof(const VT& v) { return kval(v.first); }
    template <class VT> static int dof(const VT& v) { return kval(v.second); }
};
template <bool GT, int L, int I, bool BIN>
struct mmapK {
    typedef mmapB<GT> B;
    typedef tlx::btree_multimap<typename B::Key, typename B::Data, typename B::Cmp, Tr<L, I, BIN>,
                                ArenaAlloc<std::pair<typename B::Key, typename B::Data>>> C;
};

// ------------------------------------------------------------------ structure dump through the friend door
struct BtAccess {
    template <class BT>
    static void dump_node(const typename BT::node* n, std::string& out) {
        char b[24];
        if (n->is_leafnode()) {
            const typename BT::LeafNode* l = static_cast<const typename BT::LeafNode*>(n);
            out += '(';
            for (unsigned s = 0; s < l->slotuse; ++s) { snprintf(b, sizeof b, s ? ",%d" : "%d", kval(l->key(s))); out += b; }
            out += ')';
        } else {
            const typename BT::InnerNode* in = static_cast<const typename BT::InnerNode*>(n);
            out += '[';
            for (unsigned s = 0; s < in->slotuse; ++s) { snprintf(b, sizeof b, s ? ",%d" : "%d", kval(in->slotkey[s])); out += b; }
            out += '|';
            for (unsigned s = 0; s <= in->slotuse; ++s) dump_node<BT>(in->childid[s], out);
            out += ']';
        }
    }
    // do the capacities / search strategy of the real type equal what the configuration name tells the model?
    template <class C> static bool params_ok(int L, int I, bool BIN) {
        typedef typename C::btree_impl BT;
        bool leaf_bin = sizeof(typename BT::LeafNode) > BT::traits::binsearch_threshold;
        bool inner_bin = sizeof(typename BT::InnerNode) > BT::traits::binsearch_threshold;
        return BT::leaf_slotmax == L && BT::inner_slotmax == I && leaf_bin == BIN && inner_bin == BIN;
    }
    // BTree::swap on the underlying trees (the facades' own swap() goes through std::swap of the trees)
    template <class C> static void tree_swap(C& a, C& b) { a.tree_.swap(b.tree_); }
    template <class C>
    static std::string dump(const C& c) {
        typedef typename C::btree_impl BT;
        std::string out;
        if (c.tree_.root_ == nullptr) return "-";
        dump_node<BT>(c.tree_.root_, out);
        return out;
    }
};

// ------------------------------------------------------------------ ops
struct Op { std::string name; std::vector<long> f; };

static std::vector<Op> parse_ops(std::istringstream& in) {
    std::vector<Op> ops; std::string tok;
    while (in >> tok) {
        Op o; size_t p = 0; bool first = true;
        while (p <= tok.size()) {
            size_t q = tok.find(',', p); if (q == std::string::npos) q = tok.size();
            std::string part = tok.substr(p, q - p);
            if (first) { o.name = part; first = false; } else o.f.push_back(atol(part.c_str()));
            p = q + 1;
        }
        ops.push_back(o);
    }
    return ops;
}

static void reset_ledgers() {
    auto& L = verif::Ledger::get(); L.live.clear(); L.constructed = L.destroyed = L.errors = 0; L.first_error.clear();
    auto& A = verif::AllocLedger::get(); A.blocks.clear(); A.allocs = A.frees = A.errors = 0; A.first_error.clear();
    auto& R = Arenas::get(); R.owner.clear(); R.allocs.clear(); R.frees.clear();
}
static std::string final_status() {
    auto& L = verif::Ledger::get(); auto& A = verif::AllocLedger::get();
    if (L.errors) return "bad:" + L.first_error.substr(0, L.first_error.find(" @"));
    if (A.errors) return "bad:" + A.first_error.substr(0, A.first_error.find(" @"));
    if (!L.live.empty()) return "bad:leaked elements";
    if (!A.blocks.empty()) return "bad:leaked blocks";
    auto& R = Arenas::get();
    for (auto& kv : R.allocs) if (R.frees[kv.first] != kv.second) return "bad:arena " + std::to_string(kv.first) + " unbalanced";
    for (auto& kv : R.frees) if (R.allocs[kv.first] != kv.second) return "bad:arena " + std::to_string(kv.first) + " unbalanced";
    return "ok";
}

// ------------------------------------------------------------------ generic container operations
// (the same templates drive the tlx container and the std container)
template <class Y, class = void> struct has_insert2 : std::false_type {};
template <class Y>
struct has_insert2<Y, decltype(void(std::declval<Y&>().insert2(std::declval<const typename Y::key_type&>(),
                                                                 std::declval<const typename Y::value_type&>().second)))> : std::true_type {};

template <class Y, class = void> struct is_tlx : std::false_type {};
template <class Y> struct is_tlx<Y, decltype(void(sizeof(typename Y::btree_impl)))> : std::true_type {};

template <class KD, class X> struct Ops {
    typedef typename X::iterator It;
    typedef typename X::key_compare Cmp;

    static bool equiv(const X& x, int a, int b) {
        Cmp c = x.key_comp();
        typename KD::Key ka = mkkey(a), kb = mkkey(b);
        return !c(ka, kb) && !c(kb, ka);
    }
    static typename KD::Key mkkey(int k) { return keyof(KD::mk(k, 0)); }
    static typename KD::Key keyof(const typename KD::Key& k) { return k; }
    // reference to the key INSIDE a stored value (argument-aliasing call modes)
    static const typename KD::Key& keyref(const typename KD::Key& k) { return k; }
    template <class A, class B> static const typename KD::Key& keyref(const std::pair<A, B>& p) { return p.first; }
    template <class A, class B> static typename KD::Key keyof(const std::pair<A, B>& p) { return p.first; }

    // rank of an iterator by identity (walk from begin()); -1 = not an iterator of this container
    static long rank_of(X& x, It it) {
        long r = 0;
        for (It y = x.begin(); y != x.end(); ++y, ++r) if (y == it) return r;
        if (it == x.end()) return r;
        return -1;
    }
    typedef typename X::const_iterator CIt;
    // the same through a const reference: const_iterator identity against a walk from the const begin()
    static std::string cpos(const X& x, CIt it) {
        long r = 0;
        for (CIt y = x.begin(); y != x.end(); ++y, ++r) if (y == it) return std::to_string(r);
        if (it == x.end()) return std::to_string(r);
        return "!";
    }
    static std::string pos(X& x, It it) {
        long r = rank_of(x, it);
        if (r < 0) return "!";
        return std::to_string(r);
    }
    // insert, both flavours
    static std::pair<It, bool> ins(X& x, const typename X::value_type& v, std::true_type) { It it = x.insert(v); return std::make_pair(it, true); }
    static std::pair<It, bool> ins(X& x, const typename X::value_type& v, std::false_type) { return x.insert(v); }

    // canonical description of the iterator returned by any insert flavour
    static std::string describe_insert(X& x, It it, bool inserted, int k, int d) {
        long rk = rank_of(x, it);
        if (rk < 0 || it == x.end()) return "I!baditer";
        if (!equiv(x, KD::kof(*it), k)) return "I!wrongkey";
        if (inserted && KD::dof(*it) != d) return "I!wrongdata";
        // canonical position: start of the run of equivalent keys
        It y = it; long c = 0;
        while (y != x.begin()) { --y; if (equiv(x, KD::kof(*y), k)) ++c; else break; }
        return std::string("I") + (inserted ? "1:" : "0:") + std::to_string(rk - c);
    }
    static std::string insert(X& x, int k, int d) {
        std::pair<It, bool> r = ins(x, KD::mk(k, d), std::integral_constant<bool, KD::dup>());
        return describe_insert(x, r.first, r.second, k, d);
    }
    static It hint_of(X& x, int k, long j) {
        switch (j % 3) { case 0: return x.begin(); case 1: return x.end(); default: return x.lower_bound(mkkey(k)); }
    }
    // insert(iterator hint, value): returns an iterator only; "inserted" is read off size()
    static std::string insert_hint(X& x, int k, int d, long j) {
        size_t before = x.size();
        It it = x.insert(hint_of(x, k, j), KD::mk(k, d));
        return describe_insert(x, it, x.size() == before + 1, k, d);
    }
    // insert2(key, data) / insert2(hint, key, data): tlx map facades only (elsewhere: the plain overloads)
    static It first_of(It it) { return it; }
    static It first_of(const std::pair<It, bool>& p) { return p.first; }
    static std::string insert2(X& x, int k, int d) {
        if constexpr (has_insert2<X>::value) {
            auto v = KD::mk(k, d); size_t before = x.size();
            auto r = x.insert2(v.first, v.second);
            return describe_insert(x, first_of(r), x.size() == before + 1, k, d);
        } else {
            return insert(x, k, d);
        }
    }
    static std::string insert_hint2(X& x, int k, int d, long j) {
        if constexpr (has_insert2<X>::value) {
            auto v = KD::mk(k, d); size_t before = x.size();
            It it = x.insert2(hint_of(x, k, j), v.first, v.second);
            return describe_insert(x, it, x.size() == before + 1, k, d);
        } else {
            return insert_hint(x, k, d, j);
        }
    }
    // ARGUMENT ALIASING: the value / key handed to the member is a reference to an entry stored in the same
    // container (x.insert(*it), x.insert(hint, *it), x.insert2(it->first, it->second), x[it->first]); the call
    // must behave as if it had been given a copy of the argument's value at call time
    static std::string insert_alias(X& x, const std::string& base, It a, int k, int d, long j) {
        const typename X::value_type& av = *a;
        size_t before = x.size();
        It it;
        if (base == "Ih") it = x.insert(hint_of(x, k, j), av);
        else if (base == "I2") {
            if constexpr (has_insert2<X>::value) it = first_of(x.insert2(av.first, av.second));
            else it = ins(x, av, std::integral_constant<bool, KD::dup>()).first;
        }
        else if (base == "Ib") {
            if constexpr (KD::ismap && !KD::dup) { int seen = kval(x[keyref(av)]); it = x.find(mkkey(k)); if (it == x.end() || KD::dof(*it) != seen) return "I!bracket"; }
            else it = ins(x, av, std::integral_constant<bool, KD::dup>()).first;
        }
        else it = ins(x, av, std::integral_constant<bool, KD::dup>()).first;
        return describe_insert(x, it, x.size() == before + 1, k, d);
    }
    // operator[] (unique maps): creates a default entry for an absent key, which is then assigned
    static std::string insert_bracket(X& x, int k, int d) {
        if constexpr (KD::ismap && !KD::dup) {
            bool had = x.count(mkkey(k)) != 0;
            if (!had) { x[mkkey(k)] = KD::mk(k, d).second; }
            else { int seen = kval(x[mkkey(k)]); It f = x.find(mkkey(k)); if (f == x.end() || KD::dof(*f) != seen) return "I!bracket"; }
            It it = x.find(mkkey(k));
            return describe_insert(x, it, !had, k, d);
        } else {
            return insert(x, k, d);
        }
    }
    // j-th element of the run of k whose data is d (sets: d == 0 for all)
    static bool locate(X& x, int k, int d, long j, It& out) {
        std::vector<It> cand;
        for (It y = x.begin(); y != x.end(); ++y)
            if (equiv(x, KD::kof(*y), k) && KD::dof(*y) == d) cand.push_back(y);
        if (cand.empty()) return false;
        out = cand[static_cast<size_t>(j) % cand.size()];
        return true;
    }
    // reverse -> forward: tlx has converting constructors, std has base()
    template <class F, class Rv> static F to_forward(const Rv& r) {
        if constexpr (is_tlx<X>::value) return F(r); else return F(r.base());
    }
    // steps an iterator of kind I over [first, last) with postfix ++, back with prefix -- and postfix --;
    // returns the name of the first operator that misbehaves (nullptr: all fine)
    template <class I>
    static const char* walk_all(I first, I last, const std::vector<std::pair<int, int>>& e) {
        size_t n = 0;
        I y = first;
        while (y != last) {
            I old = y++;
            if (old == y || !(old != y)) return "postfix++";
            if (n >= e.size() || KD::kof(*old) != e[n].first || KD::dof(*old) != e[n].second) return "postfix++-sequence";
            if (&*old != old.operator->()) return "arrow";
            ++n;
        }
        if (n != e.size()) return "postfix++-length";
        y = last;
        while (y != first) { if (n == 0) return "prefix---overrun"; --y; --n; if (KD::kof(*y) != e[n].first || KD::dof(*y) != e[n].second) return "prefix---sequence"; }
        if (n != 0) return "prefix---length";
        y = last; n = e.size();
        while (y != first) { if (n == 0) return "postfix---overrun"; I old = y--; if (old == y) return "postfix--"; --n; if (KD::kof(*y) != e[n].first || KD::dof(*y) != e[n].second) return "postfix---sequence"; }
        if (n != 0) return "postfix---length";
        return nullptr;
    }
    static std::string iterate(X& x) {
        std::vector<std::pair<int, int>> fwd, rev;
        for (It y = x.begin(); y != x.end(); ++y) fwd.push_back(std::make_pair(KD::kof(*y), KD::dof(*y)));
        for (typename X::reverse_iterator y = x.rbegin(); y != x.rend(); ++y) rev.push_back(std::make_pair(KD::kof(*y), KD::dof(*y)));
        const X& cx = x;
        std::vector<std::pair<int, int>> cfwd;
        for (typename X::const_iterator y = cx.begin(); y != cx.end(); ++y) cfwd.push_back(std::make_pair(KD::kof(*y), KD::dof(*y)));
        std::vector<std::pair<int, int>> r2(rev.rbegin(), rev.rend());
        if (r2 != fwd) return "T!reverse";
        if (cfwd != fwd) return "T!const";
        if (fwd.size() != x.size()) return "T!size";
        if (x.empty() != (x.size() == 0)) return "T!empty";
        if (cx.empty() != x.empty() || cx.size() != x.size()) return "T!constsize";
        {   // const_reverse_iterator through the const reference
            std::vector<std::pair<int, int>> crev;
            for (typename X::const_reverse_iterator y = cx.rbegin(); y != cx.rend(); ++y) crev.push_back(std::make_pair(KD::kof(*y), KD::dof(*y)));
            if (crev != rev) return "T!constreverse";
        }
        {   // every operator of the four iterator kinds: postfix ++, prefix/postfix --, ->, key(), copies, == / !=
            const char* e = walk_all<It>(x.begin(), x.end(), fwd);                       if (e) return std::string("T!iterator-") + e;
            e = walk_all<CIt>(cx.begin(), cx.end(), fwd);                                if (e) return std::string("T!const_iterator-") + e;
            e = walk_all<typename X::reverse_iterator>(x.rbegin(), x.rend(), rev);       if (e) return std::string("T!reverse_iterator-") + e;
            e = walk_all<typename X::const_reverse_iterator>(cx.rbegin(), cx.rend(), rev); if (e) return std::string("T!const_reverse_iterator-") + e;
            // conversions between the iterator kinds at EVERY position (leaf boundaries included), with the
            // semantics of std::reverse_iterator: reverse_iterator(it) stands on the element before it and
            // converts back to it (base())
            typedef typename X::reverse_iterator R;
            typedef typename X::const_reverse_iterator CR;
            std::vector<It> pos; for (It y = x.begin();; ++y) { pos.push_back(y); if (y == x.end() || pos.size() > fwd.size() + 1) break; }
            std::vector<R> rpos; for (R y = x.rbegin();; ++y) { rpos.push_back(y); if (y == x.rend() || rpos.size() > fwd.size() + 1) break; }
            const size_t n = fwd.size();
            if (pos.size() != n + 1 || rpos.size() != n + 1) return "T!positions";
            for (size_t p = 0; p <= n; ++p) {
                R r(pos[p]);                                   // forward -> reverse
                if (r != rpos[n - p]) return "T!conv-iterator-to-reverse_iterator@" + std::to_string(p);
                if (p > 0 && (KD::kof(*r) != fwd[p - 1].first || KD::dof(*r) != fwd[p - 1].second)) return "T!conv-deref-reverse@" + std::to_string(p);
                It back = to_forward<It>(rpos[n - p]);         // reverse -> forward
                if (back != pos[p]) return "T!conv-reverse_iterator-to-iterator@" + std::to_string(p);
                if (p < n && (KD::kof(*back) != fwd[p].first || KD::dof(*back) != fwd[p].second)) return "T!conv-deref-forward@" + std::to_string(p);
                CIt cf(pos[p]);                                // mutable -> const
                CR cr(cf);                                     // const forward -> const reverse
                CR cr2(rpos[n - p]);                           // reverse -> const reverse
                if (cr != cr2) return "T!conv-const_iterator-to-const_reverse_iterator@" + std::to_string(p);
                if (p > 0 && KD::kof(*cr) != fwd[p - 1].first) return "T!conv-deref-const_reverse@" + std::to_string(p);
#ifdef TLX_HAS_CRI_TO_CI
                // const reverse -> const forward.  tlx declares const_iterator(const const_reverse_iterator&), but
                // const_reverse_iterator does not befriend const_iterator, so the constructor is ill-formed when
                // used (docs/audit/C01.md, F3); compiled in only with -DTLX_HAS_CRI_TO_CI (after a fix)
                CIt cback = to_forward<CIt>(cr2);
                if (cback != cf) return "T!conv-const_reverse_iterator-to-const_iterator@" + std::to_string(p);
#else
                if constexpr (!is_tlx<X>::value) {
                    CIt cback = to_forward<CIt>(cr2);
                    if (cback != cf) return "T!conv-const_reverse_iterator-to-const_iterator@" + std::to_string(p);
                }
#endif
                if constexpr (is_tlx<X>::value) {              // the mixed-constness constructors tlx has in addition
                    CR cr3(pos[p]);                            // iterator -> const_reverse_iterator
                    if (cr3 != cr2) return "T!conv-iterator-to-const_reverse_iterator@" + std::to_string(p);
                    CIt c3(rpos[n - p]);                       // reverse_iterator -> const_iterator
                    if (c3 != cf) return "T!conv-reverse_iterator-to-const_iterator@" + std::to_string(p);
                }
            }
            if (CIt(x.begin()) != cx.begin() || CIt(x.end()) != cx.end()) return "T!iterator-to-const_iterator";
            if (CR(x.rbegin()) != cx.rbegin() || CR(x.rend()) != cx.rend()) return "T!reverse-to-const_reverse";
        }
        if constexpr (is_tlx<X>::value) {
            const typename X::tree_stats& st = cx.get_stats();
            if (st.nodes() != st.leaves + st.inner_nodes || st.size != x.size()) return "T!stats";
            if (st.size > 0) { double f = st.avgfill_leaves(); if (!(f > 0.0 && f <= 1.0)) return "T!avgfill"; }
            if (st.leaf_slots != X::leaf_slotmax || st.inner_slots != X::inner_slotmax) return "T!stat-slots";
        }
        if (x.max_size() < x.size()) return "T!max_size";
        { typename X::allocator_type al = cx.get_allocator(); (void)al; }
        { typename X::value_compare vc = cx.value_comp(); (void)vc; typename X::key_compare kc = cx.key_comp();
          for (size_t i = 0; i + 1 < fwd.size(); ++i) if (kc(mkkey(fwd[i + 1].first), mkkey(fwd[i].first))) return "T!key_comp";
          if constexpr (KD::ismap) {   // value_compare is callable on pairs only (the set facades' value_compare names x.first)
              CIt a = cx.begin();
              if (a != cx.end()) { CIt b = a; ++b; for (; b != cx.end(); ++a, ++b) if (vc(*b, *a)) return "T!value_comp"; }
          }
        }
        // stepping back from end() must reach every element as well
        { size_t n = 0; It y = x.end(); while (y != x.begin()) { --y; ++n; if (n > fwd.size() + 1) break; } if (n != fwd.size()) return "T!backstep"; }
        // canonical: data sorted within runs of equivalent keys
        size_t a = 0;
        while (a < fwd.size()) {
            size_t b = a + 1;
            while (b < fwd.size() && equiv(x, fwd[b].first, fwd[a].first)) ++b;
            std::sort(fwd.begin() + a, fwd.begin() + b, [](const std::pair<int, int>& p, const std::pair<int, int>& q) { return p.second < q.second; });
            a = b;
        }
        std::string s = "T" + std::to_string(fwd.size()) + ":";
        for (size_t i = 0; i < fwd.size(); ++i) { if (i) s += ','; s += std::to_string(fwd[i].first) + "." + std::to_string(fwd[i].second); }
        return s;
    }
    // after a whole-container operation: the tree must be consistent with the comparator it NOW carries
    static std::string selfcheck(X& x) {
        typename X::key_compare kc = x.key_comp();
        bool have = false; int prev = 0; size_t n = 0;
        for (It y = x.begin(); y != x.end(); ++y, ++n) {
            int k = KD::kof(*y);
            if (have && kc(mkkey(k), mkkey(prev))) return "!unsorted-for-current-comparator";
            It f = x.find(mkkey(k));
            if (f == x.end() || !equiv(x, KD::kof(*f), k)) return "!find-misses-stored-key";
            if (x.count(mkkey(k)) == 0) return "!count-misses-stored-key";
            have = true; prev = k;
        }
        if (n != x.size()) return "!size";
        return "";
    }
    static std::string compare(X& a, X& b) {
        bool eq = (a == b), ne = (a != b), lt = (a < b), gt = (a > b), le = (a <= b), ge = (a >= b);
        if (ne != !eq || le != !gt || ge != !lt) return "M!inconsistent";
        if (KD::dup && KD::ismap) {
            // the order of equal-key entries is not fixed by the property: only self-consistency is observable
            bool eq2 = a.size() == b.size() && std::equal(a.begin(), a.end(), b.begin());
            bool lt2 = std::lexicographical_compare(a.begin(), a.end(), b.begin(), b.end());
            bool gt2 = std::lexicographical_compare(b.begin(), b.end(), a.begin(), a.end());
            return (eq == eq2 && lt == lt2 && gt == gt2) ? "Mc" : "M!self";
        }
        return std::string("M") + (eq ? "1" : "0") + (lt ? "1" : "0") + (gt ? "1" : "0");
    }
};

// API differences between the tlx facades and the std containers
template <class C> static bool api_exists(C& c, const typename C::key_type& k, long) { return c.count(k) != 0; }
template <class C> static auto api_exists(C& c, const typename C::key_type& k, int) -> decltype(c.exists(k)) { return c.exists(k); }
template <class C> static bool api_erase_one(C& c, const typename C::key_type& k, long) {
    typename C::iterator it = c.find(k); if (it == c.end()) return false; c.erase(it); return true;
}
template <class C> static auto api_erase_one(C& c, const typename C::key_type& k, int) -> decltype(c.erase_one(k)) { return c.erase_one(k); }
template <class C, class Vec> static void api_bulk(C& c, Vec& v, long) { c.insert(v.begin(), v.end()); }
template <class C, class Vec> static auto api_bulk(C& c, Vec& v, int) -> decltype(c.bulk_load(v.begin(), v.end())) { c.bulk_load(v.begin(), v.end()); }

template <class KD, class X>
static std::string do_op(std::unique_ptr<X>* c, const Op& o) {
    typedef Ops<KD, X> O;
    const std::string& n = o.name; const std::vector<long>& f = o.f;
    X& x = *c[f[0]];
    const X& cx = x;
    if (n.size() > 1 && n[n.size() - 1] == 'a') {
        // argument-aliasing mode of the base operation: the key / value argument is a reference to the j-th
        // stored entry with key f[1] and data f[2] (none stored: the plain call)
        const std::string base = n.substr(0, n.size() - 1);
        const int k = f[1], d = KD::ismap ? f[2] : 0;
        typename X::iterator a;
        if (!O::locate(x, k, d, f[3], a)) {
            Op plain = o; plain.name = base;
            if (base == "Ih" || base == "Ih2") plain.f[3] = f[3];
            return do_op<KD, X>(c, plain);
        }
        const typename X::key_type& ak = O::keyref(*a);
        if (base == "I" || base == "Ih" || base == "I2" || base == "Ib") return O::insert_alias(x, base, a, k, d, f[3]);
        if (base == "E1") return api_erase_one(x, ak, 0) ? "E1" : "E0";
        if (base == "EK") return "K" + std::to_string(x.erase(ak));
        if (base == "F") return "F" + O::pos(x, x.find(ak));
        if (base == "X") return api_exists(x, ak, 0) ? "X1" : "X0";
        if (base == "C") return "C" + std::to_string(cx.count(ak));
        if (base == "L") return "L" + O::pos(x, x.lower_bound(ak));
        if (base == "U") return "U" + O::cpos(cx, cx.upper_bound(ak));
        if (base == "R") { auto p = x.equal_range(ak); return "R" + O::pos(x, p.first) + "-" + O::pos(x, p.second); }
        return "?";
    }
    if (n == "I") return O::insert(x, f[1], KD::ismap ? f[2] : 0);
    if (n == "Ih") return O::insert_hint(x, f[1], KD::ismap ? f[2] : 0, f[3]);
    if (n == "I2") return O::insert2(x, f[1], KD::ismap ? f[2] : 0);
    if (n == "Ih2") return O::insert_hint2(x, f[1], KD::ismap ? f[2] : 0, f[3]);
    if (n == "Ib") return O::insert_bracket(x, f[1], KD::ismap ? f[2] : 0);
    if (n == "IR") {      // insert(first, last)
        std::vector<typename X::value_type> v;
        for (size_t i = 2; i + 1 < f.size(); i += 2) v.push_back(KD::mk(f[i], KD::ismap ? f[i + 1] : 0));
        x.insert(v.begin(), v.end());
        return "-";
    }
    if (n == "CR") {      // destroy the variable, re-create it with one of the range constructors
        std::vector<typename X::value_type> v;
        for (size_t i = 3; i + 1 < f.size(); i += 2) v.push_back(KD::mk(f[i], KD::ismap ? f[i + 1] : 0));
        c[f[0]].reset();
        switch (f[1] % 4) {
        case 0: c[f[0]].reset(new X(v.begin(), v.end())); break;
        case 1: c[f[0]].reset(new X(v.begin(), v.end(), make_alloc<X>((f[1] / 4) % 3))); break;
        case 2: c[f[0]].reset(new X(v.begin(), v.end(), typename X::key_compare())); break;
        default: c[f[0]].reset(new X(v.begin(), v.end(), typename X::key_compare(), make_alloc<X>((f[1] / 4) % 3))); break;
        }
        return "-" + O::selfcheck(*c[f[0]]);
    }
    if (n == "NC") {      // destroy the variable, re-create it empty with comparator state f[1] over arena f[2]
        c[f[0]].reset();
        c[f[0]].reset(new X(make_cmp<typename X::key_compare>(f[1] != 0), make_alloc<X>(f[2])));
        return "-" + O::selfcheck(*c[f[0]]);
    }
    if (n == "SWt") {     // BTree::swap called directly on the underlying trees (std: member swap)
        if constexpr (is_tlx<X>::value) BtAccess::tree_swap(x, *c[f[1]]); else x.swap(*c[f[1]]);
        return "-" + O::selfcheck(x) + O::selfcheck(*c[f[1]]);
    }
    if (n == "Fc") return "F" + O::cpos(cx, cx.find(O::mkkey(f[1])));
    if (n == "Lc") return "L" + O::cpos(cx, cx.lower_bound(O::mkkey(f[1])));
    if (n == "Uc") return "U" + O::cpos(cx, cx.upper_bound(O::mkkey(f[1])));
    if (n == "Rc") { auto p = cx.equal_range(O::mkkey(f[1])); return "R" + O::cpos(cx, p.first) + "-" + O::cpos(cx, p.second); }
    if (n == "SWs") { using std::swap; swap(x, *c[f[1]]); return "-" + O::selfcheck(x) + O::selfcheck(*c[f[1]]); }
    if (n == "E1") return api_erase_one(x, O::mkkey(f[1]), 0) ? "E1" : "E0";
    if (n == "EK") return "K" + std::to_string(x.erase(O::mkkey(f[1])));
    if (n == "EI") { typename X::iterator it; if (!O::locate(x, f[1], KD::ismap ? f[2] : 0, f[3], it)) return "D-"; x.erase(it); return "D1"; }
    if (n == "F") return "F" + O::pos(x, x.find(O::mkkey(f[1])));
    if (n == "X") return api_exists(x, O::mkkey(f[1]), 0) ? "X1" : "X0";
    if (n == "C") return "C" + std::to_string(cx.count(O::mkkey(f[1])));
    if (n == "L") return "L" + O::pos(x, x.lower_bound(O::mkkey(f[1])));
    if (n == "U") return "U" + O::pos(x, x.upper_bound(O::mkkey(f[1])));
    if (n == "R") { auto p = x.equal_range(O::mkkey(f[1])); return "R" + O::pos(x, p.first) + "-" + O::pos(x, p.second); }
    if (n == "T") return O::iterate(x);
    if (n == "CL") { x.clear(); return "-"; }
    if (n == "AS") { x = *c[f[1]]; return "-" + O::selfcheck(x); }
    if (n == "CC") { if (f[0] == f[1]) return "?"; c[f[0]].reset(); const X& src = *c[f[1]]; c[f[0]].reset(new X(src)); return "-" + O::selfcheck(*c[f[0]]); }
    if (n == "SW") { x.swap(*c[f[1]]); return "-" + O::selfcheck(x) + O::selfcheck(*c[f[1]]); }
    if (n == "CMP") return O::compare(x, *c[f[1]]);
    if (n == "B") {
        if (!x.empty()) return "?";
        std::vector<typename X::value_type> v;
        for (size_t i = 2; i + 1 < f.size(); i += 2) v.push_back(KD::mk(f[i], KD::ismap ? f[i + 1] : 0));
        api_bulk(x, v, 0);
        return "-";
    }
    return "?";
}

static bool mutating(const std::string& n) {
    if (n == "Ia" || n == "Iha" || n == "I2a" || n == "Iba" || n == "E1a" || n == "EKa") return true;
    return n == "I" || n == "Ih" || n == "I2" || n == "Ih2" || n == "Ib" || n == "IR" || n == "CR" || n == "NC" || n == "SWs" || n == "SWt" || n == "E1" || n == "EK" || n == "EI" || n == "CL" || n == "AS" || n == "CC" || n == "SW" || n == "B";
}

template <class KC>
static std::string run_case(const std::vector<Op>& ops, std::string* dumps) {
    typedef typename KC::B KD;
    typedef typename KC::C C;
    typedef typename KD::S S;
    reset_ledgers();
    std::ostringstream out;
    std::string stddiff;
    {
        std::unique_ptr<C> c[3];
        std::unique_ptr<S> s[3];
        // default, allocator-extended and comparator+allocator constructors
        c[0].reset(new C()); s[0].reset(new S());
        // over three DIFFERENT arenas (ids 0, 1, 2)
        c[1].reset(new C(make_alloc<C>(1))); s[1].reset(new S(typename S::allocator_type()));
        c[2].reset(new C(typename C::key_compare(), make_alloc<C>(2)));
        s[2].reset(new S(typename S::key_compare(), typename S::allocator_type()));
        // comparator state every variable must carry (it travels with copy, assignment and every swap)
        const bool dir0 = cmp_dir(typename C::key_compare(), 0);
        bool dir[3] = {dir0, dir0, dir0};
        auto& A = verif::AllocLedger::get();
        for (size_t k = 0; k < ops.size(); ++k) {
            const Op& o = ops[k];
            long a0 = A.allocs, f0 = A.frees;
            std::vector<int> before_run;
            if (KD::dup && KD::ismap && (o.name == "E1" || o.name == "E1a"))
                for (auto y = c[o.f[0]]->begin(); y != c[o.f[0]]->end(); ++y) if (Ops<KD, C>::equiv(*c[o.f[0]], KD::kof(*y), o.f[1])) before_run.push_back(KD::dof(*y));
            std::string ri = do_op<KD, C>(c, o);
            long da = A.allocs - a0, df = A.frees - f0;
            {
                const std::string& nm = o.name;
                if ((nm == "AS" || nm == "CC") && o.f[0] != o.f[1]) dir[o.f[0]] = dir[o.f[1]];
                else if (nm == "SW" || nm == "SWs" || nm == "SWt") std::swap(dir[o.f[0]], dir[o.f[1]]);
                else if (nm == "CR") dir[o.f[0]] = dir0;
                else if (nm == "NC") dir[o.f[0]] = (o.f[1] != 0);
                for (int v = 0; v < 3; ++v) if (cmp_dir(c[v]->key_comp(), 0) != dir[v]) { ri += "!key_comp-state-of-variable-" + std::to_string(v); break; }
            }
            std::string rs;
            if (KD::dup && KD::ismap && (o.name == "E1" || o.name == "E1a")) {
                // which of several equal-key entries erase_one removes is left open by the property:
                // the reference container drops the entry the tlx container dropped
                std::multiset<int> now; for (auto y = c[o.f[0]]->begin(); y != c[o.f[0]]->end(); ++y) if (Ops<KD, C>::equiv(*c[o.f[0]], KD::kof(*y), o.f[1])) now.insert(KD::dof(*y));
                rs = "E0";
                for (int dd : before_run) {
                    auto h = now.find(dd);
                    if (h != now.end()) { now.erase(h); continue; }
                    typename S::iterator sit;
                    if (Ops<KD, S>::locate(*s[o.f[0]], o.f[1], dd, 0, sit)) { s[o.f[0]]->erase(sit); rs = "E1"; }
                    break;
                }
            } else rs = do_op<KD, S>(s, o);
            if (ri != rs && stddiff.empty()) stddiff = " STDDIFF@" + std::to_string(k) + ":" + ri + ":" + rs;
            if (k) out << ' ';
            out << ri;
            C& x = *c[o.f[0]];
            bool vok = true; std::string vmsg;
            try { x.verify(); if (o.f.size() > 1 && (o.name == "SW" || o.name == "SWs" || o.name == "SWt" || o.name == "AS" || o.name == "CC")) c[o.f[1]]->verify(); }
            catch (const std::exception& e) { vok = false; vmsg = e.what(); }
            if (!vok) {
                std::string m; for (char ch : vmsg) { if (ch == ' ' || ch == '\n') m += '_'; else m += ch; }
                out << "/VERIFYFAIL:" << m.substr(0, 80);
            } else if (A.errors || verif::Ledger::get().errors) {
                // allocator / lifetime ledger error: name the operation at which it first shows
                std::string m; for (char ch : final_status()) { if (ch == ' ') m += '_'; else m += ch; }
                out << "/LEDGERFAIL:" << m;
            } else {
                const typename C::tree_stats& st = x.get_stats();
                out << '/' << da << '.' << df << '.' << st.leaves << '.' << st.inner_nodes << '.' << x.size();
            }
            if (dumps && mutating(o.name)) { if (!dumps->empty()) *dumps += ' '; *dumps += BtAccess::dump(x); }
        }
    }
    out << " final=" << final_status() << stddiff;
    return out.str();
}

typedef std::string (*runner)(const std::vector<Op>&, std::string*);
static std::string param_mismatch(const std::vector<Op>&, std::string*) { return "NOCONFIG parameters-of-the-real-type-differ-from-the-configuration-name"; }
std::map<std::string, runner>& registry();
#ifdef HARNESS_MAIN
std::map<std::string, runner>& registry() { static std::map<std::string, runner> r; return r; }
#endif
// every translation unit registers the configurations of its own CONFIGS_INC file
#define CFG(kind, gt, L, I, bin) \
    registry()[#kind ":" #L ":" #I ":" #bin ":" #gt] = BtAccess::params_ok<kind##K<gt, L, I, bin>::C>(L, I, bin) ? &run_case<kind##K<gt, L, I, bin>> : &param_mismatch;
namespace {
struct Registrar {
    Registrar() {
#include CONFIGS_INC
    }
} registrar_instance;
}

#ifdef HARNESS_MAIN
// per-case watchdog: a search that does not terminate is reported instead of hanging the run
static volatile long g_case_no = -1;
static void on_alarm(int) {
    char b[96]; int len = snprintf(b, sizeof b, "\nWATCHDOG: case %ld did not finish within 30 s\n", g_case_no);
    if (write(1, b, len) < 0) {}
    _exit(3);
}

int main(int argc, char** argv) {
    signal(SIGALRM, on_alarm);
    if (argc < 2) { fprintf(stderr, "usage: %s cases.txt [dumps.txt]\n", argv[0]); return 2; }
    tlx::set_die_with_exception(true);
    std::ifstream in(argv[1]);
    std::ofstream dout;
    if (argc > 2) dout.open(argv[2]);
    std::string line;
    while (std::getline(in, line)) {
        if (line.empty()) continue;
        std::istringstream ls(line);
        std::string cfg; ls >> cfg;
        std::vector<Op> ops = parse_ops(ls);
        auto it = registry().find(cfg);
        std::string dumps;
        if (it == registry().end()) { std::cout << "NOCONFIG " << cfg << std::endl; if (dout.is_open()) dout << std::endl; continue; }
        ++g_case_no; alarm(30);
        std::cout << it->second(ops, dout.is_open() ? &dumps : nullptr) << std::endl;
        alarm(0);
        if (dout.is_open()) dout << dumps << std::endl;
    }
    return 0;
}
#endif
