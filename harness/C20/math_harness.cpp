// C20 correspondence harness: runs the real tlx/math helpers and tlx::Aggregate<double> on a case file and prints
// one line per case in the same format as ocaml/C20_driver.ml (see there for the case kinds).  Additionally
//   valm <fn> <typeN> <typeK> a:b ...     div_ceil / round_up with operands of two different types (result decltype(n + k))
//   prange <start> b0 b1 ...              popcount(const void*, size_t) on the bytes placed <start> bytes behind an aligned address
//   agg | aggf | aggi | aggz <ops>         Aggregate<double | float | int | size_t>; besides count/mean/variance/min/max the
//                                          harness prints sum() and checks every other accessor (avg, average, total, var, stdev,
//                                          standard_deviation, span, default ddof, serialize + initializing constructor round trip)
//   type names: u8 i8 u16 i16 u32 i32 u64 (unsigned long) i64 (long) ull (unsigned long long) ll (long long)
//   aggk <ops>                             Aggregate<double> with the additional op K,i,c,v: x_i = Aggregate(c, v, 0, v, v) (c copies of v)
//   sgnf v1 v2 ...                         sgn<double>, sgn<float>, sgn<long double> (nan, -0 accepted)
//   sweep16 <alo> <ahi>                    all pairs (a, b), a in [alo, ahi] as uint16_t and a - 32768 as int16_t, of abs_diff / div_ceil / round_up
//   pbig <nchunks> <skip> <cut>            popcount(const void*, size_t) on a huge virtual range: one sparse page, nchunks x 2 MiB of 0xFF
//                                          (one 2 MiB memfd / unlinked temp file mapped back to back with MAP_FIXED), one sparse page;
//                                          the range starts <skip> bytes behind the beginning and ends <cut> bytes before the end
//   sweep32 <start> <stride> <count>      harness-internal sweep of the 32-bit entry points against naive bit-loop
//                                          references (prints "SWEEP ok ..." or "SWEEP FAIL ...")
// Inputs on which the C++ code would have undefined behaviour (signed overflow, endless loop) are not executed:
// the harness prints NA by the predicates documented in coq/C20/Run.v (decided here independently).
#include <algorithm>
#include <cmath>
#include <cstdint>
#include <cstddef>
#include <cstdio>
#include <cstdlib>
#include <cstring>
#include <fstream>
#include <iostream>
#include <limits>
#include <sstream>
#include <string>
#include <type_traits>
#include <vector>

#include <sys/mman.h>
#include <unistd.h>

#include <tlx/math/abs_diff.hpp>
#include <tlx/math/aggregate.hpp>
#include <tlx/math/bswap.hpp>
#include <tlx/math/clz.hpp>
#include <tlx/math/ctz.hpp>
#include <tlx/math/div_ceil.hpp>
#include <tlx/math/ffs.hpp>
#include <tlx/math/integer_log2.hpp>
#include <tlx/math/is_power_of_two.hpp>
#include <tlx/math/popcount.hpp>
#include <tlx/math/rol.hpp>
#include <tlx/math/ror.hpp>
#include <tlx/math/round_to_power_of_two.hpp>
#include <tlx/math/round_up.hpp>
#include <tlx/math/sgn.hpp>

#ifndef C20_HAVE_RDOWN_TEMPLATE
// tree without the repaired round_down_to_power_of_two_template (checks/C20.py looks for it in the header and
// defines C20_HAVE_RDOWN_TEMPLATE when present): keep the harness compiling so that the failing inputs are reported.
namespace tlx {
template <typename Integral>
static inline Integral round_down_to_power_of_two_template(Integral n)
{
    // tree without the template: the overloads are the only implementation (argument promoted)
    return static_cast<Integral>(round_down_to_power_of_two(n));
}
} // namespace tlx
#endif

typedef __int128 i128;
typedef unsigned long long ull;
typedef long long ll;

static std::string out;

static void put_i128(i128 v)
{
    if (v < 0) { out += '-'; v = -v; }
    char buf[48]; int n = 0;
    if (v == 0) buf[n++] = '0';
    while (v > 0) { buf[n++] = char('0' + int(v % 10)); v /= 10; }
    while (n > 0) out += buf[--n];
    out += ' ';
}
template <typename R>
static void put(R r)
{
    if (std::is_signed<R>::value) put_i128(static_cast<i128>(static_cast<ll>(r)));
    else put_i128(static_cast<i128>(static_cast<ull>(r)));
}
static void put_s(const char* s) { out += s; out += ' '; }

static i128 parse_i128(const std::string& s)
{
    bool neg = false; size_t i = 0; i128 v = 0;
    if (i < s.size() && s[i] == '-') { neg = true; ++i; }
    for (; i < s.size(); ++i) v = v * 10 + (s[i] - '0');
    return neg ? -v : v;
}

template <typename T> static bool in_range(i128 v)
{
    return v >= static_cast<i128>(std::numeric_limits<T>::min()) && v <= static_cast<i128>(std::numeric_limits<T>::max());
}
template <typename T> constexpr bool wide_signed() { return std::is_signed<T>::value && sizeof(T) >= 4; }

// agreement of the `long` and `long long` overloads (both 64 bit here)
#define BOTH64(expr_l, expr_ll)                                        \
    do { auto r1 = (expr_l); auto r2 = (expr_ll);                      \
         if (static_cast<ull>(r1) != static_cast<ull>(r2)) put_s("LONG-LONGLONG-DIFFER"); else put(r1); } while (0)

// ---------------------------------------------------------------- one-argument functions
template <typename T>
static void run1(const std::string& fn, i128 xv)
{
    constexpr unsigned W = 8 * sizeof(T);
    if (!in_range<T>(xv)) { put_s("NA"); return; }
    T x = static_cast<T>(xv);
    if (fn == "clz_template") put(tlx::clz_template<T>(x));
    else if (fn == "ctz_template") put(tlx::ctz_template<T>(x));
    else if (fn == "ffs_template") put(tlx::ffs_template<T>(x));
    else if (fn == "integer_log2_floor_template") {
        if (xv < 0) put_s("NA"); else put(tlx::integer_log2_floor_template<T>(x));
    }
    else if (fn == "is_power_of_two_template") put<unsigned>(tlx::is_power_of_two_template<T>(x) ? 1 : 0);
    else if (fn == "round_up_to_power_of_two_template") {
        if (wide_signed<T>() && !(xv > static_cast<i128>(std::numeric_limits<T>::min()) && xv <= (static_cast<i128>(1) << (W - 2))))
            put_s("NA");
        else put(tlx::round_up_to_power_of_two_template<T>(x));
    }
    else if (fn == "round_down_to_power_of_two_template") put(tlx::round_down_to_power_of_two_template<T>(x));
    else if (fn == "sgn") put(tlx::sgn<T>(x));
    else put_s("?");
}

// overloads / intrinsics exist for int, unsigned, long, unsigned long, long long, unsigned long long only
template <typename T, typename TL, typename TLL>
static void run1_overload(const std::string& fn, i128 xv)
{
    constexpr unsigned W = 8 * sizeof(T);
    if (!in_range<T>(xv)) { put_s("NA"); return; }
    T x = static_cast<T>(xv);
    constexpr bool is64 = sizeof(T) == 8;
    TL xl = static_cast<TL>(x); TLL xll = static_cast<TLL>(x);
    (void)xl; (void)xll;
    if (fn == "clz") { if (is64) BOTH64(tlx::clz<TL>(xl), tlx::clz<TLL>(xll)); else put(tlx::clz<T>(x)); }
    else if (fn == "ctz") { if (is64) BOTH64(tlx::ctz<TL>(xl), tlx::ctz<TLL>(xll)); else put(tlx::ctz<T>(x)); }
    else if (fn == "ffs") { if (is64) BOTH64(tlx::ffs(xl), tlx::ffs(xll)); else put(tlx::ffs(x)); }
    else if (fn == "popcount") { if (is64) BOTH64(tlx::popcount(xl), tlx::popcount(xll)); else put(tlx::popcount(x)); }
    else if (fn == "integer_log2_floor") { if (is64) BOTH64(tlx::integer_log2_floor(xl), tlx::integer_log2_floor(xll)); else put(tlx::integer_log2_floor(x)); }
    else if (fn == "integer_log2_ceil") { if (is64) BOTH64(tlx::integer_log2_ceil(xl), tlx::integer_log2_ceil(xll)); else put(tlx::integer_log2_ceil(x)); }
    else if (fn == "is_power_of_two") { if (is64) BOTH64(tlx::is_power_of_two(xl) ? 1u : 0u, tlx::is_power_of_two(xll) ? 1u : 0u); else put<unsigned>(tlx::is_power_of_two(x) ? 1 : 0); }
    else if (fn == "round_up_to_power_of_two") {
        if (wide_signed<T>() && !(xv > static_cast<i128>(std::numeric_limits<T>::min()) && xv <= (static_cast<i128>(1) << (W - 2))))
            put_s("NA");
        else if (is64) BOTH64(tlx::round_up_to_power_of_two(xl), tlx::round_up_to_power_of_two(xll));
        else put(tlx::round_up_to_power_of_two(x));
    }
    else if (fn == "round_down_to_power_of_two") {
        if (is64) BOTH64(tlx::round_down_to_power_of_two(xl), tlx::round_down_to_power_of_two(xll));
        else put(tlx::round_down_to_power_of_two(x));
    }
    else put_s("?");
}

static void eval1(const std::string& fn, const std::string& ty, i128 x)
{
    // functions tied to one fixed type
    if (fn == "popcount_generic8") { if (in_range<std::uint8_t>(x)) put(tlx::popcount_generic8(static_cast<std::uint8_t>(x))); else put_s("NA"); return; }
    if (fn == "popcount_generic16") { if (in_range<std::uint16_t>(x)) put(tlx::popcount_generic16(static_cast<std::uint16_t>(x))); else put_s("NA"); return; }
    if (fn == "popcount_generic32") { if (in_range<std::uint32_t>(x)) put(tlx::popcount_generic32(static_cast<std::uint32_t>(x))); else put_s("NA"); return; }
    if (fn == "popcount_generic64") { if (in_range<std::uint64_t>(x)) put(tlx::popcount_generic64(static_cast<std::uint64_t>(x))); else put_s("NA"); return; }
    if (fn == "bswap16_generic") { if (in_range<std::uint16_t>(x)) put(tlx::bswap16_generic(static_cast<std::uint16_t>(x))); else put_s("NA"); return; }
    if (fn == "bswap32_generic") { if (in_range<std::uint32_t>(x)) put(tlx::bswap32_generic(static_cast<std::uint32_t>(x))); else put_s("NA"); return; }
    if (fn == "bswap64_generic") { if (in_range<std::uint64_t>(x)) put(tlx::bswap64_generic(static_cast<std::uint64_t>(x))); else put_s("NA"); return; }
    if (fn == "bswap16") { if (in_range<std::uint16_t>(x)) put(tlx::bswap16(static_cast<std::uint16_t>(x))); else put_s("NA"); return; }
    if (fn == "bswap32") { if (in_range<std::uint32_t>(x)) put(tlx::bswap32(static_cast<std::uint32_t>(x))); else put_s("NA"); return; }
    if (fn == "bswap64") { if (in_range<std::uint64_t>(x)) put(tlx::bswap64(static_cast<std::uint64_t>(x))); else put_s("NA"); return; }
    bool overload = fn == "clz" || fn == "ctz" || fn == "ffs" || fn == "popcount" || fn == "integer_log2_floor" ||
                    fn == "integer_log2_ceil" || fn == "is_power_of_two" || fn == "round_up_to_power_of_two" ||
                    fn == "round_down_to_power_of_two";
    if (overload) {
        if (ty == "u32") run1_overload<unsigned, unsigned long, unsigned long long>(fn, x);
        else if (ty == "i32") run1_overload<int, long, long long>(fn, x);
        else if (ty == "u64" || ty == "ull") run1_overload<unsigned long, unsigned long, unsigned long long>(fn, x);
        else if (ty == "i64" || ty == "ll") run1_overload<long, long, long long>(fn, x);
        else put_s("?");
        return;
    }
    if (ty == "u8") run1<std::uint8_t>(fn, x);
    else if (ty == "i8") run1<std::int8_t>(fn, x);
    else if (ty == "u16") run1<std::uint16_t>(fn, x);
    else if (ty == "i16") run1<std::int16_t>(fn, x);
    else if (ty == "u32") run1<std::uint32_t>(fn, x);
    else if (ty == "i32") run1<std::int32_t>(fn, x);
    else if (ty == "u64") run1<std::uint64_t>(fn, x);
    else if (ty == "i64") run1<std::int64_t>(fn, x);
    else if (ty == "ull") run1<unsigned long long>(fn, x);
    else if (ty == "ll") run1<long long>(fn, x);
    else put_s("?");
}

// ---------------------------------------------------------------- two-argument functions
template <typename T>
static void run2(const std::string& fn, i128 av, i128 bv)
{
    if (!in_range<T>(av) || !in_range<T>(bv)) { put_s("NA"); return; }
    T a = static_cast<T>(av), b = static_cast<T>(bv);
    typedef decltype(a + b) R;
    if (fn == "div_ceil") {
        if (bv < 1) { put_s("NA"); return; }
        put(tlx::div_ceil(a, b));
    }
    else if (fn == "round_up") {
        if (bv < 1) { put_s("NA"); return; }
        i128 exact = (av / bv + ((av % bv) > 0 ? 1 : 0)) * bv;
        if (std::is_signed<R>::value && !in_range<R>(exact)) { put_s("NA"); return; }
        put(tlx::round_up(a, b));
    }
    else if (fn == "abs_diff") {
        i128 d = av > bv ? av - bv : bv - av;
        if (wide_signed<T>() && !in_range<T>(d)) { put_s("NA"); return; }
        put(tlx::abs_diff<T>(a, b));
    }
    else put_s("?");
}

static void eval2(const std::string& fn, const std::string& ty, i128 a, i128 b)
{
    if (fn == "rol_generic" || fn == "rol" || fn == "ror_generic" || fn == "ror") {
        if (!in_range<int>(b)) { put_s("NA"); return; }
        int i = static_cast<int>(b);
        if (ty == "u32") {
            if (!in_range<std::uint32_t>(a)) { put_s("NA"); return; }
            std::uint32_t x = static_cast<std::uint32_t>(a);
            if (fn == "rol_generic") put(tlx::rol32_generic(x, i)); else if (fn == "rol") put(tlx::rol32(x, i));
            else if (fn == "ror_generic") put(tlx::ror32_generic(x, i)); else put(tlx::ror32(x, i));
        }
        else if (ty == "u64") {
            if (!in_range<std::uint64_t>(a)) { put_s("NA"); return; }
            std::uint64_t x = static_cast<std::uint64_t>(a);
            if (fn == "rol_generic") put(tlx::rol64_generic(x, i)); else if (fn == "rol") put(tlx::rol64(x, i));
            else if (fn == "ror_generic") put(tlx::ror64_generic(x, i)); else put(tlx::ror64(x, i));
        }
        else put_s("?");
        return;
    }
    if (ty == "u8") run2<std::uint8_t>(fn, a, b);
    else if (ty == "i8") run2<std::int8_t>(fn, a, b);
    else if (ty == "u16") run2<std::uint16_t>(fn, a, b);
    else if (ty == "i16") run2<std::int16_t>(fn, a, b);
    else if (ty == "u32") run2<unsigned>(fn, a, b);
    else if (ty == "i32") run2<int>(fn, a, b);
    else if (ty == "u64") run2<unsigned long>(fn, a, b);
    else if (ty == "i64") run2<long>(fn, a, b);
    else if (ty == "ull") run2<unsigned long long>(fn, a, b);
    else if (ty == "ll") run2<long long>(fn, a, b);
    else put_s("?");
}

// ---------------------------------------------------------------- two operands of different types
template <typename TN, typename TK>
static void run2m(const std::string& fn, i128 av, i128 bv)
{
    if (!in_range<TN>(av) || !in_range<TK>(bv) || bv < 1) { put_s("NA"); return; }
    TN n = static_cast<TN>(av); TK k = static_cast<TK>(bv);
    typedef decltype(n + k) R;
    if (fn == "div_ceil") put(tlx::div_ceil(n, k));
    else if (fn == "round_up") {
        // the operands as the usual arithmetic conversions see them
        i128 nn = static_cast<i128>(static_cast<R>(n)), kk = static_cast<i128>(static_cast<R>(k));
        if (!std::is_signed<R>::value) { nn = static_cast<i128>(static_cast<ull>(static_cast<R>(n))); kk = static_cast<i128>(static_cast<ull>(static_cast<R>(k))); }
        i128 exact = (nn / kk + ((nn % kk) > 0 ? 1 : 0)) * kk;
        if (std::is_signed<R>::value && !in_range<R>(exact)) { put_s("NA"); return; }
        put(tlx::round_up(n, k));
    }
    else put_s("?");
}
template <typename TN>
static void run2m_k(const std::string& fn, const std::string& tk, i128 a, i128 b)
{
    if (tk == "u8") run2m<TN, std::uint8_t>(fn, a, b);
    else if (tk == "i8") run2m<TN, std::int8_t>(fn, a, b);
    else if (tk == "u16") run2m<TN, std::uint16_t>(fn, a, b);
    else if (tk == "i16") run2m<TN, std::int16_t>(fn, a, b);
    else if (tk == "u32") run2m<TN, unsigned>(fn, a, b);
    else if (tk == "i32") run2m<TN, int>(fn, a, b);
    else if (tk == "u64") run2m<TN, unsigned long>(fn, a, b);
    else if (tk == "i64") run2m<TN, long>(fn, a, b);
    else if (tk == "ull") run2m<TN, unsigned long long>(fn, a, b);
    else if (tk == "ll") run2m<TN, long long>(fn, a, b);
    else put_s("?");
}
static void eval2m(const std::string& fn, const std::string& tn, const std::string& tk, i128 a, i128 b)
{
    if (tn == "u8") run2m_k<std::uint8_t>(fn, tk, a, b);
    else if (tn == "i8") run2m_k<std::int8_t>(fn, tk, a, b);
    else if (tn == "u16") run2m_k<std::uint16_t>(fn, tk, a, b);
    else if (tn == "i16") run2m_k<std::int16_t>(fn, tk, a, b);
    else if (tn == "u32") run2m_k<unsigned>(fn, tk, a, b);
    else if (tn == "i32") run2m_k<int>(fn, tk, a, b);
    else if (tn == "u64") run2m_k<unsigned long>(fn, tk, a, b);
    else if (tn == "i64") run2m_k<long>(fn, tk, a, b);
    else if (tn == "ull") run2m_k<unsigned long long>(fn, tk, a, b);
    else if (tn == "ll") run2m_k<long long>(fn, tk, a, b);
    else put_s("?");
}

// ---------------------------------------------------------------- byte-range popcount
static void run_prange(const std::vector<std::string>& tok)
{
    size_t start = std::stoul(tok[1]);
    size_t len = tok.size() - 2;
    std::vector<std::uint64_t> store((start + len) / 8 + 2, 0xFFFFFFFFFFFFFFFFull);   // 8-byte aligned; surrounding bytes all ones
    unsigned char* base = reinterpret_cast<unsigned char*>(store.data());
    for (size_t i = 0; i < len; ++i) base[start + i] = static_cast<unsigned char>(std::stoul(tok[2 + i]));
    put(tlx::popcount(static_cast<const void*>(base + start), len));
}

// ---------------------------------------------------------------- byte-range popcount with more than 2^32 one bits
// sparse patterns of the first / last page (the check script computes the same)
static inline unsigned char head_byte(size_t i) { return (i % 3 == 0) ? static_cast<unsigned char>((i * 37 + 11) & 0xFF) : 0; }
static inline unsigned char tail_byte(size_t i) { return (i % 5 == 0) ? static_cast<unsigned char>((i * 101 + 7) & 0xFF) : 0; }
static std::string g_scratch_dir = ".";

static void run_pbig(const std::vector<std::string>& tok)
{
    const size_t page = 4096, chunk = size_t(2) << 20;
    size_t nchunks = std::stoull(tok[1]), skip = std::stoull(tok[2]), cut = std::stoull(tok[3]);
    size_t total = page + nchunks * chunk + page;
    if (skip + cut > total) { put_s("NA"); return; }
    int fd = -1;
#ifdef MFD_CLOEXEC
    fd = memfd_create("c20_ones", MFD_CLOEXEC);
#endif
    if (fd < 0) {
        std::string name = g_scratch_dir + "/c20_ones_XXXXXX";
        std::vector<char> nm(name.begin(), name.end()); nm.push_back(0);
        fd = mkstemp(nm.data());
        if (fd >= 0) unlink(nm.data());
    }
    if (fd < 0) { put_s("SETUP-FAILED:file"); return; }
    {
        std::vector<unsigned char> ones(chunk, 0xFF);
        size_t done = 0;
        while (done < chunk) { ssize_t w = write(fd, ones.data() + done, chunk - done); if (w <= 0) { close(fd); put_s("SETUP-FAILED:write"); return; } done += size_t(w); }
    }
    char* base = static_cast<char*>(mmap(nullptr, total, PROT_NONE, MAP_PRIVATE | MAP_ANONYMOUS | MAP_NORESERVE, -1, 0));
    if (base == MAP_FAILED) { close(fd); put_s("SETUP-FAILED:reserve"); return; }
    bool ok = true;
    void* h = mmap(base, page, PROT_READ | PROT_WRITE, MAP_PRIVATE | MAP_ANONYMOUS | MAP_FIXED, -1, 0);
    void* t = mmap(base + page + nchunks * chunk, page, PROT_READ | PROT_WRITE, MAP_PRIVATE | MAP_ANONYMOUS | MAP_FIXED, -1, 0);
    ok = ok && h != MAP_FAILED && t != MAP_FAILED;
    for (size_t i = 0; ok && i < nchunks; ++i)
        ok = mmap(base + page + i * chunk, chunk, PROT_READ, MAP_SHARED | MAP_FIXED, fd, 0) != MAP_FAILED;
    if (!ok) { munmap(base, total); close(fd); put_s("SETUP-FAILED:map"); return; }
    for (size_t i = 0; i < page; ++i) { static_cast<unsigned char*>(h)[i] = head_byte(i); static_cast<unsigned char*>(t)[i] = tail_byte(i); }
    put(tlx::popcount(static_cast<const void*>(base + skip), total - skip - cut));
    munmap(base, total); close(fd);
}

// ---------------------------------------------------------------- Aggregate<Type>
static double parse_q(const std::string& s)
{
    size_t p = s.find('/');
    if (p == std::string::npos) return std::strtod(s.c_str(), nullptr);
    return std::strtod(s.substr(0, p).c_str(), nullptr) / std::strtod(s.substr(p + 1).c_str(), nullptr);
}
static std::vector<std::string> split(const std::string& s, char c)
{
    std::vector<std::string> r; std::string cur;
    for (char ch : s) { if (ch == c) { r.push_back(cur); cur.clear(); } else cur += ch; }
    r.push_back(cur); return r;
}
template <typename T> static T parse_val(const std::string& s) { return static_cast<T>(parse_q(s)); }
template <> int parse_val<int>(const std::string& s) { return static_cast<int>(std::stol(s)); }
template <> size_t parse_val<size_t>(const std::string& s) { return static_cast<size_t>(std::stoull(s)); }

static std::string show_val(double v) { char b[64]; snprintf(b, sizeof b, "%.17g", v); return b; }
static std::string show_val(float v) { char b[64]; snprintf(b, sizeof b, "%.17g", static_cast<double>(v)); return b; }
static std::string show_val(int v) { return std::to_string(v); }
static std::string show_val(size_t v) { return std::to_string(v); }

static bool same(double a, double b) { return a == b || (a != a && b != b); }

// archive that records what serialize() passes
template <typename T>
struct FieldArchive {
    size_t count = 0; double mean = 0, nvar = 0; T mn = T(), mx = T(); bool called = false;
    void operator()(size_t& c, double& m, double& v, T& a, T& b) { count = c; mean = m; nvar = v; mn = a; mx = b; called = true; }
};

template <typename T>
static void run_agg(const std::vector<std::string>& toks)
{
    typedef tlx::Aggregate<T> A;
    A x[3];
    for (size_t t = 1; t < toks.size(); ++t) {
        std::vector<std::string> f = split(toks[t], ',');
        if (f[0] == "A") x[std::stoi(f[1])].add(parse_val<T>(f[2]));
        else if (f[0] == "P") { A r = x[std::stoi(f[2])] + x[std::stoi(f[3])]; x[std::stoi(f[1])] = r; }
        else if (f[0] == "PA") { A& r = (x[std::stoi(f[1])] += x[std::stoi(f[2])]); (void)r; }
        else if (f[0] == "R") x[std::stoi(f[1])] = A();
        else if (f[0] == "K") {
            // the Aggregate of c copies of the value v, through the public initializing constructor (what
            // deserialisation produces): count c, mean v, nvar 0, min = max = v
            T v = parse_val<T>(f[3]);
            x[std::stoi(f[1])] = A(static_cast<size_t>(std::stoull(f[2])), static_cast<double>(v), 0.0, v, v);
        }
    }
    for (int i = 0; i < 3; ++i) {
        A& a = x[i];
        // every other accessor must be consistent with count / mean / variance / min / max
        const char* bad = nullptr;
        if (!same(a.average(), a.mean()) || !same(a.avg(), a.mean())) bad = "avg/average";
        if (!(a.total() == a.sum())) bad = "total";
        for (size_t d = 0; d < 2; ++d) {
            if (!same(a.var(d), a.variance(d))) bad = "var";
            if (!same(a.standard_deviation(d), std::sqrt(a.variance(d))) || !same(a.stdev(d), std::sqrt(a.variance(d)))) bad = "stdev";
        }
        if (!same(a.variance(), a.variance(1)) || !same(a.var(), a.variance(1)) || !same(a.stdev(), a.stdev(1)) ||
            !same(a.standard_deviation(), a.stdev(1))) bad = "default-ddof";
        if (a.count() > 0 && !(a.span() == static_cast<T>(a.max() - a.min()))) bad = "span";
        FieldArchive<T> ar; a.serialize(ar);
        A copy(ar.count, ar.mean, ar.nvar, ar.mn, ar.mx);
        if (!ar.called || copy.count() != a.count() || !same(copy.mean(), a.mean()) || !same(copy.variance(1), a.variance(1)) ||
            !(copy.min() == a.min()) || !(copy.max() == a.max())) bad = "serialize/constructor";
        const A& o = (i == 1) ? copy : a;      // variable 1 is observed through the reconstructed copy
        out += std::to_string(o.count()) + " " + show_val(o.mean()) + " " + show_val(o.variance(1)) + " " + show_val(o.variance(0)) +
               " " + show_val(o.min()) + " " + show_val(o.max()) + " " + show_val(o.sum()) + " " + (bad ? std::string("ACC-DIFF:") + bad : std::string("ACC-OK")) +
               (i < 2 ? " | " : "");
    }
}

// ---------------------------------------------------------------- 32-bit sweep against naive references
static unsigned ref_clz(ull x, unsigned w) { unsigned r = 0; for (int b = int(w) - 1; b >= 0 && !((x >> b) & 1); --b) ++r; return r; }
static unsigned ref_ctz(ull x, unsigned w) { unsigned r = 0; for (unsigned b = 0; b < w && !((x >> b) & 1); ++b) ++r; return r; }
static unsigned ref_pop(ull x) { unsigned r = 0; for (unsigned b = 0; b < 64; ++b) r += (x >> b) & 1; return r; }
static unsigned ref_log2(ull x) { unsigned r = 0; while (x > 1) { x /= 2; ++r; } return r; }

#define SWEEP_CHECK(name, got, want)                                                           \
    do { auto g_ = (got); auto w_ = (want);                                                    \
         if (static_cast<ull>(g_) != static_cast<ull>(w_)) {                                   \
             char b_[200]; snprintf(b_, sizeof b_, "SWEEP FAIL %s x=%u got=%llu want=%llu", name, x, (ull)g_, (ull)w_); \
             out = b_; return; } } while (0)

static void sweep32(ull start, ull stride, ull count)
{
    ull nontrivial = 0;
    for (ull j = 0; j < count; ++j) {
        std::uint32_t x = static_cast<std::uint32_t>(start + j * stride);
        std::int32_t sx = static_cast<std::int32_t>(x);
        unsigned c = ref_clz(x, 32), t = ref_ctz(x, 32), p = ref_pop(x);
        if (x != 0 && (x & (x - 1)) != 0) ++nontrivial;
        SWEEP_CHECK("clz_template<u32>", tlx::clz_template<std::uint32_t>(x), c);
        SWEEP_CHECK("clz_template<i32>", tlx::clz_template<std::int32_t>(sx), c);
        SWEEP_CHECK("clz<unsigned>", tlx::clz<unsigned>(x), c);
        SWEEP_CHECK("clz<int>", tlx::clz<int>(sx), c);
        SWEEP_CHECK("ctz_template<u32>", tlx::ctz_template<std::uint32_t>(x), t);
        SWEEP_CHECK("ctz_template<i32>", tlx::ctz_template<std::int32_t>(sx), t);
        SWEEP_CHECK("ctz<unsigned>", tlx::ctz<unsigned>(x), t);
        SWEEP_CHECK("ctz<int>", tlx::ctz<int>(sx), t);
        SWEEP_CHECK("ffs_template<u32>", tlx::ffs_template<std::uint32_t>(x), x ? t + 1 : 0);
        SWEEP_CHECK("ffs_template<i32>", tlx::ffs_template<std::int32_t>(sx), x ? t + 1 : 0);
        SWEEP_CHECK("ffs(unsigned)", tlx::ffs(x), x ? t + 1 : 0);
        SWEEP_CHECK("ffs(int)", tlx::ffs(sx), x ? t + 1 : 0);
        SWEEP_CHECK("popcount_generic32", tlx::popcount_generic32(x), p);
        SWEEP_CHECK("popcount(unsigned)", tlx::popcount(x), p);
        SWEEP_CHECK("popcount(int)", tlx::popcount(sx), p);
        SWEEP_CHECK("integer_log2_floor_template<u32>", tlx::integer_log2_floor_template<std::uint32_t>(x), ref_log2(x));
        SWEEP_CHECK("integer_log2_floor(unsigned)", tlx::integer_log2_floor(x), ref_log2(x));
        if (sx >= 0) {
            SWEEP_CHECK("integer_log2_floor_template<i32>", tlx::integer_log2_floor_template<std::int32_t>(sx), ref_log2(x));
            SWEEP_CHECK("integer_log2_floor(int)", tlx::integer_log2_floor(sx), ref_log2(x));
            SWEEP_CHECK("integer_log2_ceil(int)", tlx::integer_log2_ceil(sx), x <= 1 ? 0 : ref_log2(x - 1) + 1);
        }
        SWEEP_CHECK("integer_log2_ceil(unsigned)", tlx::integer_log2_ceil(x), x <= 1 ? 0 : ref_log2(x - 1) + 1);
        SWEEP_CHECK("is_power_of_two(unsigned)", tlx::is_power_of_two(x) ? 1 : 0, p == 1 ? 1 : 0);
        SWEEP_CHECK("is_power_of_two(int)", tlx::is_power_of_two(sx) ? 1 : 0, (p == 1 && sx > 0) ? 1 : 0);
        if (x >= 1 && x <= 0x80000000u) {
            ull want = 1; while (want < x) want *= 2;
            SWEEP_CHECK("round_up_to_power_of_two(unsigned)", tlx::round_up_to_power_of_two(x), want);
            if (x <= 0x40000000u) SWEEP_CHECK("round_up_to_power_of_two(int)", tlx::round_up_to_power_of_two(sx), want);
        }
        {
            ull want = x == 0 ? 0 : (1ull << ref_log2(x));
            SWEEP_CHECK("round_down_to_power_of_two(unsigned)", tlx::round_down_to_power_of_two(x), want);
            if (sx >= 0) SWEEP_CHECK("round_down_to_power_of_two(int)", tlx::round_down_to_power_of_two(sx), want);
        }
        {
            std::uint32_t want = (x >> 24) | ((x >> 8) & 0xFF00u) | ((x & 0xFF00u) << 8) | (x << 24);
            SWEEP_CHECK("bswap32_generic", tlx::bswap32_generic(x), want);
            SWEEP_CHECK("bswap32", tlx::bswap32(x), want);
        }
        {
            int s = static_cast<int>(j % 67) - 17;           // also negative and >= 32 counts
            unsigned m = static_cast<unsigned>(((s % 32) + 32) % 32);
            ull dbl = (static_cast<ull>(x) << 32) | x;
            std::uint32_t wl = static_cast<std::uint32_t>(dbl >> (32 - m)), wr = static_cast<std::uint32_t>(dbl >> m);
            SWEEP_CHECK("rol32_generic", tlx::rol32_generic(x, s), wl);
            SWEEP_CHECK("rol32", tlx::rol32(x, s), wl);
            SWEEP_CHECK("ror32_generic", tlx::ror32_generic(x, s), wr);
            SWEEP_CHECK("ror32", tlx::ror32(x, s), wr);
        }
        {
            std::uint32_t k = static_cast<std::uint32_t>((j * 2654435761ull) >> 7) | 1u;
            if (j % 3 == 0) k &= 0xFFu; else if (j % 3 == 1) k &= 0xFFFFFu;
            if (k == 0) k = 1;
            ull dc = (static_cast<ull>(x) + k - 1) / k;
            SWEEP_CHECK("div_ceil(unsigned,unsigned)", tlx::div_ceil(x, k), dc);
            if (dc * k <= 0xFFFFFFFFull) SWEEP_CHECK("round_up(unsigned,unsigned)", tlx::round_up(x, k), dc * k);
            std::uint32_t y = x * 2246822519u + static_cast<std::uint32_t>(j);
            SWEEP_CHECK("abs_diff<u32>", tlx::abs_diff<std::uint32_t>(x, y), x > y ? x - y : y - x);
        }
        SWEEP_CHECK("sgn<int>", tlx::sgn(sx) + 1, (sx > 0) - (sx < 0) + 1);
    }
    char b[200]; snprintf(b, sizeof b, "SWEEP ok count=%llu nontrivial=%llu", count, nontrivial);
    out = b;
}

// ---------------------------------------------------------------- sgn of floating-point values (same template, outside the integer property)
static void run_sgnf(const std::vector<std::string>& tok)
{
    for (size_t i = 1; i < tok.size(); ++i) {
        double v = tok[i] == "nan" ? std::nan("") : (tok[i] == "-0" ? -0.0 : parse_q(tok[i]));
        put(tlx::sgn<double>(v)); put(tlx::sgn<float>(static_cast<float>(v))); put(tlx::sgn<long double>(static_cast<long double>(v)));
    }
}

// ---------------------------------------------------------------- all pairs of 16-bit values (thorough tier)
template <typename T>
static bool sweep16_type(long alo, long ahi, const char* tname, ull& count)
{
    const long lo = std::numeric_limits<T>::min(), hi = std::numeric_limits<T>::max();
    for (long a = std::max(alo, lo); a <= std::min(ahi, hi); ++a) {
        for (long b = lo; b <= hi; ++b) {
            T x = static_cast<T>(a), y = static_cast<T>(b);
            long d = a > b ? a - b : b - a;
            if (static_cast<long>(static_cast<T>(d)) == d && static_cast<long>(tlx::abs_diff<T>(x, y)) != d) {
                char m[200]; snprintf(m, sizeof m, "SWEEP FAIL abs_diff<%s>(%ld,%ld) got=%ld want=%ld", tname, a, b, (long)tlx::abs_diff<T>(x, y), d); out = m; return false; }
            if (b >= 1) {
                long q = a >= 0 ? (a + b - 1) / b : -((-a) / b);
                if (static_cast<long>(tlx::div_ceil(x, y)) != q) {
                    char m[200]; snprintf(m, sizeof m, "SWEEP FAIL div_ceil<%s>(%ld,%ld) got=%ld want=%ld", tname, a, b, (long)tlx::div_ceil(x, y), q); out = m; return false; }
                if (static_cast<long>(tlx::round_up(x, y)) != q * b) {
                    char m[200]; snprintf(m, sizeof m, "SWEEP FAIL round_up<%s>(%ld,%ld) got=%ld want=%ld", tname, a, b, (long)tlx::round_up(x, y), q * b); out = m; return false; }
            }
            ++count;
        }
    }
    return true;
}
static void sweep16(long alo, long ahi)
{
    ull count = 0;
    if (!sweep16_type<std::uint16_t>(alo, ahi, "u16", count)) return;
    if (!sweep16_type<std::int16_t>(alo - 32768, ahi - 32768, "i16", count)) return;
    char b[200]; snprintf(b, sizeof b, "SWEEP ok count=%llu nontrivial=%llu", count, count / 2);
    out = b;
}

int main(int argc, char** argv)
{
    if (argc < 2) return 2;
    { std::string cf = argv[1]; size_t sl = cf.rfind('/'); g_scratch_dir = sl == std::string::npos ? "." : cf.substr(0, sl); }
    std::ifstream in(argv[1]);
    std::string line;
    while (std::getline(in, line)) {
        std::istringstream is(line);
        std::vector<std::string> tok; std::string w;
        while (is >> w) tok.push_back(w);
        out.clear();
        if (tok.empty()) out = "?";
        else if (tok[0] == "exh" && tok.size() == 5) {
            long lo = std::stol(tok[3]), hi = std::stol(tok[4]);
            for (long x = lo; x <= hi; ++x) eval1(tok[1], tok[2], x);
        }
        else if (tok[0] == "exh2" && tok.size() == 7) {
            long alo = std::stol(tok[3]), ahi = std::stol(tok[4]), blo = std::stol(tok[5]), bhi = std::stol(tok[6]);
            for (long a = alo; a <= ahi; ++a) for (long b = blo; b <= bhi; ++b) eval2(tok[1], tok[2], a, b);
        }
        else if (tok[0] == "val" && tok.size() >= 3) {
            for (size_t i = 3; i < tok.size(); ++i) eval1(tok[1], tok[2], parse_i128(tok[i]));
        }
        else if (tok[0] == "val2" && tok.size() >= 3) {
            for (size_t i = 3; i < tok.size(); ++i) {
                size_t p = tok[i].find(':');
                eval2(tok[1], tok[2], parse_i128(tok[i].substr(0, p)), parse_i128(tok[i].substr(p + 1)));
            }
        }
        else if (tok[0] == "valm" && tok.size() >= 4) {
            for (size_t i = 4; i < tok.size(); ++i) {
                size_t p = tok[i].find(':');
                eval2m(tok[1], tok[2], tok[3], parse_i128(tok[i].substr(0, p)), parse_i128(tok[i].substr(p + 1)));
            }
        }
        else if (tok[0] == "prange" && tok.size() >= 2) run_prange(tok);
        else if (tok[0] == "pbig" && tok.size() == 4) run_pbig(tok);
        else if (tok[0] == "sgnf") run_sgnf(tok);
        else if (tok[0] == "sweep16" && tok.size() == 3) sweep16(std::stol(tok[1]), std::stol(tok[2]));
        else if (tok[0] == "agg" || tok[0] == "aggk") run_agg<double>(tok);
        else if (tok[0] == "aggf") run_agg<float>(tok);
        else if (tok[0] == "aggi") run_agg<int>(tok);
        else if (tok[0] == "aggz") run_agg<size_t>(tok);
        else if (tok[0] == "sweep32" && tok.size() == 4) sweep32(std::stoull(tok[1]), std::stoull(tok[2]), std::stoull(tok[3]));
        else out = "?";
        while (!out.empty() && out.back() == ' ') out.pop_back();
        std::cout << out << std::endl;   // flush per case: a sanitizer abort is attributed to the next case
    }
    return 0;
}
