// C05 API-surface harness: the same cases as mwm_harness.cpp, but every case carries a trailing token "v=<profile>.<r>"
// that selects HOW /repo's code is reached (see checks/C05.py API_SURFACE for the full list):
//   P1  multiway_merge_base<Stable,Sentinels> called directly (r odd) or the public entry points (r even);
//       sequence of pairs = pair* (pointer); element iterators = raw T*; output = std::vector<T>::iterator;
//       every sequence in its own exactly sized heap block.   types I, T, M (24-byte: smallest pointer-tree type), B
//   P2  public entry points with DEFAULTED arguments (mwma omitted when it is the default, comparator omitted too for
//       int); sequence of pairs = std::deque<pair>::iterator; element iterators = std::vector<T>::iterator;
//       output = std::deque<T>::iterator.                     types I, B
//   P3  public entry points; element iterators = std::deque<T>::iterator; output value type = Wide<T> (a different
//       type, assignable from T).                             type T
//   P4  std::greater-like comparator on mirrored keys (descending inputs); checking iterators; ALL sequences are
//       sub-ranges of ONE buffer (adjacent memory: an unguarded overrun reads a valid neighbour, only the checking
//       iterator notices).                                     types I, B
//   P5  stateful, non-default-constructible comparator (counts its calls through a pointer); one buffer. type T
//   P6  the detail routines called DIRECTLY (no switch): multiway_merge_3_variant<guarded|unguarded>, _3_combined,
//       _4_variant<...>, _4_combined, _bubble<Stable>, _loser_tree<LoserTree<Stable,..>>, _loser_tree_combined<Stable>,
//       _loser_tree_sentinel<Stable> (the k-generic ones also for k = 2..4), and for k = 2 merge_advance /
//       merge_advance_usual / merge_advance_movc with two DIFFERENT iterator types, DiffType in {int, long, unsigned,
//       size_t} and a std::back_inserter output.              types T, B
//   P7  as P6 with raw pointers into one buffer.               type I
//   P8  public entry points / multiway_merge_base, checking iterators, separate heap blocks, with an element type S whose
//       key OWNS a heap cell and whose destructor poisons the cell (writes INT_MIN) before freeing it: any place that
//       keeps the address of a temporary or of a by-value parameter (e.g. the sentinel of the unguarded pointer trees)
//       reads freed memory (ASan) or a minimal key (padding wins).  24 bytes: pointer-based trees.   type S
// The executable is built in three parts (-DAPI_PART=1|2|3) to keep compile time down; a part answers only its cases.
#include <tlx/algorithm/multiway_merge.hpp>

#include <climits>
#include <csignal>
#include <cstdio>
#include <cstdlib>
#include <cstring>
#include <deque>
#include <fstream>
#include <functional>
#include <iostream>
#include <iterator>
#include <sstream>
#include <string>
#include <type_traits>
#include <utility>
#include <vector>
#include <unistd.h>

#ifndef API_PART
#define API_PART 0
#endif

static long g_oob = 0;
static void on_alarm(int) { const char msg[] = "\nNO-TERMINATION\n"; ssize_t r = write(1, msg, sizeof(msg) - 1); (void)r; _exit(3); }

struct Rec16 { int key; int seq; long pos; Rec16() : key(0), seq(-7), pos(-7) {} Rec16(int k, int s, long p) : key(k), seq(s), pos(p) {} };
struct Rec24 { int key; int seq; long pos; long pad; Rec24() : key(0), seq(-7), pos(-7), pad(0) {} Rec24(int k, int s, long p) : key(k), seq(s), pos(p), pad(7) {} };
struct Rec40 { int key; int seq; long pos; char payload[24];
    Rec40() : key(0), seq(-7), pos(-7) { std::memset(payload, 0, sizeof(payload)); }
    Rec40(int k, int s, long p) : key(k), seq(s), pos(p) { std::memset(payload, 'x', sizeof(payload)); } };
static_assert(sizeof(Rec16) == 2 * sizeof(size_t), "largest copy-tree type");
static_assert(sizeof(Rec24) == 3 * sizeof(size_t), "smallest pointer-tree type");

// key lives in an owned heap cell; the destructor poisons it
struct RecOwn {
    int* cell; int seq; long pos;
    RecOwn() : cell(new int(0)), seq(-7), pos(-7) {}
    RecOwn(int k, int s, long p) : cell(new int(k)), seq(s), pos(p) {}
    RecOwn(const RecOwn& o) : cell(new int(*o.cell)), seq(o.seq), pos(o.pos) {}
    RecOwn& operator=(const RecOwn& o) { *cell = *o.cell; seq = o.seq; pos = o.pos; return *this; }
    ~RecOwn() { *cell = INT_MIN; delete cell; }
};
static_assert(sizeof(RecOwn) > 2 * sizeof(size_t), "RecOwn selects the pointer trees");

// operator< of the record types is deliberately UNRELATED to the comparators handed to the merges (position only):
// library code that falls back to operator< instead of the user's comparator computes wrong splits here
static bool operator<(const Rec16& a, const Rec16& b) { return a.pos < b.pos; }
static bool operator<(const Rec24& a, const Rec24& b) { return a.pos < b.pos; }
static bool operator<(const Rec40& a, const Rec40& b) { return a.pos < b.pos; }
static bool operator<(const RecOwn& a, const RecOwn& b) { return a.pos < b.pos; }

static int key_of(int v) { return v; }
static int key_of(const RecOwn& r) { return *r.cell; }
template <typename R> static int key_of(const R& r) { return r.key; }
struct KeyLess { template <typename R> bool operator()(const R& a, const R& b) const { return key_of(a) < key_of(b); } };
struct KeyGreater { template <typename R> bool operator()(const R& a, const R& b) const { return key_of(a) > key_of(b); } };
struct CountLess {   // stateful, not default constructible
    long* n;
    explicit CountLess(long* c) : n(c) {}
    template <typename R> bool operator()(const R& a, const R& b) const { ++*n; return key_of(a) < key_of(b); }
};

template <typename T> struct Make { static T elem(int k, int s, long p) { return T(k, s, p); } };
template <> struct Make<int> { static int elem(int k, int, long) { return k; } };

static const int MIRROR = 1000000;
static void show(std::ostream& os, int v, bool mirror) { os << (mirror ? MIRROR - v : v); }
template <typename R> static void show(std::ostream& os, const R& r, bool mirror) { os << (mirror ? MIRROR - key_of(r) : key_of(r)) << ':' << r.seq << ':' << r.pos; }

template <typename T> struct Wide {   // an output value type different from T
    T v; long extra;
    Wide() : v(), extra(0) {}
    Wide(const T& x) : v(x), extra(1) {}
    Wide& operator=(const T& x) { v = x; extra = 2; return *this; }
};

template <typename T>
class CIt {
public:
    using iterator_category = std::random_access_iterator_tag;
    using value_type = T; using difference_type = std::ptrdiff_t; using pointer = T*; using reference = T&;
    CIt() : p_(nullptr), lo_(nullptr), hi_(nullptr) {}
    CIt(T* p, T* lo, T* hi) : p_(p), lo_(lo), hi_(hi) {}
    T& operator*() const { if (p_ < lo_ || p_ >= hi_) { ++g_oob; return dummy(); } return *p_; }
    T* operator->() const { return &**this; }
    T& operator[](difference_type n) const { return *(*this + n); }
    CIt& operator++() { ++p_; return *this; }
    CIt operator++(int) { CIt t = *this; ++p_; return t; }
    CIt& operator--() { --p_; return *this; }
    CIt operator--(int) { CIt t = *this; --p_; return t; }
    CIt& operator+=(difference_type n) { p_ += n; return *this; }
    CIt& operator-=(difference_type n) { p_ -= n; return *this; }
    friend CIt operator+(CIt a, difference_type n) { a.p_ += n; return a; }
    friend CIt operator+(difference_type n, CIt a) { a.p_ += n; return a; }
    friend CIt operator-(CIt a, difference_type n) { a.p_ -= n; return a; }
    friend difference_type operator-(const CIt& a, const CIt& b) { return a.p_ - b.p_; }
    friend bool operator==(const CIt& a, const CIt& b) { return a.p_ == b.p_; }
    friend bool operator!=(const CIt& a, const CIt& b) { return a.p_ != b.p_; }
    friend bool operator<(const CIt& a, const CIt& b) { return a.p_ < b.p_; }
    friend bool operator>(const CIt& a, const CIt& b) { return a.p_ > b.p_; }
    friend bool operator<=(const CIt& a, const CIt& b) { return a.p_ <= b.p_; }
    friend bool operator>=(const CIt& a, const CIt& b) { return a.p_ >= b.p_; }
    T* raw() const { return p_; }
private:
    static T& dummy() { static T d = T(); return d; }
    T* p_; T* lo_; T* hi_;
};

struct Case {
    std::string etype; bool stable, sent; int alg; long len;
    std::vector<std::vector<int>> keys; std::vector<int> sentinels;
    int profile; unsigned r;
};

// ---------------------------------------------------------------------------------------------- storage layouts
template <typename T>
struct Blocks {            // beg[i] .. beg[i]+n[i] real elements, then (sent) one sentinel
    std::vector<T*> beg; std::vector<size_t> n; std::vector<T*> owned;
    ~Blocks() { for (T* p : owned) delete[] p; }
};
template <typename T>
static void fill_blocks(Blocks<T>& b, const Case& c, bool onebuf, bool mirror) {
    size_t k = c.keys.size(), extra = c.sent ? 1 : 0, tot = 0;
    for (auto& s : c.keys) tot += s.size() + extra;
    T* buf = nullptr;
    if (onebuf) { buf = new T[tot]; b.owned.push_back(buf); }
    size_t off = 0;
    for (size_t i = 0; i < k; ++i) {
        size_t n = c.keys[i].size();
        T* p = onebuf ? buf + off : new T[n + extra];
        if (!onebuf) b.owned.push_back(p);
        off += n + extra;
        for (size_t j = 0; j < n; ++j) p[j] = Make<T>::elem(mirror ? MIRROR - c.keys[i][j] : c.keys[i][j], static_cast<int>(i), static_cast<long>(j));
        if (c.sent) p[n] = Make<T>::elem(mirror ? MIRROR - c.sentinels[i] : c.sentinels[i], static_cast<int>(i), -1);
        b.beg.push_back(p); b.n.push_back(n);
    }
}

template <typename E>
static void print_result(std::ostream& os, const std::vector<E>& out, long nret, long len, const std::vector<long>& cur, bool end_moved, bool mirror) {
    os << "out=";
    long nshow = nret < 0 ? 0 : (nret > len ? len : nret);
    for (long i = 0; i < nshow; ++i) { if (i) os << ','; show(os, out[i], mirror); }
    os << " ret=" << nret << " cur=";
    for (size_t i = 0; i < cur.size(); ++i) { if (i) os << ','; os << cur[i]; }
    if (g_oob) os << " oob=" << g_oob;
    if (end_moved) os << " end-moved";
    os << "\n";
}

// ---------------------------------------------------------------------------------------------- ways to call
// how: 0 = entry point, all arguments; 1 = entry point, mwma defaulted (alg must be the default);
//      2 = entry point, comparator and mwma defaulted; 3 = multiway_merge_base<Stable, Sentinels> directly
template <typename SeqIt, typename OutIt, typename Comp>
static OutIt call_entry(bool stable, bool sent, SeqIt sb, SeqIt se, OutIt out, long len, Comp comp, int alg, int how) {
    tlx::MultiwayMergeAlgorithm mwma = static_cast<tlx::MultiwayMergeAlgorithm>(alg);
    if (how == 3) {
        if (!stable && !sent) return tlx::multiway_merge_base<false, false>(sb, se, out, len, comp, mwma);
        if (stable && !sent) return tlx::multiway_merge_base<true, false>(sb, se, out, len, comp, mwma);
        if (!stable && sent) return tlx::multiway_merge_base<false, true>(sb, se, out, len, comp, mwma);
        return tlx::multiway_merge_base<true, true>(sb, se, out, len, comp, mwma);
    }
    if (how == 1) {
        if (!stable && !sent) return tlx::multiway_merge(sb, se, out, len, comp);
        if (stable && !sent) return tlx::stable_multiway_merge(sb, se, out, len, comp);
        if (!stable && sent) return tlx::multiway_merge_sentinels(sb, se, out, len, comp);
        return tlx::stable_multiway_merge_sentinels(sb, se, out, len, comp);
    }
    if (!stable && !sent) return tlx::multiway_merge(sb, se, out, len, comp, mwma);
    if (stable && !sent) return tlx::stable_multiway_merge(sb, se, out, len, comp, mwma);
    if (!stable && sent) return tlx::multiway_merge_sentinels(sb, se, out, len, comp, mwma);
    return tlx::stable_multiway_merge_sentinels(sb, se, out, len, comp, mwma);
}
template <typename SeqIt, typename OutIt>
static OutIt call_entry_all_defaults(bool stable, bool sent, SeqIt sb, SeqIt se, OutIt out, long len) {
    if (!stable && !sent) return tlx::multiway_merge(sb, se, out, len);
    if (stable && !sent) return tlx::stable_multiway_merge(sb, se, out, len);
    if (!stable && sent) return tlx::multiway_merge_sentinels(sb, se, out, len);
    return tlx::stable_multiway_merge_sentinels(sb, se, out, len);
}

// the detail routines, without the switch of multiway_merge_base
template <bool Stable, typename T, typename SeqIt, typename OutIt, typename Comp>
static OutIt call_detail_s(bool sent, SeqIt sb, SeqIt se, OutIt out, long len, Comp comp, int alg, unsigned r) {
    using namespace tlx::multiway_merge_detail;
    long k = se - sb;
    bool sentinel_alg = (alg == tlx::MWMA_LOSER_TREE_SENTINEL) && sent;
    bool combined_alg = (alg == tlx::MWMA_LOSER_TREE_COMBINED) || (alg == tlx::MWMA_LOSER_TREE_SENTINEL && !sent);
    bool generic = (k >= 5) || (k >= 2 && (r % 4) == 0);     // the k-generic routines also below their usual k
    if (k < 2) return tlx::multiway_merge_base<Stable, false>(sb, se, out, len, comp, static_cast<tlx::MultiwayMergeAlgorithm>(alg));
    if (generic) {
        if (alg == tlx::MWMA_BUBBLE) return multiway_merge_bubble<Stable>(sb, se, out, len, comp);
        if (alg == tlx::MWMA_LOSER_TREE) return multiway_merge_loser_tree<tlx::LoserTree<Stable, T, Comp>>(sb, se, out, len, comp);
        if (sentinel_alg) return multiway_merge_loser_tree_sentinel<Stable>(sb, se, out, len, comp);
        return multiway_merge_loser_tree_combined<Stable>(sb, se, out, len, comp);
    }
    if (k == 3) {
        if (combined_alg) return multiway_merge_3_combined(sb, se, out, len, comp);
        if (sentinel_alg) return multiway_merge_3_variant<unguarded_iterator>(sb, se, out, len, comp);
        return multiway_merge_3_variant<guarded_iterator>(sb, se, out, len, comp);
    }
    if (k == 4) {
        if (combined_alg) return multiway_merge_4_combined(sb, se, out, len, comp);
        if (sentinel_alg) return multiway_merge_4_variant<unguarded_iterator>(sb, se, out, len, comp);
        return multiway_merge_4_variant<guarded_iterator>(sb, se, out, len, comp);
    }
    // k == 2 is handled by the caller (merge_advance family, iterators by reference)
    return tlx::merge_advance(sb[0].first, sb[0].second, sb[1].first, sb[1].second, out, len, comp);
}

template <typename DiffType, typename I1, typename I2, typename Out, typename Comp>
static Out call_merge_advance(unsigned which, I1& b1, I1 e1, I2& b2, I2 e2, Out out, long len, Comp comp) {
    DiffType n = static_cast<DiffType>(len);
    switch (which % 3) {
    case 0: return tlx::merge_advance(b1, e1, b2, e2, out, n, comp);
    case 1: return tlx::merge_advance_usual(b1, e1, b2, e2, out, n, comp);
    default: return tlx::merge_advance_movc(b1, e1, b2, e2, out, n, comp);
    }
}

// ---------------------------------------------------------------------------------------------- profiles
template <typename T, typename Comp>
static void profile_ptr_base(const Case& c, Comp comp, std::ostream& os) {           // P1
    Blocks<T> b; fill_blocks(b, c, false, false);
    size_t k = c.keys.size();
    std::vector<std::pair<T*, T*>> seqs(k);
    for (size_t i = 0; i < k; ++i) seqs[i] = std::make_pair(b.beg[i], b.beg[i] + b.n[i]);
    std::vector<T> outv(static_cast<size_t>(c.len));
    g_oob = 0;
    std::pair<T*, T*>* sb = seqs.data();
    auto ret = call_entry(c.stable, c.sent, sb, sb + k, outv.begin(), c.len, comp, c.alg, (c.r % 2) ? 3 : 0);
    std::vector<long> cur(k); bool moved = false;
    for (size_t i = 0; i < k; ++i) { cur[i] = seqs[i].first - b.beg[i]; if (seqs[i].second != b.beg[i] + b.n[i]) moved = true; }
    print_result(os, outv, ret - outv.begin(), c.len, cur, moved, false);
}

template <typename T, typename Comp>
static void profile_defaults(const Case& c, Comp comp, std::ostream& os) {           // P2
    size_t k = c.keys.size();
    std::vector<std::vector<T>> vs(k);
    using It = typename std::vector<T>::iterator;
    std::deque<std::pair<It, It>> seqs(k);
    for (size_t i = 0; i < k; ++i) {
        for (size_t j = 0; j < c.keys[i].size(); ++j) vs[i].push_back(Make<T>::elem(c.keys[i][j], static_cast<int>(i), static_cast<long>(j)));
        if (c.sent) vs[i].push_back(Make<T>::elem(c.sentinels[i], static_cast<int>(i), -1));
        seqs[i] = std::make_pair(vs[i].begin(), vs[i].end() - (c.sent ? 1 : 0));
    }
    std::deque<T> outd(static_cast<size_t>(c.len));
    g_oob = 0;
    typename std::deque<T>::iterator ret;
    if (c.alg == tlx::MWMA_ALGORITHM_DEFAULT) {
        if constexpr (std::is_same<Comp, std::less<T>>::value)
            ret = call_entry_all_defaults(c.stable, c.sent, seqs.begin(), seqs.end(), outd.begin(), c.len);
        else
            ret = call_entry(c.stable, c.sent, seqs.begin(), seqs.end(), outd.begin(), c.len, comp, c.alg, 1);
    } else
        ret = call_entry(c.stable, c.sent, seqs.begin(), seqs.end(), outd.begin(), c.len, comp, c.alg, 0);
    std::vector<long> cur(k); bool moved = false;
    for (size_t i = 0; i < k; ++i) { cur[i] = seqs[i].first - vs[i].begin(); if (seqs[i].second != vs[i].end() - (c.sent ? 1 : 0)) moved = true; }
    std::vector<T> outv(outd.begin(), outd.end());
    print_result(os, outv, ret - outd.begin(), c.len, cur, moved, false);
}

template <typename T, typename Comp>
static void profile_deque_wide(const Case& c, Comp comp, std::ostream& os) {         // P3
    size_t k = c.keys.size();
    std::vector<std::deque<T>> ds(k);
    using It = typename std::deque<T>::iterator;
    std::vector<std::pair<It, It>> seqs(k);
    for (size_t i = 0; i < k; ++i) {
        for (size_t j = 0; j < c.keys[i].size(); ++j) ds[i].push_back(Make<T>::elem(c.keys[i][j], static_cast<int>(i), static_cast<long>(j)));
        if (c.sent) ds[i].push_back(Make<T>::elem(c.sentinels[i], static_cast<int>(i), -1));
        seqs[i] = std::make_pair(ds[i].begin(), ds[i].end() - (c.sent ? 1 : 0));
    }
    Wide<T>* out = new Wide<T>[c.len];
    g_oob = 0;
    Wide<T>* ret = call_entry(c.stable, c.sent, seqs.begin(), seqs.end(), out, c.len, comp, c.alg, 0);
    std::vector<long> cur(k); bool moved = false;
    for (size_t i = 0; i < k; ++i) { cur[i] = seqs[i].first - ds[i].begin(); if (seqs[i].second != ds[i].end() - (c.sent ? 1 : 0)) moved = true; }
    std::vector<T> outv; for (long i = 0; i < c.len; ++i) outv.push_back(out[i].v);
    print_result(os, outv, ret - out, c.len, cur, moved, false);
    delete[] out;
}

template <typename T, typename Comp>
static void profile_onebuf_cit(const Case& c, Comp comp, bool mirror, int how, std::ostream& os, bool onebuf = true) {   // P4, P5, P8
    Blocks<T> b; fill_blocks(b, c, onebuf, mirror);
    size_t k = c.keys.size();
    std::vector<std::pair<CIt<T>, CIt<T>>> seqs(k);
    for (size_t i = 0; i < k; ++i) {
        T* lo = b.beg[i]; T* hi = lo + b.n[i] + (c.sent ? 1 : 0);
        seqs[i] = std::make_pair(CIt<T>(lo, lo, hi), CIt<T>(lo + b.n[i], lo, hi));
    }
    T* out = new T[c.len];
    g_oob = 0;
    T* ret = call_entry(c.stable, c.sent, seqs.begin(), seqs.end(), out, c.len, comp, c.alg, how);
    std::vector<long> cur(k); bool moved = false;
    for (size_t i = 0; i < k; ++i) { cur[i] = seqs[i].first.raw() - b.beg[i]; if (seqs[i].second.raw() != b.beg[i] + b.n[i]) moved = true; }
    std::vector<T> outv(out, out + c.len);
    print_result(os, outv, ret - out, c.len, cur, moved, mirror);
    delete[] out;
}

template <typename T, typename Comp>
static void profile_detail_cit(const Case& c, Comp comp, std::ostream& os) {         // P6
    Blocks<T> b; fill_blocks(b, c, false, false);
    size_t k = c.keys.size();
    std::vector<long> cur(k); bool moved = false;
    g_oob = 0;
    if (k == 2 && (c.r % 4) != 0) {
        // merge_advance family: two different iterator types, varying DiffType, back_inserter output
        T* lo0 = b.beg[0]; T* hi0 = lo0 + b.n[0] + (c.sent ? 1 : 0);
        CIt<T> b1(lo0, lo0, hi0), e1(lo0 + b.n[0], lo0, hi0);
        T* b2 = b.beg[1]; T* e2 = b2 + b.n[1];
        std::vector<T> outv;
        unsigned which = c.r / 4;
        auto bi = std::back_inserter(outv);
        switch ((c.r / 12) % 4) {
        case 0: call_merge_advance<int>(which, b1, e1, b2, e2, bi, c.len, comp); break;
        case 1: call_merge_advance<long>(which, b1, e1, b2, e2, bi, c.len, comp); break;
        case 2: call_merge_advance<unsigned>(which, b1, e1, b2, e2, bi, c.len, comp); break;
        default: call_merge_advance<size_t>(which, b1, e1, b2, e2, bi, c.len, comp); break;
        }
        cur[0] = b1.raw() - b.beg[0]; cur[1] = b2 - b.beg[1];
        long nret = static_cast<long>(outv.size());
        outv.resize(static_cast<size_t>(c.len > nret ? c.len : nret));
        print_result(os, outv, nret, c.len, cur, false, false);
        return;
    }
    std::vector<std::pair<CIt<T>, CIt<T>>> seqs(k);
    for (size_t i = 0; i < k; ++i) {
        T* lo = b.beg[i]; T* hi = lo + b.n[i] + (c.sent ? 1 : 0);
        seqs[i] = std::make_pair(CIt<T>(lo, lo, hi), CIt<T>(lo + b.n[i], lo, hi));
    }
    T* out = new T[c.len];
    T* ret = c.stable ? call_detail_s<true, T>(c.sent, seqs.begin(), seqs.end(), out, c.len, comp, c.alg, c.r)
                      : call_detail_s<false, T>(c.sent, seqs.begin(), seqs.end(), out, c.len, comp, c.alg, c.r);
    for (size_t i = 0; i < k; ++i) { cur[i] = seqs[i].first.raw() - b.beg[i]; if (seqs[i].second.raw() != b.beg[i] + b.n[i]) moved = true; }
    std::vector<T> outv(out, out + c.len);
    print_result(os, outv, ret - out, c.len, cur, moved, false);
    delete[] out;
}

template <typename T, typename Comp>
static void profile_detail_raw_onebuf(const Case& c, Comp comp, std::ostream& os) {  // P7
    Blocks<T> b; fill_blocks(b, c, true, false);
    size_t k = c.keys.size();
    std::vector<std::pair<T*, T*>> seqs(k);
    for (size_t i = 0; i < k; ++i) seqs[i] = std::make_pair(b.beg[i], b.beg[i] + b.n[i]);
    std::vector<long> cur(k); bool moved = false;
    T* out = new T[c.len];
    g_oob = 0;
    T* ret;
    if (k == 2 && (c.r % 4) != 0) {
        switch ((c.r / 12) % 4) {
        case 0: ret = call_merge_advance<int>(c.r / 4, seqs[0].first, seqs[0].second, seqs[1].first, seqs[1].second, out, c.len, comp); break;
        case 1: ret = call_merge_advance<long>(c.r / 4, seqs[0].first, seqs[0].second, seqs[1].first, seqs[1].second, out, c.len, comp); break;
        case 2: ret = call_merge_advance<unsigned>(c.r / 4, seqs[0].first, seqs[0].second, seqs[1].first, seqs[1].second, out, c.len, comp); break;
        default: ret = call_merge_advance<size_t>(c.r / 4, seqs[0].first, seqs[0].second, seqs[1].first, seqs[1].second, out, c.len, comp); break;
        }
    } else
        ret = c.stable ? call_detail_s<true, T>(c.sent, seqs.begin(), seqs.end(), out, c.len, comp, c.alg, c.r)
                       : call_detail_s<false, T>(c.sent, seqs.begin(), seqs.end(), out, c.len, comp, c.alg, c.r);
    for (size_t i = 0; i < k; ++i) { cur[i] = seqs[i].first - b.beg[i]; if (seqs[i].second != b.beg[i] + b.n[i]) moved = true; }
    std::vector<T> outv(out, out + c.len);
    print_result(os, outv, ret - out, c.len, cur, moved, false);
    delete[] out;
}

// which part answers which (profile, etype)
static int part_of(int profile, const std::string& e) {
    switch (profile) {
    case 1: return (e == "I" || e == "T") ? 1 : 2;
    case 2: return e == "B" ? 2 : 3;
    case 3: return 1;
    case 4: return 3;
    case 5: return 1;
    case 6: return 3;
    case 7: return 2;
    case 8: return 1;
    default: return 0;
    }
}

static std::vector<int> parse_seq(const std::string& tok) {
    std::vector<int> v;
    if (tok == "_") return v;
    std::stringstream ss(tok); std::string item;
    while (std::getline(ss, item, ',')) v.push_back(std::atoi(item.c_str()));
    return v;
}

int main(int argc, char** argv) {
    if (argc < 2) { std::fprintf(stderr, "usage: %s casefile\n", argv[0]); return 2; }
    std::signal(SIGALRM, on_alarm);
    std::ifstream in(argv[1]);
    std::string line;
    while (std::getline(in, line)) {
        std::stringstream ss(line);
        Case c; int stable, sent; size_t k;
        if (!(ss >> c.etype >> stable >> sent >> c.alg >> c.len >> k)) { if (!line.empty()) std::cout << "?\n"; continue; }
        c.stable = stable != 0; c.sent = sent != 0;
        c.keys.resize(k);
        std::string tok;
        for (size_t i = 0; i < k; ++i) { ss >> tok; c.keys[i] = parse_seq(tok); }
        c.sentinels.assign(k, 0);
        if (c.sent) for (size_t i = 0; i < k; ++i) ss >> c.sentinels[i];
        c.profile = 0; c.r = 0;
        if (ss >> tok && tok.size() > 2 && tok[0] == 'v' && tok[1] == '=') {
            c.profile = std::atoi(tok.c_str() + 2);
            size_t dot = tok.find('.');
            if (dot != std::string::npos) c.r = static_cast<unsigned>(std::strtoul(tok.c_str() + dot + 1, nullptr, 10));
        }
        if (part_of(c.profile, c.etype) != API_PART) { std::cout << "SKIP\n"; continue; }
        std::ostringstream os;
        alarm(20);
        const std::string& e = c.etype;
#if API_PART == 1
        if (c.profile == 1 && e == "I") profile_ptr_base<int>(c, std::less<int>(), os);
        else if (c.profile == 1) profile_ptr_base<Rec16>(c, KeyLess(), os);
        else if (c.profile == 3) profile_deque_wide<Rec16>(c, KeyLess(), os);
        else if (c.profile == 8) profile_onebuf_cit<RecOwn>(c, KeyLess(), false, (c.r % 2) ? 3 : 0, os, false);
        else { long calls = 0; profile_onebuf_cit<Rec16>(c, CountLess(&calls), false, 0, os); }
#elif API_PART == 2
        if (c.profile == 1 && e == "M") profile_ptr_base<Rec24>(c, KeyLess(), os);
        else if (c.profile == 1) profile_ptr_base<Rec40>(c, KeyLess(), os);
        else if (c.profile == 2) profile_defaults<Rec40>(c, KeyLess(), os);
        else profile_detail_raw_onebuf<int>(c, std::less<int>(), os);
#elif API_PART == 3
        if (c.profile == 2) profile_defaults<int>(c, std::less<int>(), os);
        else if (c.profile == 4 && e == "I") profile_onebuf_cit<int>(c, std::greater<int>(), true, (c.r % 2) ? 3 : 0, os);
        else if (c.profile == 4) profile_onebuf_cit<Rec40>(c, KeyGreater(), true, (c.r % 2) ? 3 : 0, os);
        else if (e == "T") profile_detail_cit<Rec16>(c, KeyLess(), os);
        else profile_detail_cit<Rec40>(c, KeyLess(), os);
#endif
        alarm(0);
        std::cout << os.str() << std::flush;
    }
    return 0;
}
