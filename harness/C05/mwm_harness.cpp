// C05 correspondence harness: runs the four public sequential multiway-merge entry points of /repo on the cases of
// a case file and prints one canonical line per case (same format as ocaml/C05_driver.ml).
//
// case:  <etype I|T|B> <stable 0|1> <sentinels 0|1> <alg 0..3> <len> <k> <seq_0> ... <seq_k-1> [<sentinel_0> ... <sentinel_k-1>]
//        seq_i = "_" (empty) or comma separated keys.
// etype: I = int (copy-based loser trees, no tags), T = 16-byte (key, seq, pos) record (copy-based trees, since
//        sizeof <= 2*sizeof(size_t)), B = 40-byte record with payload (pointer-based trees).
// Inputs are handed over through checking iterators: a dereference outside [begin, end) of the sequence's storage
// (end + 1 when the caller supplied sentinels) is counted and reported as oob=<n>; every sequence and the output
// live in exactly sized heap blocks, so ASan sees anything the iterators do not.
#include <tlx/algorithm/multiway_merge.hpp>

#include <csignal>
#include <cstdio>
#include <cstdlib>
#include <cstring>
#include <fstream>
#include <iostream>
#include <iterator>
#include <sstream>
#include <string>
#include <utility>
#include <vector>
#include <unistd.h>

static long g_oob = 0;

// a merge that does not come back within the watchdog time is reported as such (exit code 3)
static void on_alarm(int) { const char msg[] = "\nNO-TERMINATION\n"; ssize_t r = write(1, msg, sizeof(msg) - 1); (void)r; _exit(3); }

struct Rec16 {
    int key; int seq; long pos;
    Rec16() : key(0), seq(-7), pos(-7) {}
    Rec16(int k, int s, long p) : key(k), seq(s), pos(p) {}
};
struct Rec40 {
    int key; int seq; long pos; char payload[24];
    Rec40() : key(0), seq(-7), pos(-7) { std::memset(payload, 0, sizeof(payload)); }
    Rec40(int k, int s, long p) : key(k), seq(s), pos(p) { std::memset(payload, 'x', sizeof(payload)); }
};
static_assert(sizeof(int) <= 2 * sizeof(size_t), "int selects the copying trees");
static_assert(sizeof(Rec16) == 16 && sizeof(Rec16) <= 2 * sizeof(size_t), "Rec16 selects the copying trees");
static_assert(sizeof(Rec40) > 2 * sizeof(size_t), "Rec40 selects the pointer trees");

// operator< of the record types is deliberately UNRELATED to the comparators handed to the merges (position only):
// library code that falls back to operator< instead of the user's comparator computes wrong splits here
static bool operator<(const Rec16& a, const Rec16& b) { return a.pos < b.pos; }
static bool operator<(const Rec40& a, const Rec40& b) { return a.pos < b.pos; }

struct KeyLess {
    template <typename R>
    bool operator()(const R& a, const R& b) const { return a.key < b.key; }
};

template <typename T> T make_elem(int k, int s, long p);
template <> int make_elem<int>(int k, int, long) { return k; }
template <> Rec16 make_elem<Rec16>(int k, int s, long p) { return Rec16(k, s, p); }
template <> Rec40 make_elem<Rec40>(int k, int s, long p) { return Rec40(k, s, p); }

static void show(std::ostream& os, int v) { os << v; }
static void show(std::ostream& os, const Rec16& r) { os << r.key << ':' << r.seq << ':' << r.pos; }
static void show(std::ostream& os, const Rec40& r) { os << r.key << ':' << r.seq << ':' << r.pos; }

// random access iterator that counts dereferences outside [lo, hi)
template <typename T>
class CIt {
public:
    using iterator_category = std::random_access_iterator_tag;
    using value_type = T;
    using difference_type = std::ptrdiff_t;
    using pointer = T*;
    using reference = T&;

    CIt() : p_(nullptr), lo_(nullptr), hi_(nullptr) {}
    CIt(T* p, T* lo, T* hi) : p_(p), lo_(lo), hi_(hi) {}
    T& operator*() const {
        if (p_ < lo_ || p_ >= hi_) { ++g_oob; return dummy(); }
        return *p_;
    }
    T* operator->() const { return &**this; }
    T& operator[](difference_type n) const { return *(*this + n); }
    CIt& operator++() { ++p_; return *this; }
    CIt operator++(int) { CIt t = *this; ++p_; return t; }
    CIt& operator--() { --p_; return *this; }
    CIt operator--(int) { CIt t = *this; --p_; return t; }
    CIt& operator+=(difference_type n) { p_ += n; return *this; }
    CIt& operator-=(difference_type n) { p_ -= n; return *this; }
    friend CIt operator+(CIt a, difference_type n) { a.p_ += n; return a; }
    friend CIt operator+(difference_type n, CIt a) { a.p_ += n; return a; }
    friend CIt operator-(CIt a, difference_type n) { a.p_ -= n; return a; }
    friend difference_type operator-(const CIt& a, const CIt& b) { return a.p_ - b.p_; }
    friend bool operator==(const CIt& a, const CIt& b) { return a.p_ == b.p_; }
    friend bool operator!=(const CIt& a, const CIt& b) { return a.p_ != b.p_; }
    friend bool operator<(const CIt& a, const CIt& b) { return a.p_ < b.p_; }
    friend bool operator>(const CIt& a, const CIt& b) { return a.p_ > b.p_; }
    friend bool operator<=(const CIt& a, const CIt& b) { return a.p_ <= b.p_; }
    friend bool operator>=(const CIt& a, const CIt& b) { return a.p_ >= b.p_; }
    T* raw() const { return p_; }

private:
    static T& dummy() { static T d = T(); return d; }
    T* p_; T* lo_; T* hi_;
};

static std::vector<int> parse_seq(const std::string& tok) {
    std::vector<int> v;
    if (tok == "_") return v;
    std::stringstream ss(tok);
    std::string item;
    while (std::getline(ss, item, ',')) v.push_back(std::atoi(item.c_str()));
    return v;
}

template <typename T, typename Comp>
static void run_case(bool stable, bool sent, int alg, long len, const std::vector<std::vector<int>>& keys,
                     const std::vector<int>& sentinels, std::ostream& os) {
    const size_t k = keys.size();
    std::vector<T*> store(k);
    std::vector<std::pair<CIt<T>, CIt<T>>> seqs(k);
    for (size_t i = 0; i < k; ++i) {
        size_t n = keys[i].size();
        store[i] = new T[n + (sent ? 1 : 0)];
        for (size_t j = 0; j < n; ++j) store[i][j] = make_elem<T>(keys[i][j], static_cast<int>(i), static_cast<long>(j));
        if (sent) store[i][n] = make_elem<T>(sentinels[i], static_cast<int>(i), -1);
        T* lo = store[i];
        T* hi = store[i] + n + (sent ? 1 : 0);
        seqs[i] = std::make_pair(CIt<T>(lo, lo, hi), CIt<T>(lo + n, lo, hi));
    }
    T* out = new T[len];
    g_oob = 0;
    tlx::MultiwayMergeAlgorithm mwma = static_cast<tlx::MultiwayMergeAlgorithm>(alg);
    T* ret;
    if (!stable && !sent) ret = tlx::multiway_merge(seqs.begin(), seqs.end(), out, len, Comp(), mwma);
    else if (stable && !sent) ret = tlx::stable_multiway_merge(seqs.begin(), seqs.end(), out, len, Comp(), mwma);
    else if (!stable && sent) ret = tlx::multiway_merge_sentinels(seqs.begin(), seqs.end(), out, len, Comp(), mwma);
    else ret = tlx::stable_multiway_merge_sentinels(seqs.begin(), seqs.end(), out, len, Comp(), mwma);
    long nret = ret - out;
    os << "out=";
    long nshow = nret < 0 ? 0 : (nret > len ? len : nret);
    for (long i = 0; i < nshow; ++i) { if (i) os << ','; show(os, out[i]); }
    os << " ret=" << nret << " cur=";
    bool end_moved = false;
    for (size_t i = 0; i < k; ++i) {
        if (i) os << ',';
        os << (seqs[i].first.raw() - store[i]);
        if (seqs[i].second.raw() != store[i] + keys[i].size()) end_moved = true;
    }
    if (g_oob) os << " oob=" << g_oob;
    if (end_moved) os << " end-moved";
    os << "\n";
    delete[] out;
    for (size_t i = 0; i < k; ++i) delete[] store[i];
}

int main(int argc, char** argv) {
    if (argc < 2) { std::fprintf(stderr, "usage: %s casefile\n", argv[0]); return 2; }
    std::signal(SIGALRM, on_alarm);
    std::ifstream in(argv[1]);
    std::string line;
    while (std::getline(in, line)) {
        std::stringstream ss(line);
        std::string etype;
        int stable, sent, alg; long len; size_t k;
        if (!(ss >> etype >> stable >> sent >> alg >> len >> k)) { if (!line.empty()) std::cout << "?\n"; continue; }
        std::vector<std::vector<int>> keys(k);
        std::string tok;
        for (size_t i = 0; i < k; ++i) { ss >> tok; keys[i] = parse_seq(tok); }
        std::vector<int> sentinels(k, 0);
        if (sent) for (size_t i = 0; i < k; ++i) ss >> sentinels[i];
        std::ostringstream os;
        alarm(20);
        if (etype == "I") run_case<int, std::less<int>>(stable, sent, alg, len, keys, sentinels, os);
        else if (etype == "T") run_case<Rec16, KeyLess>(stable, sent, alg, len, keys, sentinels, os);
        else run_case<Rec40, KeyLess>(stable, sent, alg, len, keys, sentinels, os);
        alarm(0);
        std::cout << os.str() << std::flush;
    }
    return 0;
}
