// C05 "huge totals" harness: inputs whose TOTAL size is around 2^31 .. 2^32+ elements, of which a merge of a few
// hundred elements only ever touches the first elements of each sequence (plus the O(log n) probes of
// prepare_unguarded's binary searches and the last elements).  The sequences are carved back to back, each followed
// by one sentinel slot, out of ONE sparse anonymous MAP_NORESERVE mapping: only the explicitly given prefix of each
// sequence (negative keys) and the sentinel are written, everything else is the kernel's zero page = a long run of key 0,
// so every sequence is sorted and no real memory is used.
//
// case:  <class b|w> <stable 0|1> <sentinels 0|1> <alg 0..3> <len> <k>  then k tokens  <n_i>:<p_0,p_1,...|_>
//        class b = int8_t elements (copy-based loser trees), w = 24-byte records {long key, a, b} (pointer-based trees);
//        n_i = number of elements of sequence i, p_j its explicit leading keys (the rest is 0); sentinel key = 100.
// output: out=<keys> ret=<returned position> cur=<how far each begin moved>   (as the other C05 harnesses, keys only)
#include <tlx/algorithm/multiway_merge.hpp>

#include <sys/mman.h>

#include <csignal>
#include <cstdint>
#include <cstdio>
#include <cstdlib>
#include <fstream>
#include <iostream>
#include <sstream>
#include <string>
#include <utility>
#include <vector>
#include <unistd.h>

static void on_alarm(int) { const char msg[] = "\nNO-TERMINATION\n"; ssize_t r = write(1, msg, sizeof(msg) - 1); (void)r; _exit(3); }

struct Wide24 { long key; long a; long b; };
static_assert(sizeof(Wide24) > 2 * sizeof(size_t), "pointer-based trees");
// deliberately unrelated to the comparator handed to the merges
static bool operator<(const Wide24& x, const Wide24& y) { return x.b > y.b; }
struct WideLess { bool operator()(const Wide24& x, const Wide24& y) const { return x.key < y.key; } };

static long key_of(std::int8_t v) { return v; }
static long key_of(const Wide24& w) { return w.key; }
static void set_key(std::int8_t& v, long k) { v = static_cast<std::int8_t>(k); }
static void set_key(Wide24& w, long k) { w.key = k; w.a = 1; w.b = k; }

struct Seq { size_t n; std::vector<long> prefix; };

template <typename T, typename Comp>
static void run_case(bool stable, bool sent, int alg, long len, const std::vector<Seq>& in, std::ostream& os) {
    const size_t k = in.size();
    size_t slots = 1;
    for (auto& s : in) slots += s.n + 1;
    const size_t bytes = slots * sizeof(T);
    void* mem = mmap(nullptr, bytes, PROT_READ | PROT_WRITE, MAP_PRIVATE | MAP_ANONYMOUS | MAP_NORESERVE, -1, 0);
    if (mem == MAP_FAILED) { os << "MMAP-FAILED\n"; return; }
    T* p = static_cast<T*>(mem);
    std::vector<std::pair<T*, T*>> seqs(k), orig(k);
    for (size_t i = 0; i < k; ++i) {
        for (size_t j = 0; j < in[i].prefix.size() && j < in[i].n; ++j) set_key(p[j], in[i].prefix[j]);
        set_key(p[in[i].n], 100);                       // the sentinel slot behind the sequence
        seqs[i] = orig[i] = std::make_pair(p, p + in[i].n);
        p += in[i].n + 1;
    }
    T* out = new T[len];
    tlx::MultiwayMergeAlgorithm mwma = static_cast<tlx::MultiwayMergeAlgorithm>(alg);
    T* ret;
    if (!stable && !sent) ret = tlx::multiway_merge(seqs.begin(), seqs.end(), out, len, Comp(), mwma);
    else if (stable && !sent) ret = tlx::stable_multiway_merge(seqs.begin(), seqs.end(), out, len, Comp(), mwma);
    else if (!stable && sent) ret = tlx::multiway_merge_sentinels(seqs.begin(), seqs.end(), out, len, Comp(), mwma);
    else ret = tlx::stable_multiway_merge_sentinels(seqs.begin(), seqs.end(), out, len, Comp(), mwma);
    long nret = ret - out;
    os << "out=";
    long nshow = nret < 0 ? 0 : (nret > len ? len : nret);
    for (long i = 0; i < nshow; ++i) { if (i) os << ','; os << key_of(out[i]); }
    os << " ret=" << nret << " cur=";
    bool moved = false;
    for (size_t i = 0; i < k; ++i) {
        if (i) os << ',';
        os << (seqs[i].first - orig[i].first);
        if (seqs[i].second != orig[i].second) moved = true;
    }
    if (moved) os << " end-moved";
    os << "\n";
    delete[] out;
    munmap(mem, bytes);
}

int main(int argc, char** argv) {
    if (argc < 2) { std::fprintf(stderr, "usage: %s casefile\n", argv[0]); return 2; }
    std::signal(SIGALRM, on_alarm);
    std::ifstream f(argv[1]);
    std::string line;
    while (std::getline(f, line)) {
        std::stringstream ss(line);
        std::string cls; int stable, sent, alg; long len; size_t k;
        if (!(ss >> cls >> stable >> sent >> alg >> len >> k)) { if (!line.empty()) std::cout << "?\n"; continue; }
        std::vector<Seq> in(k);
        std::string tok;
        for (size_t i = 0; i < k; ++i) {
            ss >> tok;
            size_t colon = tok.find(':');
            in[i].n = std::strtoull(tok.substr(0, colon).c_str(), nullptr, 10);
            std::string pre = tok.substr(colon + 1);
            if (pre != "_") { std::stringstream ps(pre); std::string item; while (std::getline(ps, item, ',')) in[i].prefix.push_back(std::atol(item.c_str())); }
        }
        std::ostringstream os;
        alarm(60);
        if (cls == "b") run_case<std::int8_t, std::less<std::int8_t>>(stable, sent, alg, len, in, os);
        else run_case<Wide24, WideLess>(stable, sent, alg, len, in, os);
        alarm(0);
        std::cout << os.str() << std::flush;
    }
    return 0;
}
