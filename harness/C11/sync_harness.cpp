// C11 harness: runs the REAL tlx::Semaphore / ThreadBarrierMutex / ThreadBarrierSpin under the deterministic
// scheduler shim (force-included: -include harness/sched/verif_sched.hpp) and prints ONE line per case:
//
//   OK final=<...> TRACE <event tokens>
//   DEADLOCK why=<..> STATE <component state printed by the on_deadlock hook> CHOICES <c,c,..> TRACE <event tokens>
//   BADCASE <reason>
//   HANG case_index=<i> no_progress_for=<s>s   (watchdog of the parent: the child was killed)
//   SKIPPED <reason>      (only after three cases ran into the step bound: the check has its violations by then)
//
// Case file, one case per line (blank-separated):
//   sem <initial> <strategy> <spurious> <seed> [choices=c,c,..] [ctor=K] | <call> <call> .. | <call> .. | ..   (one "|" block per thread)
//        call = S (signal())  SN,<n> (signal(n))  W,<delta>,<slack> (wait(delta, slack))  W1,<delta> (wait(delta))  W0 (wait())
//               V (value(): racing observer, noted as US:val)
//               T,<delta>,<slack> (try_acquire(delta, slack))  T1,<delta> (try_acquire(delta))  T0 (try_acquire())
//        ctor: 0 Semaphore(initial)   1 Semaphore() (initial must be 0)   2 move-constructed from Semaphore(initial)
//              3 Semaphore(7), then move-assigned from Semaphore(initial)
//   bm|bs <ymode> <strategy> <spurious> <seed> [choices=..] [sil=<bits>] [stepq=1] | <gens thread 1> <gens thread 2> ..   (n = number of threads)
//        ymode: 0 wait   1 wait_yield   2 mixed: worker t (0-based) crosses generation g with wait_yield iff (t + g + seed) odd
//        sil: bit g = 1: generation g is crossed WITHOUT a lambda (wait() / wait_yield(), default NoOperation)
//        maxsteps=<k>: step bound of the scheduler for this case (default 50000)
//        stepq: spin barrier only: every thread calls the accessor step() after each crossing (an atomic load event)
// Logical thread 0 is the main thread (spawns and joins only); workers are 1..n in spawn order.
// Every case runs in a forked child (batches: a child continues with the following cases until one deadlocks,
// because the shim ends the process with status 3 at a rest state).
#include <cstdio>
#include <cstdlib>
#include <cstring>
#include <fstream>
#include <iostream>
#include <sstream>
#include <string>
#include <type_traits>
#include <vector>

#include <poll.h>
#include <signal.h>
#include <sys/mman.h>
#include <time.h>
#include <sys/wait.h>
#include <unistd.h>

#include <tlx/semaphore.hpp>
#include <tlx/thread_barrier_mutex.hpp>
#include <tlx/thread_barrier_spin.hpp>

struct Call { char kind; size_t a, b; int form; };   // kind: S, N, W, T; form: 2 = both arguments, 1 = delta only, 0 = defaults

struct Case {
    std::string kind;           // sem / bm / bs
    size_t initial = 0;         // sem
    int yield = 0;              // barriers
    int strategy = 0; bool spurious = false; unsigned long long seed = 0;
    std::vector<int> choices; bool have_choices = false;
    int ctor = 0; std::string sil; int stepq = 0; long maxsteps = 50000;
    std::vector<std::vector<Call>> progs;   // sem
    std::vector<int> gens;                  // barriers
    std::string bad;
};

static std::vector<std::string> split(const std::string& s, char c) {
    std::vector<std::string> out; std::string cur;
    for (char ch : s) { if (ch == c) { out.push_back(cur); cur.clear(); } else cur += ch; }
    out.push_back(cur); return out;
}

static Case parse(const std::string& line) {
    Case c; std::istringstream is(line); std::string tok; std::vector<std::string> toks;
    while (is >> tok) toks.push_back(tok);
    if (toks.empty()) { c.bad = "empty"; return c; }
    c.kind = toks[0]; size_t i = 1;
    auto num = [&](unsigned long long& v) { if (i >= toks.size()) { c.bad = "short"; return; } v = strtoull(toks[i++].c_str(), nullptr, 10); };
    unsigned long long v = 0;
    if (c.kind == "sem") { num(v); c.initial = v; }
    else if (c.kind == "bm" || c.kind == "bs") { num(v); c.yield = static_cast<int>(v); }
    else { c.bad = "kind"; return c; }
    num(v); c.strategy = static_cast<int>(v); num(v); c.spurious = v != 0; num(v); c.seed = v;
    for (; i < toks.size() && toks[i] != "|"; ++i) {
        if (toks[i].rfind("choices=", 0) == 0) {
            c.have_choices = true;
            for (auto& x : split(toks[i].substr(8), ',')) if (!x.empty()) c.choices.push_back(atoi(x.c_str()));
        }
        else if (toks[i].rfind("ctor=", 0) == 0) c.ctor = atoi(toks[i].c_str() + 5);
        else if (toks[i].rfind("sil=", 0) == 0) c.sil = toks[i].substr(4);
        else if (toks[i].rfind("stepq=", 0) == 0) c.stepq = atoi(toks[i].c_str() + 6);
        else if (toks[i].rfind("maxsteps=", 0) == 0) c.maxsteps = atol(toks[i].c_str() + 9);
        else { c.bad = "header " + toks[i]; return c; }
    }
    if (!c.bad.empty()) return c;
    if (i >= toks.size() || toks[i] != "|") { c.bad = "no |"; return c; }
    if (c.kind == "sem") {
        for (; i < toks.size(); ++i) {
            if (toks[i] == "|") { c.progs.emplace_back(); continue; }
            auto p = split(toks[i], ','); Call k{'?', 0, 0, 2};
            if (p[0] == "S" && p.size() == 1) k.kind = 'S';
            else if (p[0] == "SN" && p.size() == 2) { k.kind = 'N'; k.a = strtoull(p[1].c_str(), nullptr, 10); }
            else if (p[0] == "W" && p.size() == 3) { k.kind = 'W'; k.a = strtoull(p[1].c_str(), nullptr, 10); k.b = strtoull(p[2].c_str(), nullptr, 10); }
            else if (p[0] == "T" && p.size() == 3) { k.kind = 'T'; k.a = strtoull(p[1].c_str(), nullptr, 10); k.b = strtoull(p[2].c_str(), nullptr, 10); }
            else if (p[0] == "W1" && p.size() == 2) { k.kind = 'W'; k.form = 1; k.a = strtoull(p[1].c_str(), nullptr, 10); }
            else if (p[0] == "T1" && p.size() == 2) { k.kind = 'T'; k.form = 1; k.a = strtoull(p[1].c_str(), nullptr, 10); }
            else if (p[0] == "W0" && p.size() == 1) { k.kind = 'W'; k.form = 0; }
            else if (p[0] == "T0" && p.size() == 1) { k.kind = 'T'; k.form = 0; }
            else if (p[0] == "V" && p.size() == 1) { k.kind = 'V'; }
            else { c.bad = "call " + toks[i]; return c; }
            c.progs.back().push_back(k);
        }
        if (c.progs.empty() || c.progs.size() > 8) c.bad = "threads";
        if (c.ctor < 0 || c.ctor > 3 || (c.ctor == 1 && c.initial != 0)) c.bad = "ctor";
    } else {
        for (++i; i < toks.size(); ++i) c.gens.push_back(atoi(toks[i].c_str()));
        if (c.gens.empty() || c.gens.size() > 8) c.bad = "threads";
    }
    return c;
}

// per-thread progress, read by the on_deadlock hooks (plain data: all logical threads are serialised by the shim)
static int g_pos[16];      // index of the current call / generation
static int g_inside[16];   // 1 while inside the call

static void run_sem(const Case& c) {
    verif::Sched& s = verif::Sched::get();
    // construction variants (before the scheduler is active: no events); the semaphore under test is `sem`
    tlx::Semaphore plain(c.initial), dflt, source(c.initial), target(7);
    tlx::Semaphore moved(std::move(source));           // move constructor
    if (c.ctor == 3) target = tlx::Semaphore(c.initial);   // move assignment
    tlx::Semaphore& sem = c.ctor == 0 ? plain : c.ctor == 1 ? dflt : c.ctor == 2 ? moved : target;
    size_t n = c.progs.size();
    for (size_t t = 0; t <= n; ++t) { g_pos[t] = 0; g_inside[t] = 0; }
    s.begin(c.seed, c.strategy, c.spurious, c.maxsteps);
    if (c.have_choices) s.set_replay(c.choices);
    s.on_deadlock = [&]() {
        printf("STATE sem value=%zu", sem.value());
        for (size_t t = 1; t <= n; ++t) printf(" t%zu:%d:%d", t, g_pos[t], g_inside[t]);
        printf("\n");
    };
    {
        std::vector<verif::thread> th;
        for (size_t t = 0; t < n; ++t)
            th.emplace_back([&, t]() {
                const std::vector<Call>& p = c.progs[t];
                for (size_t k = 0; k < p.size(); ++k) {
                    g_pos[t + 1] = static_cast<int>(k); g_inside[t + 1] = 1;
                    size_t r = 0;
                    switch (p[k].kind) {
                    case 'S': r = sem.signal(); break;
                    case 'N': r = sem.signal(p[k].a); break;
                    case 'W': r = p[k].form == 2 ? sem.wait(p[k].a, p[k].b) : p[k].form == 1 ? sem.wait(p[k].a) : sem.wait(); break;
                    case 'T': r = (p[k].form == 2 ? sem.try_acquire(p[k].a, p[k].b) : p[k].form == 1 ? sem.try_acquire(p[k].a)
                                                  : sem.try_acquire()) ? 1 : 0; break;
                    case 'V': r = sem.value(); break;      // racing observer (no scheduling point)
                    }
                    g_inside[t + 1] = 0; g_pos[t + 1] = static_cast<int>(k + 1);
                    s.note(p[k].kind == 'V' ? "val" : "ret", static_cast<long long>(k), static_cast<long long>(r));
                }
            });
        for (auto& x : th) x.join();
    }
    std::string trace = s.end();
    s.on_deadlock = nullptr;
    printf("OK final=%zu TRACE %s\n", sem.value(), trace.c_str());
}

template <typename Barrier>
static void run_bar(const Case& c) {
    verif::Sched& s = verif::Sched::get();
    size_t n = c.gens.size();
    Barrier bar(n);
    for (size_t t = 0; t <= n; ++t) { g_pos[t] = 0; g_inside[t] = 0; }
    s.begin(c.seed, c.strategy, c.spurious, c.maxsteps);
    if (c.have_choices) s.set_replay(c.choices);
    s.on_deadlock = [&]() {
        // ThreadBarrierSpin::step() is an atomic load = a shim scheduling point: not callable from inside the hook
        if constexpr (std::is_same<Barrier, tlx::ThreadBarrierMutex>::value)
            printf("STATE bar step=%zu", static_cast<size_t>(bar.step()));
        else
            printf("STATE bar step=-1");
        for (size_t t = 1; t <= n; ++t) printf(" t%zu:%d:%d", t, g_pos[t], g_inside[t]);
        printf("\n");
    };
    {
        std::vector<verif::thread> th;
        for (size_t t = 0; t < n; ++t)
            th.emplace_back([&, t]() {
                for (int g = 0; g < c.gens[t]; ++g) {
                    g_pos[t + 1] = g; g_inside[t + 1] = 1;
                    s.note("in", g, 0);
                    auto action = [&s, g]() { s.user("act", g, 0); };   // with a scheduling point: "before anyone is released" is observable
                    bool yl = c.yield == 1 || (c.yield == 2 && ((t + static_cast<size_t>(g) + c.seed) % 2 == 1));
                    bool silent = static_cast<size_t>(g) < c.sil.size() && c.sil[static_cast<size_t>(g)] == '1';
                    if (silent) { if (yl) bar.wait_yield(); else bar.wait(); }
                    else { if (yl) bar.wait_yield(action); else bar.wait(action); }
                    g_inside[t + 1] = 0; g_pos[t + 1] = g + 1;
                    s.note("out", g, 0);
                    if constexpr (std::is_same<Barrier, tlx::ThreadBarrierSpin>::value)
                        if (c.stepq) (void)bar.step();      // accessor: logged as AL:a0:<value>
                }
            });
        for (auto& x : th) x.join();
    }
    std::string trace = s.end();
    s.on_deadlock = nullptr;
    printf("OK final=%zu TRACE %s\n", static_cast<size_t>(bar.step()), trace.c_str());
}

static void run_case(const std::string& line) {
    Case c = parse(line);
    if (!c.bad.empty()) { printf("BADCASE %s\n", c.bad.c_str()); return; }
    if (c.kind == "sem") run_sem(c);
    else if (c.kind == "bm") run_bar<tlx::ThreadBarrierMutex>(c);
    else run_bar<tlx::ThreadBarrierSpin>(c);
}

int main(int argc, char** argv) {
    if (argc < 2) { fprintf(stderr, "usage: %s casefile\n", argv[0]); return 2; }
    std::vector<std::string> cases;
    { std::ifstream in(argv[1]); std::string l; while (std::getline(in, l)) if (l.find_first_not_of(" \t\r") != std::string::npos) cases.push_back(l); }
    // shared progress counter: number of cases whose line is complete
    size_t* done = static_cast<size_t*>(mmap(nullptr, sizeof(size_t), PROT_READ | PROT_WRITE, MAP_SHARED | MAP_ANONYMOUS, -1, 0));
    if (done == MAP_FAILED) { perror("mmap"); return 2; }
    *done = 0;
    int hangs = 0;
    long hang_secs = getenv("VERIF_C11_HANG_SECS") ? atol(getenv("VERIF_C11_HANG_SECS")) : 10;
    int livelocks = 0;   // cases that hit the step bound; after 3 of them the remaining cases are skipped (each costs seconds)
    while (*done < cases.size()) {
        if (livelocks >= 3) { printf("SKIPPED after_3_step_bound_exits\n"); *done += 1; continue; }
        if (hangs >= 3) { printf("SKIPPED after_3_hangs\n"); *done += 1; continue; }
        int fd[2]; if (pipe(fd) != 0) { perror("pipe"); return 2; }
        fflush(stdout);
        pid_t pid = fork();
        if (pid < 0) { perror("fork"); return 2; }
        if (pid == 0) {
            close(fd[0]); dup2(fd[1], 1); close(fd[1]);
            for (size_t i = *done; i < cases.size(); ++i) {
                run_case(cases[i]); fflush(stdout);
                *done = i + 1;
            }
            fflush(stdout); _exit(0);
        }
        close(fd[1]);
        // read the child's output; a DEADLOCK block (several lines, ends with the child's exit) becomes one line
        // Watchdog: if the child neither prints nor finishes a case for hang_secs seconds it hangs (e.g. a component
        // blocked outside the scheduler): kill it, report the current case as HANG and go on with the next one.
        std::string buf; char tmp[65536]; ssize_t r;
        bool hung = false; size_t seen_done = *done; time_t last = time(nullptr);
        for (;;) {
            struct pollfd pf; pf.fd = fd[0]; pf.events = POLLIN; pf.revents = 0;
            int pr = poll(&pf, 1, 1000);
            if (pr > 0) {
                r = read(fd[0], tmp, sizeof tmp);
                if (r > 0) { buf.append(tmp, static_cast<size_t>(r)); last = time(nullptr); continue; }
                if (r == 0) break;
            }
            if (*done != seen_done) { seen_done = *done; last = time(nullptr); }
            if (time(nullptr) - last >= hang_secs) { hung = true; kill(pid, SIGKILL); break; }
        }
        close(fd[0]);
        int st = 0; waitpid(pid, &st, 0);
        if (hung) {
            size_t nl = buf.rfind('\n');
            if (nl != std::string::npos) fputs(buf.substr(0, nl + 1).c_str(), stdout);
            printf("HANG case_index=%zu no_progress_for=%lds\n", *done, hang_secs);
            *done += 1; ++hangs; fflush(stdout);
            continue;
        }
        size_t dl = buf.find("DEADLOCK ");
        while (dl != std::string::npos && dl != 0 && buf[dl - 1] != '\n') dl = buf.find("DEADLOCK ", dl + 1);
        std::string normal = dl == std::string::npos ? buf : buf.substr(0, dl);
        fputs(normal.c_str(), stdout);
        bool exited3 = WIFEXITED(st) && WEXITSTATUS(st) == 3;
        if (dl != std::string::npos && exited3) {
            std::string why, trace, choices, state;
            std::istringstream is(buf.substr(dl)); std::string l;
            while (std::getline(is, l)) {
                if (l.rfind("DEADLOCK ", 0) == 0) { size_t w = l.find("why="); why = w == std::string::npos ? "?" : l.substr(w + 4); }
                else if (l.rfind("TRACE ", 0) == 0) trace = l.substr(6);
                else if (l.rfind("CHOICES ", 0) == 0) choices = l.substr(8);
                else if (l.rfind("STATE ", 0) == 0) state = l.substr(6);
            }
            for (auto& ch : why) if (ch == ' ') ch = '_';
            // a case that announces its own step bound (maxsteps=) expects to run into it (spin barrier left by a participant)
            if (why.rfind("step_bound", 0) == 0 && cases[*done].find(" maxsteps=") == std::string::npos) ++livelocks;
            printf("DEADLOCK why=%s STATE %s CHOICES %s TRACE %s\n", why.c_str(), state.c_str(), choices.c_str(), trace.c_str());
            *done += 1;   // the deadlocked case is finished
        } else if (!(WIFEXITED(st) && WEXITSTATUS(st) == 0)) {
            // crash (sanitizer report, signal): report and stop; the check bisects to this case
            std::string tail = buf.size() > 3000 ? buf.substr(buf.size() - 3000) : buf;
            for (auto& ch : tail) if (ch == '\n') ch = '~';
            printf("CRASH status=%d case_index=%zu OUTPUT %s\n", st, *done, tail.c_str());
            fflush(stdout);
            return 4;
        }
        fflush(stdout);
    }
    return 0;
}
