// C11 real-thread stage: tlx::Semaphore, ThreadBarrierMutex, ThreadBarrierSpin on REAL std::threads (no scheduler shim),
// built with -fsanitize=thread -DNDEBUG.  The Coq transition systems are sequentially consistent; what they cannot say
// -- that a crossing of the barrier / a token handed over ORDERS MEMORY (the action's writes and every participant's
// pre-barrier writes happen-before whatever a released thread does next; a signaller's writes happen-before the woken
// waiter's reads) -- is checked here: all payload data is PLAIN (non-atomic), so a missing acquire/release edge is a data
// race ThreadSanitizer reports, and a stale value is printed as a BAD line.
//
//   usage: tsan_stress <rounds> <seed> [<only_scenario> <only_round>]
//   output: "ROUND <scenario> <round> <threads> <generations>" before every round, "R <scenario> <round>" after it,
//           "BAD <scenario> <round> <threads> <what>" for a wrong value.  TSan reports go to stderr.
// Scenarios: 0 mutex barrier wait(lambda)+wait()   1 mutex barrier wait_yield(lambda)+wait_yield()   2 spin wait(lambda)+wait()
//            3 spin wait_yield(lambda)+wait_yield()  4 mutex barrier, callers mixed   5 spin barrier, callers mixed
//            6 semaphore ping-pong signal()/wait()   7 signal(n) to several waiters wait()/wait(d,s)   8 try_acquire polling
#include <atomic>
#include <cstdint>
#include <cstdio>
#include <cstdlib>
#include <thread>
#include <vector>

#include <tlx/semaphore.hpp>
#include <tlx/thread_barrier_mutex.hpp>
#include <tlx/thread_barrier_spin.hpp>

static uint64_t mix(uint64_t z) {
    z += 0x9E3779B97F4A7C15ull; z = (z ^ (z >> 30)) * 0xBF58476D1CE4E5B9ull; z = (z ^ (z >> 27)) * 0x94D049BB133111EBull; return z ^ (z >> 31);
}
struct Rng { uint64_t s; uint64_t next() { s = mix(s); return s; } uint64_t below(uint64_t n) { return next() % n; } };

static std::atomic<int> g_bad{0};
static void bad(int scen, long round, int threads, const char* what, long got, long want) {
    if (g_bad.fetch_add(1) < 10) { printf("BAD %d %ld %d %s got=%ld want=%ld\n", scen, round, threads, what, got, want); fflush(stdout); }
}

// ---------------------------------------------------------------------------------------------------- barriers
// mode: 0 all wait, 1 all wait_yield, 2 mixed (thread t in generation g yields iff (t + g) odd)
template <typename Barrier>
static void barrier_round(int scen, long round, int n, int gens, int mode) {
    Barrier bar(static_cast<size_t>(n));
    std::vector<long> slot(static_cast<size_t>(n), 0);   // plain: written by its owner before the barrier
    long sum = 0;                                         // plain: written by the action only
    long acts = 0;                                        // plain: incremented by the action only
    std::vector<std::thread> th;
    for (int t = 0; t < n; ++t)
        th.emplace_back([&, t]() {
            for (int g = 1; g <= gens; ++g) {
                bool yl = mode == 1 || (mode == 2 && ((t + g) & 1));
                slot[static_cast<size_t>(t)] = 1000L * g + t;                 // pre-barrier write
                auto action = [&]() {                                          // runs in the last arriver
                    long s = 0; for (int i = 0; i < n; ++i) s += slot[static_cast<size_t>(i)];
                    sum = s; ++acts;
                };
                if (yl) bar.wait_yield(action); else bar.wait(action);
                // released: the action's writes and the neighbours' pre-barrier writes must be visible
                long want = 0; for (int i = 0; i < n; ++i) want += 1000L * g + i;
                if (sum != want) bad(scen, round, n, "action_result_after_release", sum, want);
                if (acts != g) bad(scen, round, n, "action_count_after_release", acts, g);
                long nb = slot[static_cast<size_t>((t + 1) % n)];
                if (nb != 1000L * g + (t + 1) % n) bad(scen, round, n, "neighbour_prebarrier_write", nb, 1000L * g + (t + 1) % n);
                // second crossing WITHOUT lambda (default NoOperation): nobody overwrites slot / sum before all have read
                if (yl) bar.wait_yield(); else bar.wait();
            }
        });
    for (auto& x : th) x.join();
    if (acts != gens) bad(scen, round, n, "action_count_final", acts, gens);
}

// ---------------------------------------------------------------------------------------------------- semaphore
// 6: ping-pong through two semaphores, payload in a plain buffer
static void sem_pingpong(int scen, long round, int items) {
    tlx::Semaphore full(0), empty(1);
    long buf[4] = {0, 0, 0, 0};
    std::thread prod([&]() {
        for (int i = 1; i <= items; ++i) {
            empty.wait();
            for (int k = 0; k < 4; ++k) buf[k] = 10L * i + k;                // written by the signaller ...
            full.signal();
        }
    });
    std::thread cons([&]() {
        for (int i = 1; i <= items; ++i) {
            full.wait();
            for (int k = 0; k < 4; ++k)                                       // ... read by the woken waiter
                if (buf[k] != 10L * i + k) bad(scen, round, 2, "payload_after_wait", buf[k], 10L * i + k);
            empty.signal();
        }
    });
    prod.join(); cons.join();
}

// 7: one signal(n) releases several waiters (wait() and wait(delta, slack) callers); answers come back through signal()
static void sem_broadcast(int scen, long round, int n, int gens, Rng& rng) {
    // two alternating "go" semaphores: a fast waiter cannot take a token of the generation it has already served
    tlx::Semaphore go0(0), go1(0), back(0);
    tlx::Semaphore* go[2] = {&go0, &go1};
    int waiters = n - 1;
    std::vector<long> data(8, 0);
    std::vector<long> answer(static_cast<size_t>(waiters), 0);
    int slack_caller = static_cast<int>(rng.below(static_cast<uint64_t>(waiters)));
    std::vector<std::thread> th;
    for (int w = 0; w < waiters; ++w)
        th.emplace_back([&, w]() {
            for (int g = 1; g <= gens; ++g) {
                if (w == slack_caller) go[g & 1]->wait(1, 0); else go[g & 1]->wait();
                long s = 0; for (size_t k = 0; k < data.size(); ++k) s += data[k];
                long want = 0; for (size_t k = 0; k < data.size(); ++k) want += 100L * g + static_cast<long>(k);
                if (s != want) bad(scen, round, n, "broadcast_payload", s, want);
                answer[static_cast<size_t>(w)] = s + w;
                back.signal();
            }
        });
    for (int g = 1; g <= gens; ++g) {
        for (size_t k = 0; k < data.size(); ++k) data[k] = 100L * g + static_cast<long>(k);
        go[g & 1]->signal(static_cast<size_t>(waiters));                              // covers all waiters at once
        back.wait(static_cast<size_t>(waiters), 0);                           // all answers in (delta = number of waiters)
        for (int w = 0; w < waiters; ++w) {
            long want = 0; for (size_t k = 0; k < data.size(); ++k) want += 100L * g + static_cast<long>(k);
            if (answer[static_cast<size_t>(w)] != want + w) bad(scen, round, n, "answer_after_wait_n", answer[static_cast<size_t>(w)], want + w);
        }
    }
    for (auto& x : th) x.join();
}

// 8: consumer polls try_acquire
static void sem_try(int scen, long round, int items) {
    tlx::Semaphore full(0), empty(1);
    long payload = 0;
    std::thread prod([&]() {
        for (int i = 1; i <= items; ++i) {
            while (!empty.try_acquire()) std::this_thread::yield();
            payload = 7L * i;
            full.signal(1);
        }
    });
    std::thread cons([&]() {
        for (int i = 1; i <= items; ++i) {
            while (!full.try_acquire(1, 0)) std::this_thread::yield();
            if (payload != 7L * i) bad(scen, round, 2, "payload_after_try_acquire", payload, 7L * i);
            empty.signal();
        }
    });
    prod.join(); cons.join();
}

int main(int argc, char** argv) {
    if (argc < 3) { fprintf(stderr, "usage: %s rounds seed [scenario round]\n", argv[0]); return 2; }
    long rounds = atol(argv[1]); uint64_t seed = strtoull(argv[2], nullptr, 10);
    int only_scen = argc >= 5 ? atoi(argv[3]) : -1; long only_round = argc >= 5 ? atol(argv[4]) : -1;
    for (long r = 0; r < rounds; ++r) {
        if (only_round >= 0 && r != only_round) continue;
        Rng rng{mix(seed * 1000003ull + static_cast<uint64_t>(r))};
        int scen = only_scen >= 0 ? only_scen : static_cast<int>(r % 9);      // every scenario in every 9 rounds
        int n = 2 + static_cast<int>(rng.below(3));                             // 2..4 threads
        int gens = 3 + static_cast<int>(rng.below(6));                          // 3..8 generations (two crossings each)
        printf("ROUND %d %ld %d %d\n", scen, r, n, gens); fflush(stdout);
        switch (scen) {
        case 0: barrier_round<tlx::ThreadBarrierMutex>(scen, r, n, gens, 0); break;
        case 1: barrier_round<tlx::ThreadBarrierMutex>(scen, r, n, gens, 1); break;
        case 2: barrier_round<tlx::ThreadBarrierSpin>(scen, r, n, gens, 0); break;
        case 3: barrier_round<tlx::ThreadBarrierSpin>(scen, r, n, gens, 1); break;
        case 4: barrier_round<tlx::ThreadBarrierMutex>(scen, r, n, gens, 2); break;
        case 5: barrier_round<tlx::ThreadBarrierSpin>(scen, r, n, gens, 2); break;
        case 6: sem_pingpong(scen, r, 4 * gens); break;
        case 7: sem_broadcast(scen, r, n, gens, rng); break;
        default: sem_try(scen, r, 4 * gens); break;
        }
        printf("R %d %ld\n", scen, r); fflush(stdout);
    }
    return g_bad.load() ? 1 : 0;
}
