// C17 correspondence harness: replays op histories on the real tlx::LruCacheSet / LruCacheMap / SplayTree
// (compiled from /repo on every run, ASan+UBSan, counting allocator, ledger key type) and prints one
// canonical line per case.  Independently of the Coq model it checks every answer against a plain reference
// (a std::list LRU; std::set / std::multiset) and appends PROPFAIL@<op index> when the implementation's own
// observable behaviour violates the property.
//
// every output line starts with "R " (sanitizer reports share the stream).
// case line:   lruset|lrumap|splayset|splaymulti[:variant]  tok tok ...   (variants: see below)
//              exh|exhv <kind> <nkeys> <len>      (bounded-exhaustive: all histories of that length)
// LRU tokens:  @OP,j,.. = OP with the key argument aliasing the stored value of j (map only); P,k[,v] PG,k,j (put(k, get(j)), map only) T,k TI,k G,k GT,k E,k EI,k X,k S O C MV (move out and back)
// splay tokens: @OP,j = OP with the key argument aliasing the key of the node find(j) returns; I,k E,k EN,k (find + erase(const Node*)) H,k (find, keep the node pointer) EH (erase(const Node*) of the kept node) X,k F,k C T
#include <tlx/container/lru_cache.hpp>
#include <tlx/container/splay_tree.hpp>
#include "ledger.hpp"

#include <algorithm>
#include <cstdint>
#include <cstdio>
#include <cstdlib>
#include <fstream>
#include <iostream>
#include <list>
#include <set>
#include <sstream>
#include <string>
#include <type_traits>
#include <vector>

using verif::AllocLedger;
using verif::CountingAlloc;
using verif::Ledger;
using verif::Tracked;

struct Op { std::string name; int k = 0, v = 0; };

static Op parse_tok(const std::string& t) {
    Op o; size_t p = t.find(',');
    o.name = t.substr(0, p);
    if (p != std::string::npos) {
        size_t q = t.find(',', p + 1);
        o.k = atoi(t.substr(p + 1, q == std::string::npos ? std::string::npos : q - p - 1).c_str());
        if (q != std::string::npos) o.v = atoi(t.substr(q + 1).c_str());
    }
    return o;
}

// output sink: either text or a rolling hash over the same integers
struct Sink {
    bool text = true; std::string s; uint64_t h = 0;
    void num(long x) { h = (h * 1000003ULL + (uint64_t)(x + 7)) & ((1ULL << 62) - 1); }
    void res(char c, long a = -1, long b = -1) {
        if (text) { s += c; if (a >= 0) s += std::to_string(a); if (b >= 0) { s += ':'; s += std::to_string(b); } }
        num(c); num(a); num(b);
    }
    void sep(char c) { if (text) s += c; num(c); }
    void key(long k, bool first) { if (text) { if (!first) s += '.'; s += std::to_string(k); } num(k); }
    void kv(long k, long v, bool first) { if (text) { if (!first) s += ','; s += std::to_string(k) + ":" + std::to_string(v); } num(k); num(v); }
    void word(const char* w) { if (text) s += w; for (const char* p = w; *p; ++p) num(*p); }
};

// ------------------------------------------------------------------------------------------ variants
// Every case line names a variant after a colon (kind:variant), chosen per case from the seed by the check.
// All variants are compared through the same reference and the same extracted model.
//
// stateful allocator: counts into the statistics object it was constructed with; a default-constructed copy
// (what a container uses when it drops the allocator argument it was given) counts into g_orphan.
struct TagStats { long allocs = 0, frees = 0; };
static TagStats g_orphan;
template <typename T>
struct TagAlloc {
    using value_type = T;
    TagStats* st;
    TagAlloc() noexcept : st(nullptr) {}
    explicit TagAlloc(TagStats* s) noexcept : st(s) {}
    template <typename U> TagAlloc(const TagAlloc<U>& o) noexcept : st(o.st) {}
    T* allocate(size_t n) { ++(st ? st : &g_orphan)->allocs; return std::allocator<T>().allocate(n); }
    void deallocate(T* p, size_t n) { ++(st ? st : &g_orphan)->frees; std::allocator<T>().deallocate(p, n); }
    template <typename U> bool operator==(const TagAlloc<U>& o) const { return st == o.st; }
    template <typename U> bool operator!=(const TagAlloc<U>& o) const { return st != o.st; }
};

// run-time direction comparator: default-constructed = ascending; the G variant passes DirCmp{true} through the
// SplayTree(Compare, Allocator) constructor and mirrors the keys, so a dropped comparator changes the answers
struct DirCmp {
    bool rev = false;
    DirCmp() {}
    explicit DirCmp(bool r) : rev(r) {}
    template <typename A, typename B> bool operator()(const A& a, const B& b) const { return rev ? (b < a) : (a < b); }
};

static const std::string SKEY_PREFIX = "a-heap-owning-key-longer-than-the-sso-buffer-";
static std::string skey(int k) { return SKEY_PREFIX + std::to_string(k); }
static int unskey(const std::string& s) { return atoi(s.c_str() + SKEY_PREFIX.size()); }

// per-case ledger over all the allocation / lifetime books
struct Books {
    AllocLedger& AL = AllocLedger::get(); Ledger& TL = Ledger::get();
    long a0 = AL.allocs, f0 = AL.frees, e0 = AL.errors, te0 = TL.errors, oa0 = g_orphan.allocs, of0 = g_orphan.frees;
    size_t live0 = TL.live.size();
    TagStats tag; bool expect_tag = false, used = false;
    bool ok() const {
        return AL.errors == e0 && (AL.allocs - a0) == (AL.frees - f0) && TL.errors == te0 && TL.live.size() == live0 &&
               g_orphan.allocs == oa0 && g_orphan.frees == of0 && tag.allocs == tag.frees &&
               (!expect_tag || !used || tag.allocs > 0);
    }
};

// ------------------------------------------------------------------------------------------ LRU
struct RefLru {   // reference LRU list: front = most recently put or touched
    std::list<std::pair<int, int> > l;
    std::list<std::pair<int, int> >::iterator find(int k) { return std::find_if(l.begin(), l.end(), [k](const std::pair<int, int>& e) { return e.first == k; }); }
};

// base: int -> int, counting allocator, default constructor
struct MapBase {
    static const bool is_map = true;
    tlx::LruCacheMap<int, int, CountingAlloc<std::pair<int, int> > > c;
    explicit MapBase(Books&) {}
    typedef int KeyT;
    static int K(int k) { return k; }
    static int UK(const int& k) { return k; }
    const int& alias(int j) { return c.get(j); }               // a reference into the cache: the stored value of key j
    void put(const int& k, int v) { c.put(k, v); }
    void put_alias(const int& k, int j) { c.put(k, c.get(j)); }   // the value argument is a reference into the cache
    int get(const int& k) { return c.get(k); }
    int get_touch(const int& k) { return c.get_touch(k); }
    std::pair<int, int> pop() { return c.pop(); }
};
// S: std::string -> std::string (heap-owning key and value), every template argument and the constructor argument defaulted
struct MapS {
    static const bool is_map = true;
    tlx::LruCacheMap<std::string, std::string> c;
    explicit MapS(Books&) {}
    typedef std::string KeyT;
    static std::string K(int k) { return skey(k); }
    static int UK(const std::string& k) { return unskey(k); }
    const std::string& alias(int j) { return c.get(skey(j)); }
    void put(const std::string& k, int v) { c.put(k, skey(v)); }
    void put_alias(const std::string& k, int j) { c.put(k, c.get(skey(j))); }
    int get(const std::string& k) { return unskey(c.get(k)); }
    int get_touch(const std::string& k) { return unskey(c.get_touch(k)); }
    std::pair<int, int> pop() { auto p = c.pop(); return std::make_pair(unskey(p.first), unskey(p.second)); }
};
// T: int -> Tracked (ledger value type), explicit stateful allocator passed to the constructor
struct MapT {
    static const bool is_map = true;
    typedef tlx::LruCacheMap<int, Tracked, TagAlloc<std::pair<int, Tracked> > > C;
    C c;
    explicit MapT(Books& b) : c(TagAlloc<std::pair<int, Tracked> >(&b.tag)) { b.expect_tag = true; }
    typedef int KeyT;
    static int K(int k) { return k; }
    static int UK(const int& k) { return k; }
    const int& alias(int j) { return c.get(j).v; }             // the int member of the Tracked value stored in the list node
    void put(const int& k, int v) { c.put(k, Tracked(v)); }
    void put_alias(const int& k, int j) { c.put(k, c.get(j)); }
    int get(const int& k) { return c.get(k).get(); }
    int get_touch(const int& k) { return c.get_touch(k).get(); }
    std::pair<int, int> pop() { C::KeyValuePair p = c.pop(); return std::make_pair(p.first, p.second.get()); }
};
struct SetBase {
    static const bool is_map = false;
    tlx::LruCacheSet<int, CountingAlloc<int> > c;
    explicit SetBase(Books&) {}
    typedef int KeyT;
    static int K(int k) { return k; }
    static int UK(const int& k) { return k; }
    const int& alias(int) { throw std::logic_error("LruCacheSet hands out no reference into its storage"); }
    void put(const int& k, int) { c.put(k); }
    void put_alias(const int&, int) {}
    int get(const int&) { return 0; }
    int get_touch(const int&) { return 0; }
    std::pair<int, int> pop() { return std::make_pair(c.pop(), 0); }
};
struct SetS {   // std::string keys, default allocator, default constructor argument
    static const bool is_map = false;
    tlx::LruCacheSet<std::string> c;
    explicit SetS(Books&) {}
    typedef std::string KeyT;
    static std::string K(int k) { return skey(k); }
    static int UK(const std::string& k) { return unskey(k); }
    const std::string& alias(int) { throw std::logic_error("LruCacheSet hands out no reference into its storage"); }
    void put(const std::string& k, int) { c.put(k); }
    void put_alias(const std::string&, int) {}
    int get(const std::string&) { return 0; }
    int get_touch(const std::string&) { return 0; }
    std::pair<int, int> pop() { return std::make_pair(unskey(c.pop()), 0); }
};
struct SetA {   // explicit stateful allocator passed to the constructor
    static const bool is_map = false;
    tlx::LruCacheSet<int, TagAlloc<int> > c;
    explicit SetA(Books& b) : c(TagAlloc<int>(&b.tag)) { b.expect_tag = true; }
    typedef int KeyT;
    static int K(int k) { return k; }
    static int UK(const int& k) { return k; }
    const int& alias(int) { throw std::logic_error("LruCacheSet hands out no reference into its storage"); }
    void put(const int& k, int) { c.put(k); }
    void put_alias(const int&, int) {}
    int get(const int&) { return 0; }
    int get_touch(const int&) { return 0; }
    std::pair<int, int> pop() { return std::make_pair(c.pop(), 0); }
};

// returns false when the history is invalid (pop on empty reference)
template <typename Impl>
static bool run_lru(const std::vector<Op>& ops, Sink& out, int& propfail) {
    const bool IsMap = Impl::is_map;
    Books B;
    propfail = -1;
    bool valid = true;
    {
        Impl I(B); RefLru R;
        const auto& CI = I.c;     // exists() and size() are const members: call them through a const reference
        int idx = 0;
        for (const Op& o : ops) {
            if (idx) out.sep(' ');
            auto fail = [&]() { if (propfail < 0) propfail = idx; };
            // "@OP,j,...": the key argument of OP is a reference INTO the cache -- the stored value of key j as
            // returned by get(j) (needs Key and Value of one type; for MapT the int inside the stored Tracked).
            // The operation is the same as OP with that value as key (value taken at call time); what is tested
            // is that the member does not read its argument after it has destroyed the entry the argument lives in.
            const bool aliased = !o.name.empty() && o.name[0] == '@';
            const std::string n = aliased ? o.name.substr(1) : o.name;
            typename Impl::KeyT tmpkey = Impl::K(o.k);
            const typename Impl::KeyT* kp = &tmpkey;
            int k = o.k;
            bool skip = false;
            if (aliased) {
                auto jt = R.find(o.k);
                try { kp = &I.alias(o.k); k = Impl::UK(*kp); if (jt == R.l.end() || jt->second != k) fail(); }
                catch (const std::range_error&) { out.res('~'); skip = true; if (jt != R.l.end()) fail(); }
            }
            auto it = R.find(k);
            bool present = it != R.l.end();
            if (skip) {
            } else if (n == "P") {
                int v = IsMap ? o.v : 0;
                I.put(*kp, v); out.res('u'); B.used = true;
                if (present) R.l.erase(it);
                R.l.push_front(std::make_pair(k, v));
            } else if (n == "PG") {
                // put(k, get(j)): the value is passed as a reference to the stored value of key j (o.v = j)
                auto jt = R.find(o.v);
                bool threw = false;
                try { I.put_alias(*kp, o.v); } catch (const std::range_error&) { threw = true; }
                out.res(threw ? '!' : 'u');
                if (threw != (jt == R.l.end())) fail();
                if (jt != R.l.end()) {
                    int v = jt->second;
                    if (present) R.l.erase(it);
                    R.l.push_front(std::make_pair(k, v));
                }
            } else if (n == "T" || n == "E" || n == "G" || n == "GT") {
                bool threw = false; int val = 0;
                try {
                    if (n == "T") I.c.touch(*kp);
                    else if (n == "E") I.c.erase(*kp);
                    else if (n == "G") val = I.get(*kp);
                    else val = I.get_touch(*kp);
                } catch (const std::range_error&) { threw = true; }
                if (threw) out.res('!'); else if (n == "G" || n == "GT") out.res('v', val); else out.res('u');
                if (threw != !present) fail();
                if (present) {
                    if ((n == "G" || n == "GT") && !threw && val != it->second) fail();
                    if (n == "T" || n == "GT") R.l.splice(R.l.begin(), R.l, it);
                    else if (n == "E") R.l.erase(it);
                }
            } else if (n == "TI" || n == "EI") {
                bool b = n == "TI" ? I.c.touch_if_exists(*kp) : I.c.erase_if_exists(*kp);
                out.res('b', b);
                if (b != present) fail();
                if (present) { if (n == "TI") R.l.splice(R.l.begin(), R.l, it); else R.l.erase(it); }
            } else if (n == "X") {
                bool b = CI.exists(*kp); out.res('b', b); if (b != present) fail();
            } else if (n == "S") {
                size_t s = CI.size(); out.res('s', (long)s); if (s != R.l.size()) fail();
            } else if (n == "O") {
                if (R.l.empty()) { valid = false; out.res('?'); break; }
                std::pair<int, int> p = I.pop(); out.res('p', p.first, p.second);
                if (p != R.l.back()) fail();
                R.l.pop_back();
            } else if (n == "C") {
                I.c.clear(); out.res('u'); R.l.clear();
            } else if (n == "MV") {
                // the implicitly generated move constructor and move assignment: the content travels into a
                // temporary object and back; the stored list iterators must stay valid (no-op for the reference)
                auto tmp(std::move(I.c)); I.c = std::move(tmp); out.res('u');
            } else { out.res('?'); }
            if (CI.size() != R.l.size()) fail();
            if (propfail >= 0) break;   // implementation and reference have diverged: stop this history
            ++idx;
        }
        // observe the whole recency order: drain by pop
        out.sep('|');
        bool first = true;
        size_t guard = ops.size() + 4;   // a correct cache holds at most one entry per put
        while (valid && propfail < 0 && I.c.size() > 0) {
            if (guard-- == 0) { if (propfail < 0) propfail = idx; break; }
            std::pair<int, int> p = I.pop(); out.kv(p.first, p.second, first); first = false;
            if (R.l.empty() || p != R.l.back()) { if (propfail < 0) propfail = idx; if (!R.l.empty()) R.l.pop_back(); }
            else R.l.pop_back();
        }
        if (valid && !R.l.empty() && propfail < 0) propfail = idx;
    }
    bool ledger_ok = B.ok();
    out.sep('|'); out.word(ledger_ok ? "ok" : "bad");
    if (!ledger_ok && propfail < 0) propfail = (int)ops.size();
    return valid;
}

// ------------------------------------------------------------------------------------------ SplayTree
// base: Tracked keys, std::less, counting allocator, default constructor
template <bool Dup> struct TreeBase {
    typedef tlx::SplayTree<Tracked, std::less<Tracked>, Dup, CountingAlloc<Tracked> > T;
    T t;
    explicit TreeBase(Books&) {}
    static Tracked K(int k) { return Tracked(k); }
    static int U(const Tracked& k) { return k.get(); }
};
// G: the splay_set / splay_multiset aliases, run-time comparator and stateful allocator through the
// SplayTree(Compare, Allocator) constructor; descending order over mirrored keys == ascending order over the keys
template <bool Dup> struct TreeG {
    typedef typename std::conditional<Dup, tlx::splay_multiset<int, DirCmp, TagAlloc<int> >, tlx::splay_set<int, DirCmp, TagAlloc<int> > >::type T;
    T t;
    explicit TreeG(Books& b) : t(DirCmp(true), TagAlloc<int>(&b.tag)) { b.expect_tag = true; }
    static int K(int k) { return 1000 - k; }
    static int U(int k) { return 1000 - k; }
};
// D: every template argument defaulted (std::less<int>, std::allocator<int>), SplayTree(Allocator) with the default argument
template <bool Dup> struct TreeD {
    typedef typename std::conditional<Dup, tlx::splay_multiset<int>, tlx::splay_set<int> >::type T;
    T t;
    explicit TreeD(Books&) {}
    static int K(int k) { return k; }
    static int U(int k) { return k; }
};
// A: stateful allocator through the one-argument constructor SplayTree(Allocator)
template <bool Dup> struct TreeA {
    typedef tlx::SplayTree<int, std::less<int>, Dup, TagAlloc<int> > T;
    T t;
    explicit TreeA(Books& b) : t(TagAlloc<int>(&b.tag)) { b.expect_tag = true; }
    static int K(int k) { return k; }
    static int U(int k) { return k; }
};
// F: the free functions splay / splay_insert / splay_erase / splay_traverse_* / splay_check used directly on a
// user-defined node type, with a lookup key type (long) different from the node's key type (int) and a
// heterogeneous comparator; the member functions repeat the text of class SplayTree
template <bool Dup> struct FreeTree {
    struct Node { Node *left = nullptr, *right = nullptr; int key; explicit Node(int k) : key(k) {} };
    Node* root_ = nullptr; size_t size_ = 0; DirCmp cmp_;
    ~FreeTree() { clear(); }
    template <typename KT> bool insert(const KT& k) {
        if (root_ != nullptr) {
            root_ = tlx::splay(k, root_, cmp_);
            if (!Dup && !cmp_(k, root_->key) && !cmp_(root_->key, k)) return false;
        }
        Node* nn = new Node((int)k);
        root_ = tlx::splay_insert(nn, root_, cmp_);
        size_++;
        return true;
    }
    template <typename KT> bool erase_key(const KT& k) {
        Node* out = tlx::splay_erase(k, root_, cmp_);
        if (!out) return false;
        delete out; size_--;
        return true;
    }
    bool erase(const long& k) { return erase_key(k); }
    bool erase(const int& k) { return erase_key(k); }
    bool erase(const Node* n) { return erase_key(n->key); }
    void clear() { tlx::splay_traverse_postorder([this](Node* n) { delete n; size_--; }, root_); root_ = nullptr; }
    template <typename KT> bool exists(const KT& k) {
        if (root_ == nullptr) return false;
        root_ = tlx::splay(k, root_, cmp_);
        return !cmp_(root_->key, k) && !cmp_(k, root_->key);
    }
    template <typename KT> Node* find(const KT& k) { return (root_ = tlx::splay(k, root_, cmp_)); }
    size_t size() const { return size_; }
    bool empty() const { return size_ == 0; }
    bool check() const {
        const Node *tmin = nullptr, *tmax = nullptr;
        return tlx::splay_check(static_cast<const Node*>(root_), cmp_) &&
               tlx::splay_check(static_cast<const Node*>(root_), tmin, tmax, cmp_);
    }
    template <typename Functor> void traverse_preorder(const Functor& f) const {
        tlx::splay_traverse_preorder([&f](const Node* n) { f(n->key); }, static_cast<const Node*>(root_));
    }
};
template <bool Dup> struct TreeF {
    typedef FreeTree<Dup> T;
    T t;
    explicit TreeF(Books&) {}
    static long K(int k) { return k; }
    static int U(int k) { return k; }
};

template <bool Dup, typename V>
static void run_splay(const std::vector<Op>& ops, Sink& out, int& propfail) {
    Books B;
    propfail = -1;
    {
        V holder(B);
        typename V::T& T = holder.t;
        const typename V::T& CT = T;    // size(), empty(), check(), traverse_preorder() are const members
        std::multiset<int> R;
        // H,k keeps the node pointer find(k) returned (when its key is k); EH calls erase(const Node*) with it later,
        // when the node is in general no longer the root.  The pointer is dropped as soon as the node may have been
        // freed: a successful erase of that key (with duplicates any of them may be the one removed) or clear().
        decltype(T.find(V::K(0))) held = nullptr; int heldkey = -1;
        int idx = 0;
        for (const Op& o : ops) {
            if (idx) out.sep(' ');
            auto fail = [&]() { if (propfail < 0) propfail = idx; };
            auto erased = [&](int k) { if (held != nullptr && k == heldkey) held = nullptr; };
            // "@OP,j": the key argument of OP is a reference into a tree node -- the key of the node returned by
            // find(j) (which may be a neighbour of j).  Same operation as OP with that key value.
            const bool aliased = !o.name.empty() && o.name[0] == '@';
            const std::string n = aliased ? o.name.substr(1) : o.name;
            auto body = [&](const auto& key, const int k) {
                size_t cnt = R.count(k);
                if (n == "I") {
                    bool b = T.insert(key); out.res('b', b); B.used = true;
                    bool exp = Dup || cnt == 0;
                    if (b != exp) fail();
                    if (exp) R.insert(k);
                } else if (n == "E") {
                    bool b = T.erase(key); out.res('b', b);
                    if (b != (cnt > 0)) fail();
                    if (cnt > 0) { R.erase(R.find(k)); erased(k); }
                } else if (n == "EN") {
                    // erase(const Node*): look the node up with find(), erase through the node pointer (the key
                    // reference then aliases the node being removed); nothing is erased when the key is absent
                    auto* nd = T.find(key);
                    bool b = false;
                    if (nd != nullptr && V::U(nd->key) == k) b = T.erase(nd);
                    out.res('b', b);
                    if (b != (cnt > 0)) fail();
                    if (cnt > 0) { R.erase(R.find(k)); erased(k); }
                } else if (n == "X") {
                    bool b = T.exists(key); out.res('b', b);
                    if (b != (cnt > 0)) fail();
                } else if (n == "EH") {
                    if (held == nullptr) out.res('~');
                    else {
                        int hk = heldkey; size_t c = R.count(hk);
                        bool b = T.erase(held); out.res('b', b);
                        if (!b || c == 0) fail();
                        if (c > 0) R.erase(R.find(hk));
                        held = nullptr;
                    }
                } else if (n == "F" || n == "H") {
                    auto* nd = T.find(key);
                    if (n == "H" && nd != nullptr && V::U(nd->key) == k) { held = nd; heldkey = k; }
                    if (nd == nullptr) { out.res('f'); out.sep('-'); if (!R.empty()) fail(); }
                    else {
                        int fk = V::U(nd->key); out.res('f', fk);
                        if (R.count(fk) == 0) fail();
                        if (cnt > 0 && fk != k) fail();
                        if (cnt == 0) {   // must be a neighbour: no stored key strictly between fk and k
                            int lo = std::min(fk, k), hi = std::max(fk, k);
                            auto it = R.upper_bound(lo);
                            if (fk == k || (it != R.end() && *it < hi)) fail();
                        }
                    }
                } else if (n == "C") {
                    T.clear(); out.res('u'); R.clear(); held = nullptr;
                } else if (n == "T") {
                    out.res('t');
                } else { out.res('?'); }
            };
            if (aliased) {
                auto* src = T.find(V::K(o.k));
                if (src == nullptr) { out.res('~'); if (!R.empty()) fail(); }
                else { int k = V::U(src->key); if (R.count(k) == 0) fail(); body(src->key, k); }
            } else {
                body(V::K(o.k), o.k);
            }
            // after every operation: size(), empty(), check() and the in-order traversal against the reference
            size_t s = CT.size();
            out.sep('/'); out.num((long)s); if (out.text) out.s += std::to_string(s);
            out.sep('/');
            std::vector<int> io;
            CT.traverse_preorder([&io](const decltype(V::K(0))& k) { io.push_back(V::U(k)); });
            bool first = true;
            for (int k : io) { out.key(k, first); first = false; }
            if (s != R.size() || CT.empty() != R.empty() || io.size() != R.size() || !std::equal(io.begin(), io.end(), R.begin())) fail();
            if (!CT.check()) fail();
            if (propfail >= 0) break;   // diverged: stop this history
            ++idx;
        }
    }
    bool ledger_ok = B.ok();
    out.sep('|'); out.word(ledger_ok ? "ok" : "bad");
    if (!ledger_ok && propfail < 0) propfail = (int)ops.size();
}

template <bool Dup>
static void run_splay_variant(const std::string& var, const std::vector<Op>& ops, Sink& out, int& pf) {
    if (var == "G") run_splay<Dup, TreeG<Dup> >(ops, out, pf);
    else if (var == "D") run_splay<Dup, TreeD<Dup> >(ops, out, pf);
    else if (var == "A") run_splay<Dup, TreeA<Dup> >(ops, out, pf);
    else if (var == "F") run_splay<Dup, TreeF<Dup> >(ops, out, pf);
    else run_splay<Dup, TreeBase<Dup> >(ops, out, pf);
}

static bool run_kind(const std::string& kindv, const std::vector<Op>& ops, Sink& out, int& pf) {
    size_t c = kindv.find(':');
    std::string kind = kindv.substr(0, c), var = c == std::string::npos ? "" : kindv.substr(c + 1);
    if (kind == "lrumap") return var == "S" ? run_lru<MapS>(ops, out, pf) : var == "T" ? run_lru<MapT>(ops, out, pf) : run_lru<MapBase>(ops, out, pf);
    if (kind == "lruset") return var == "S" ? run_lru<SetS>(ops, out, pf) : var == "A" ? run_lru<SetA>(ops, out, pf) : run_lru<SetBase>(ops, out, pf);
    if (kind == "splayset") { run_splay_variant<false>(var, ops, out, pf); return true; }
    if (kind == "splaymulti") { run_splay_variant<true>(var, ops, out, pf); return true; }
    out.word("?"); pf = -1; return true;
}

static std::vector<std::string> alphabet(const std::string& kindv, int nk) {
    std::string kind = kindv.substr(0, kindv.find(':'));
    std::vector<std::string> a;
    auto with_keys = [&](const char* n) { for (int k = 0; k < nk; ++k) a.push_back(std::string(n) + "," + std::to_string(k)); };
    if (kind == "lrumap") {
        for (int k = 0; k < nk; ++k) for (int v = 1; v <= 2; ++v) a.push_back("P," + std::to_string(k) + "," + std::to_string(v));
        for (const char* n : { "T", "TI", "G", "GT", "E", "EI", "X" }) with_keys(n);
        a.push_back("S"); a.push_back("O"); a.push_back("C");
    } else if (kind == "lruset") {
        for (const char* n : { "P", "T", "TI", "E", "EI", "X" }) with_keys(n);
        a.push_back("S"); a.push_back("O"); a.push_back("C");
    } else {
        for (const char* n : { "I", "E", "X", "F" }) with_keys(n);
        a.push_back("C"); a.push_back("T");
    }
    return a;
}

int main(int argc, char** argv) {
    if (argc < 2) return 2;
    std::ifstream in(argv[1]);
    std::string line;
    while (std::getline(in, line)) {
        std::istringstream ss(line);
        std::string kind; ss >> kind;
        if (kind == "exh" || kind == "exhv") {
            bool verbose = kind == "exhv";
            std::string k2; int nk, len; ss >> k2 >> nk >> len;
            std::vector<std::string> al = alphabet(k2, nk);
            std::vector<Op> alops; for (auto& t : al) alops.push_back(parse_tok(t));
            std::vector<int> ix(len, 0);
            uint64_t total = 0, H = 0; std::string firstfail = "-";
            for (;;) {
                std::vector<Op> ops; for (int i : ix) ops.push_back(alops[i]);
                Sink sk; sk.text = verbose; int pf;
                bool valid = run_kind(k2, ops, sk, pf);
                if (valid) {
                    ++total; H = (H * 1000003ULL + sk.h) & ((1ULL << 62) - 1);
                    if (verbose) { std::string c = k2; for (int i : ix) c += " " + al[i]; printf("R %s => %s%s\n", c.c_str(), sk.s.c_str(), pf >= 0 ? " PROPFAIL" : ""); fflush(stdout); }
                    if (pf >= 0 && firstfail == "-") { firstfail = k2; for (int i : ix) firstfail += "_" + al[i]; }
                }
                int p = len - 1;
                while (p >= 0 && ++ix[p] == (int)al.size()) { ix[p] = 0; --p; }
                if (p < 0) break;
            }
            printf("R exh count=%llu hash=%llu fail=%s\n", (unsigned long long)total, (unsigned long long)H, firstfail.c_str());
            fflush(stdout);
            continue;
        }
        std::vector<Op> ops; std::string tok;
        while (ss >> tok) ops.push_back(parse_tok(tok));
        Sink sk; int pf;
        bool valid = run_kind(kind, ops, sk, pf);
        printf("R %s%s%s\n", sk.s.c_str(), valid ? "" : " INVALID-HISTORY", pf >= 0 ? (" PROPFAIL@" + std::to_string(pf)).c_str() : "");
        fflush(stdout);
    }
    return 0;
}
