// C17 correspondence harness: replays op histories on the real tlx::LruCacheSet / LruCacheMap / SplayTree
// (compiled from /repo on every run, ASan+UBSan, counting allocator, ledger key type) and prints one
// canonical line per case.  Independently of the Coq model it checks every answer against a plain reference
// (a std::list LRU; std::set / std::multiset) and appends PROPFAIL@<op index> when the implementation's own
// observable behaviour violates the property.
//
// every output line starts with "R " (sanitizer reports share the stream).
// case line:   lruset|lrumap|splayset|splaymulti  tok tok ...
//              exh|exhv <kind> <nkeys> <len>      (bounded-exhaustive: all histories of that length)
// LRU tokens:  P,k[,v] T,k TI,k G,k GT,k E,k EI,k X,k S O C
// splay tokens: I,k E,k X,k F,k C T
#include <tlx/container/lru_cache.hpp>
#include <tlx/container/splay_tree.hpp>
#include "ledger.hpp"

#include <algorithm>
#include <cstdint>
#include <cstdio>
#include <cstdlib>
#include <fstream>
#include <iostream>
#include <list>
#include <set>
#include <sstream>
#include <string>
#include <vector>

using verif::AllocLedger;
using verif::CountingAlloc;
using verif::Ledger;
using verif::Tracked;

struct Op { std::string name; int k = 0, v = 0; };

static Op parse_tok(const std::string& t) {
    Op o; size_t p = t.find(',');
    o.name = t.substr(0, p);
    if (p != std::string::npos) {
        size_t q = t.find(',', p + 1);
        o.k = atoi(t.substr(p + 1, q == std::string::npos ? std::string::npos : q - p - 1).c_str());
        if (q != std::string::npos) o.v = atoi(t.substr(q + 1).c_str());
    }
    return o;
}

// output sink: either text or a rolling hash over the same integers
struct Sink {
    bool text = true; std::string s; uint64_t h = 0;
    void num(long x) { h = (h * 1000003ULL + (uint64_t)(x + 7)) & ((1ULL << 62) - 1); }
    void res(char c, long a = -1, long b = -1) {
        if (text) { s += c; if (a >= 0) s += std::to_string(a); if (b >= 0) { s += ':'; s += std::to_string(b); } }
        num(c); num(a); num(b);
    }
    void sep(char c) { if (text) s += c; num(c); }
    void key(long k, bool first) { if (text) { if (!first) s += '.'; s += std::to_string(k); } num(k); }
    void kv(long k, long v, bool first) { if (text) { if (!first) s += ','; s += std::to_string(k) + ":" + std::to_string(v); } num(k); num(v); }
    void word(const char* w) { if (text) s += w; for (const char* p = w; *p; ++p) num(*p); }
};

// ------------------------------------------------------------------------------------------ LRU
struct RefLru {   // reference LRU list: front = most recently put or touched
    std::list<std::pair<int, int> > l;
    std::list<std::pair<int, int> >::iterator find(int k) { return std::find_if(l.begin(), l.end(), [k](const std::pair<int, int>& e) { return e.first == k; }); }
};

template <bool IsMap> struct LruImpl;
template <> struct LruImpl<true> {
    tlx::LruCacheMap<int, int, CountingAlloc<std::pair<int, int> > > c;
    void put(int k, int v) { c.put(k, v); }
    int get(int k) { return c.get(k); }
    int get_touch(int k) { return c.get_touch(k); }
    std::pair<int, int> pop() { return c.pop(); }
};
template <> struct LruImpl<false> {
    tlx::LruCacheSet<int, CountingAlloc<int> > c;
    void put(int k, int) { c.put(k); }
    int get(int) { return 0; }
    int get_touch(int) { return 0; }
    std::pair<int, int> pop() { return std::make_pair(c.pop(), 0); }
};

// returns false when the history is invalid (pop on empty reference)
template <bool IsMap>
static bool run_lru(const std::vector<Op>& ops, Sink& out, int& propfail) {
    AllocLedger& AL = AllocLedger::get();
    long a0 = AL.allocs, f0 = AL.frees, e0 = AL.errors;
    propfail = -1;
    bool valid = true;
    {
        LruImpl<IsMap> I; RefLru R;
        int idx = 0;
        for (const Op& o : ops) {
            if (idx) out.sep(' ');
            auto fail = [&]() { if (propfail < 0) propfail = idx; };
            auto it = R.find(o.k);
            bool present = it != R.l.end();
            const std::string& n = o.name;
            if (n == "P") {
                int v = IsMap ? o.v : 0;
                I.put(o.k, v); out.res('u');
                if (present) R.l.erase(it);
                R.l.push_front(std::make_pair(o.k, v));
            } else if (n == "T" || n == "E" || n == "G" || n == "GT") {
                bool threw = false; int val = 0;
                try {
                    if (n == "T") I.c.touch(o.k);
                    else if (n == "E") I.c.erase(o.k);
                    else if (n == "G") val = I.get(o.k);
                    else val = I.get_touch(o.k);
                } catch (const std::range_error&) { threw = true; }
                if (threw) out.res('!'); else if (n == "G" || n == "GT") out.res('v', val); else out.res('u');
                if (threw != !present) fail();
                if (present) {
                    if ((n == "G" || n == "GT") && !threw && val != it->second) fail();
                    if (n == "T" || n == "GT") R.l.splice(R.l.begin(), R.l, it);
                    else if (n == "E") R.l.erase(it);
                }
            } else if (n == "TI" || n == "EI") {
                bool b = n == "TI" ? I.c.touch_if_exists(o.k) : I.c.erase_if_exists(o.k);
                out.res('b', b);
                if (b != present) fail();
                if (present) { if (n == "TI") R.l.splice(R.l.begin(), R.l, it); else R.l.erase(it); }
            } else if (n == "X") {
                bool b = I.c.exists(o.k); out.res('b', b); if (b != present) fail();
            } else if (n == "S") {
                size_t s = I.c.size(); out.res('s', (long)s); if (s != R.l.size()) fail();
            } else if (n == "O") {
                if (R.l.empty()) { valid = false; out.res('?'); break; }
                std::pair<int, int> p = I.pop(); out.res('p', p.first, p.second);
                if (p != R.l.back()) fail();
                R.l.pop_back();
            } else if (n == "C") {
                I.c.clear(); out.res('u'); R.l.clear();
            } else { out.res('?'); }
            if (I.c.size() != R.l.size()) fail();
            if (propfail >= 0) break;   // implementation and reference have diverged: stop this history
            ++idx;
        }
        // observe the whole recency order: drain by pop
        out.sep('|');
        bool first = true;
        size_t guard = ops.size() + 4;   // a correct cache holds at most one entry per put
        while (valid && propfail < 0 && I.c.size() > 0) {
            if (guard-- == 0) { if (propfail < 0) propfail = idx; break; }
            std::pair<int, int> p = I.pop(); out.kv(p.first, p.second, first); first = false;
            if (R.l.empty() || p != R.l.back()) { if (propfail < 0) propfail = idx; if (!R.l.empty()) R.l.pop_back(); }
            else R.l.pop_back();
        }
        if (valid && !R.l.empty() && propfail < 0) propfail = idx;
    }
    bool ledger_ok = AL.errors == e0 && (AL.allocs - a0) == (AL.frees - f0);
    out.sep('|'); out.word(ledger_ok ? "ok" : "bad");
    if (!ledger_ok && propfail < 0) propfail = (int)ops.size();
    return valid;
}

// ------------------------------------------------------------------------------------------ SplayTree
template <bool Dup>
static void run_splay(const std::vector<Op>& ops, Sink& out, int& propfail) {
    AllocLedger& AL = AllocLedger::get(); Ledger& TL = Ledger::get();
    long a0 = AL.allocs, f0 = AL.frees, e0 = AL.errors, te0 = TL.errors;
    size_t live0 = TL.live.size();
    propfail = -1;
    {
        tlx::SplayTree<Tracked, std::less<Tracked>, Dup, CountingAlloc<Tracked> > T;
        std::multiset<int> R;
        int idx = 0;
        for (const Op& o : ops) {
            if (idx) out.sep(' ');
            auto fail = [&]() { if (propfail < 0) propfail = idx; };
            const std::string& n = o.name;
            Tracked key(o.k);
            size_t cnt = R.count(o.k);
            if (n == "I") {
                bool b = T.insert(key); out.res('b', b);
                bool exp = Dup || cnt == 0;
                if (b != exp) fail();
                if (exp) R.insert(o.k);
            } else if (n == "E") {
                bool b = T.erase(key); out.res('b', b);
                if (b != (cnt > 0)) fail();
                if (cnt > 0) R.erase(R.find(o.k));
            } else if (n == "X") {
                bool b = T.exists(key); out.res('b', b);
                if (b != (cnt > 0)) fail();
            } else if (n == "F") {
                auto* nd = T.find(key);
                if (nd == nullptr) { out.res('f'); out.sep('-'); if (!R.empty()) fail(); }
                else {
                    int fk = nd->key.get(); out.res('f', fk);
                    if (R.count(fk) == 0) fail();
                    if (cnt > 0 && fk != o.k) fail();
                    if (cnt == 0) {   // must be a neighbour: no stored key strictly between fk and k
                        int lo = std::min(fk, o.k), hi = std::max(fk, o.k);
                        auto it = R.upper_bound(lo);
                        if (fk == o.k || (it != R.end() && *it < hi)) fail();
                    }
                }
            } else if (n == "C") {
                T.clear(); out.res('u'); R.clear();
            } else if (n == "T") {
                out.res('t');
            } else { out.res('?'); }
            // after every operation: size(), empty() and the in-order traversal against the reference
            size_t s = T.size();
            out.sep('/'); out.num((long)s); if (out.text) out.s += std::to_string(s);
            out.sep('/');
            std::vector<int> io;
            T.traverse_preorder([&io](const Tracked& k) { io.push_back(k.get()); });
            bool first = true;
            for (int k : io) { out.key(k, first); first = false; }
            if (s != R.size() || T.empty() != R.empty() || io.size() != R.size() || !std::equal(io.begin(), io.end(), R.begin())) fail();
            if (propfail >= 0) break;   // diverged: stop this history
            ++idx;
        }
    }
    bool ledger_ok = AL.errors == e0 && (AL.allocs - a0) == (AL.frees - f0) && TL.errors == te0 && TL.live.size() == live0;
    out.sep('|'); out.word(ledger_ok ? "ok" : "bad");
    if (!ledger_ok && propfail < 0) propfail = (int)ops.size();
}

static bool run_kind(const std::string& kind, const std::vector<Op>& ops, Sink& out, int& pf) {
    if (kind == "lrumap") return run_lru<true>(ops, out, pf);
    if (kind == "lruset") return run_lru<false>(ops, out, pf);
    if (kind == "splayset") { run_splay<false>(ops, out, pf); return true; }
    if (kind == "splaymulti") { run_splay<true>(ops, out, pf); return true; }
    out.word("?"); pf = -1; return true;
}

static std::vector<std::string> alphabet(const std::string& kind, int nk) {
    std::vector<std::string> a;
    auto with_keys = [&](const char* n) { for (int k = 0; k < nk; ++k) a.push_back(std::string(n) + "," + std::to_string(k)); };
    if (kind == "lrumap") {
        for (int k = 0; k < nk; ++k) for (int v = 1; v <= 2; ++v) a.push_back("P," + std::to_string(k) + "," + std::to_string(v));
        for (const char* n : { "T", "TI", "G", "GT", "E", "EI", "X" }) with_keys(n);
        a.push_back("S"); a.push_back("O"); a.push_back("C");
    } else if (kind == "lruset") {
        for (const char* n : { "P", "T", "TI", "E", "EI", "X" }) with_keys(n);
        a.push_back("S"); a.push_back("O"); a.push_back("C");
    } else {
        for (const char* n : { "I", "E", "X", "F" }) with_keys(n);
        a.push_back("C"); a.push_back("T");
    }
    return a;
}

int main(int argc, char** argv) {
    if (argc < 2) return 2;
    std::ifstream in(argv[1]);
    std::string line;
    while (std::getline(in, line)) {
        std::istringstream ss(line);
        std::string kind; ss >> kind;
        if (kind == "exh" || kind == "exhv") {
            bool verbose = kind == "exhv";
            std::string k2; int nk, len; ss >> k2 >> nk >> len;
            std::vector<std::string> al = alphabet(k2, nk);
            std::vector<Op> alops; for (auto& t : al) alops.push_back(parse_tok(t));
            std::vector<int> ix(len, 0);
            uint64_t total = 0, H = 0; std::string firstfail = "-";
            for (;;) {
                std::vector<Op> ops; for (int i : ix) ops.push_back(alops[i]);
                Sink sk; sk.text = verbose; int pf;
                bool valid = run_kind(k2, ops, sk, pf);
                if (valid) {
                    ++total; H = (H * 1000003ULL + sk.h) & ((1ULL << 62) - 1);
                    if (verbose) { std::string c = k2; for (int i : ix) c += " " + al[i]; printf("R %s => %s%s\n", c.c_str(), sk.s.c_str(), pf >= 0 ? " PROPFAIL" : ""); fflush(stdout); }
                    if (pf >= 0 && firstfail == "-") { firstfail = k2; for (int i : ix) firstfail += "_" + al[i]; }
                }
                int p = len - 1;
                while (p >= 0 && ++ix[p] == (int)al.size()) { ix[p] = 0; --p; }
                if (p < 0) break;
            }
            printf("R exh count=%llu hash=%llu fail=%s\n", (unsigned long long)total, (unsigned long long)H, firstfail.c_str());
            fflush(stdout);
            continue;
        }
        std::vector<Op> ops; std::string tok;
        while (ss >> tok) ops.push_back(parse_tok(tok));
        Sink sk; int pf;
        bool valid = run_kind(kind, ops, sk, pf);
        printf("R %s%s%s\n", sk.s.c_str(), valid ? "" : " INVALID-HISTORY", pf >= 0 ? (" PROPFAIL@" + std::to_string(pf)).c_str() : "");
        fflush(stdout);
    }
    return 0;
}
