// C12 scheduler shim, force-included (-include) BEFORE any tlx header when building the interleaving harness.
// Inside namespace tlx the qualified name std::X is looked up in tlx::std first; tlx::std re-exports ::std and
// replaces std::atomic by verif::atomic, whose read-modify-write operations are scheduling points of the
// deterministic scheduler in conc_harness.cpp and are logged with the value they read.  No tlx source is changed.
#ifndef VERIF_C12_ATOMIC_SHIM_HPP
#define VERIF_C12_ATOMIC_SHIM_HPP
#include <algorithm>
#include <atomic>
#include <cassert>
#include <cstddef>
#include <iosfwd>
#include <type_traits>
#include <utility>

namespace verif {
// provided by the harness: blocks until the scheduler lets the calling thread perform its next shared action
void sched_point();
// provided by the harness: append an event of the calling thread ("A" fetch_add, "S" fetch_sub) with the value read
void log_rmw(char kind, unsigned long old_value, const void* addr);

template <typename T>
class atomic
{
    T v_;

public:
    atomic() noexcept : v_() {}
    constexpr atomic(T v) noexcept : v_(v) {}
    atomic(const atomic&) = delete;
    atomic& operator=(const atomic&) = delete;
    T operator++() noexcept { sched_point(); T old = v_; v_ = static_cast<T>(old + 1); log_rmw('A', old, this); return v_; }
    T operator--() noexcept { sched_point(); T old = v_; v_ = static_cast<T>(old - 1); log_rmw('S', old, this); return v_; }
    T operator++(int) noexcept { sched_point(); T old = v_; v_ = static_cast<T>(old + 1); log_rmw('A', old, this); return old; }
    T operator--(int) noexcept { sched_point(); T old = v_; v_ = static_cast<T>(old - 1); log_rmw('S', old, this); return old; }
    T fetch_add(T d, ::std::memory_order = ::std::memory_order_seq_cst) noexcept
    { sched_point(); T old = v_; v_ = static_cast<T>(old + d); log_rmw(d == 1 ? 'A' : '?', old, this); return old; }
    T fetch_sub(T d, ::std::memory_order = ::std::memory_order_seq_cst) noexcept
    { sched_point(); T old = v_; v_ = static_cast<T>(old - d); log_rmw(d == 1 ? 'S' : '?', old, this); return old; }
    // EVERY atomic operation is a scheduling point, plain loads and stores included (a decrement written as
    // fetch_sub followed by a separate load must be interruptible between the two).  Loads are logged as "L" (the
    // model ignores them: unique(), use_count()), stores as "W" (the model has no store event: such a trace is
    // rejected).  The interleaving harness is compiled with -DNDEBUG so that the asserts of ReferenceCounter do not
    // add a load to every operation.
    operator T() const noexcept { sched_point(); log_rmw('L', v_, this); return v_; }
    T load(::std::memory_order = ::std::memory_order_seq_cst) const noexcept { sched_point(); log_rmw('L', v_, this); return v_; }
    void store(T v, ::std::memory_order = ::std::memory_order_seq_cst) noexcept { sched_point(); log_rmw('W', v_, this); v_ = v; }
    T operator=(T v) noexcept { store(v); return v; }
};
} // namespace verif

namespace tlx {
namespace std {
using namespace ::std;
template <typename T>
using atomic = ::verif::atomic<T>;
} // namespace std
} // namespace tlx
#endif
