// C12 correspondence harness for handles INSIDE managed objects (coq/C12/Nested.v): singly linked nodes
//   struct Node : tlx::ReferenceCounter { tlx::CountingPtr<Node> next; };
// and k outer handles.  Replays op sequences; prints one line per case in the format of ocaml/C12_driver.ml
// ("list" cases), followed by the property verdict evaluated on the implementation's own observations.
//   NN,v   v = CountingPtr(new Node)        CP,v,w  v = w             RS,v  v.reset()
//   LK,v,w v->next = w                      FN,v,w  v = w->next       MN,v,w v = std::move(w->next)
// (FN/MN with v == w consume a list from its head: the source handle is a member of the object being released.)
// The generator keeps the ownership graph acyclic (docs/audit/C12.md: self-owning objects are out of scope).
#include <cstdio>
#include <cstdlib>
#include <fstream>
#include <iostream>
#include <set>
#include <sstream>
#include <string>
#include <vector>

#include <tlx/counting_ptr.hpp>

// Every node is an Item (derived); the member `next` is a CountingPtr<Item>.  Outer handle v is a CountingPtr<Node> (base
// class) when v is even and a CountingPtr<Item> when v is odd, so that CP / FN / MN into an even variable run the
// CONVERTING copy- / move-assignment (CountingPtr<Subclass, Deleter> const& / &&) and into an odd one the plain overloads.
// The generator respects the C++ typing: a base handle is never the source of CP into a derived one or of LK.
struct Node;
struct Item;
static std::vector<int> g_dtor;
static std::vector<Node*> g_addr;
static std::set<const Node*> g_live;

struct Node : public tlx::ReferenceCounter {
    int id;
    tlx::CountingPtr<Item> next;
    Node() : id(static_cast<int>(g_dtor.size())) { g_dtor.push_back(0); g_addr.push_back(this); g_live.insert(this); }
    Node(const Node&) = delete;
    virtual ~Node() { ++g_dtor[id]; g_live.erase(this); }
};
struct Item : public Node {};
using PB = tlx::CountingPtr<Node>;
using PD = tlx::CountingPtr<Item>;

// an outer handle of either static type
struct H {
    bool base; PB b; PD d;
    const Node* get() const { return base ? b.get() : d.get(); }
    size_t use_count() const { return base ? b.use_count() : d.use_count(); }
    explicit operator bool() const { return get() != nullptr; }
    void reset() { if (base) b.reset(); else d.reset(); }
    tlx::CountingPtr<Item>& next() { return base ? b->next : d->next; }
};

static std::string observe(std::vector<H>& v, std::string& pbad) {
    std::ostringstream o;
    std::vector<int> handles(g_dtor.size(), 0);
    auto bad = [&](const char* m) { if (pbad.empty()) pbad = m; };
    for (size_t i = 0; i < v.size(); ++i) {
        if (i) o << ',';
        const Node* p = v[i].get();
        if (!p) { o << '0'; if (v[i].use_count() != 0) bad("use_count() of an empty handle"); continue; }
        if (!g_live.count(p)) { o << "DANGLING"; bad("a handle remains on a destroyed node"); continue; }
        o << p->id << ':' << v[i].use_count();
        ++handles[p->id];
    }
    o << ';';
    for (size_t n = 0; n < g_dtor.size(); ++n)
        if (g_live.count(g_addr[n])) { const Node* q = g_addr[n]->next.get(); if (q) { if (!g_live.count(q)) bad("a member handle points to a destroyed node"); else ++handles[q->id]; } }
    for (size_t n = 0; n < g_dtor.size(); ++n) {
        if (n) o << '.';
        o << g_dtor[n] << '>';
        bool live = g_live.count(g_addr[n]) != 0;
        if (live && g_addr[n]->next) o << (g_live.count(g_addr[n]->next.get()) ? g_addr[n]->next->id : -1); else o << '-';
        if (live && static_cast<int>(g_addr[n]->reference_count()) != handles[n]) bad("reference count differs from the number of handles (outer + members of live nodes)");
        if (live && g_dtor[n] != 0) bad("live node has a destructor run");
        if (live && handles[n] == 0) bad("node without handles not destroyed");
        if (!live && g_dtor[n] != 1) bad("node not destroyed exactly once");
        if (!live && handles[n] != 0) bad("node destroyed while a handle remains");
    }
    return o.str();
}

static void run_list(std::istringstream& in) {
    int k = 0; in >> k;
    g_dtor.clear(); g_addr.clear(); g_live.clear();
    std::ostringstream out; std::string verdict;
    {
        std::vector<H> v(static_cast<size_t>(k));
        for (int i = 0; i < k; ++i) v[i].base = (i % 2 == 0);
        std::string illtyped;
        std::string tok; int stepno = 0;
        while (in >> tok) {
            std::vector<long> f; std::string name; size_t p = 0; bool first = true;
            while (p <= tok.size()) {
                size_t q = tok.find(',', p); if (q == std::string::npos) q = tok.size();
                std::string part = tok.substr(p, q - p);
                if (first) { name = part; first = false; } else f.push_back(atol(part.c_str()));
                p = q + 1;
            }
            ++stepno;
            if (!verdict.empty()) { out << "stop "; continue; }
            auto in_range = [&](long x) { return x >= 0 && x < k; };
            bool ok = !f.empty() && in_range(f[0]) && (f.size() < 2 || in_range(f[1]));
            if (ok && name == "LK") ok = static_cast<bool>(v[f[0]]);
            if (ok && (name == "FN" || name == "MN")) ok = static_cast<bool>(v[f[1]]);
            if (!ok) { out << "skip "; continue; }
            H& a = v[f[0]];
            if (name == "NN") { if (a.base) a.b = PB(new Item()); else a.d = PD(new Item()); }
            else if (name == "CP") {
                H& o = v[f[1]];
                if (a.base && o.base) { PB& r = o.b; a.b = r; } else if (a.base) a.b = o.d;            // converting copy-assignment
                else if (!o.base) { PD& r = o.d; a.d = r; } else { illtyped = tok; out << "skip "; continue; }
            }
            else if (name == "RS") a.reset();
            else if (name == "LK") { H& o = v[f[1]]; if (o.base) { illtyped = tok; out << "skip "; continue; } a.next() = o.d; }
            else if (name == "FN") { if (a.base) a.b = v[f[1]].next(); else a.d = v[f[1]].next(); }        // even target: converting copy-assignment
            else if (name == "MN") { if (a.base) a.b = std::move(v[f[1]].next()); else a.d = std::move(v[f[1]].next()); }   // even target: converting move-assignment
            else { out << "skip "; continue; }
            std::string pbad;
            out << observe(v, pbad) << ' ';
            if (!pbad.empty()) verdict = "bad@" + std::to_string(stepno) + ":" + pbad;
        }
        for (auto& h : v) h.reset();
        std::string pbad;
        out << "F:" << observe(v, pbad);
        if (!pbad.empty() && verdict.empty()) verdict = "bad@final:" + pbad;
        if (!g_live.empty() && verdict.empty()) verdict = "bad@final:leaked nodes";
        if (!illtyped.empty()) out << " ILLTYPED(" << illtyped << ")";
    }
    out << " P=" << (verdict.empty() ? "ok" : verdict);
    std::cout << out.str() << "\n" << std::flush;
}

int main(int argc, char** argv) {
    if (argc < 2) return 2;
    std::ifstream f(argv[1]);
    std::string line;
    while (std::getline(f, line)) {
        std::istringstream in(line);
        std::string kind; in >> kind;
        if (kind == "list") run_list(in); else std::cout << "?\n" << std::flush;
    }
    return 0;
}
