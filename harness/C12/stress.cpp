// C12 real-thread stress run (no shim, real std::atomic): k threads copy / assign / move / reset / drop handles to one
// shared object `iters` times each while the creator lets go at an arbitrary moment; the object must be destroyed
// exactly once, after the last handle is gone, and never before (ASan sees a use after free; the payload is read
// through every fresh copy).  usage: stress <rounds> <threads> <iters> <seed>   -> one line per round
#include <atomic>
#include <cstdio>
#include <cstdlib>
#include <thread>
#include <vector>

#include <tlx/counting_ptr.hpp>

#include "verif_rng.hpp"

static std::atomic<int> g_dtor{0};
static std::atomic<int> g_live{0};
static std::atomic<long> g_errors{0};

struct Obj : public tlx::ReferenceCounter {
    int payload;
    int* heap;
    explicit Obj(int x) : payload(x), heap(new int(x)) { ++g_live; }
    Obj(const Obj& o) : tlx::ReferenceCounter(o), payload(o.payload), heap(new int(*o.heap)) { ++g_live; }
    ~Obj() { ++g_dtor; --g_live; delete heap; heap = nullptr; }
};
using P = tlx::CountingPtr<Obj>;
using PC = tlx::CountingPtr<const Obj>;

static void work(P mine, long iters, unsigned long long seed, std::atomic<int>* go) {
    while (!go->load()) std::this_thread::yield();
    verif::Rng rng(seed);
    std::vector<P> hs; hs.reserve(16);
    for (long i = 0; i < iters; ++i) {
        unsigned r = static_cast<unsigned>(rng.below(8));
        if (hs.size() > 12) r = 4 + (r & 3);
        switch (r) {
        case 0: hs.emplace_back(mine); break;                                        // copy ctor
        case 1: { P x; x = mine; hs.push_back(std::move(x)); break; }                // copy assign + move ctor
        case 2: { PC c(mine); if (*c->heap != 41) ++g_errors; break; }               // converting copy, use, drop
        case 3: { P x(mine.get()); P y; y = std::move(x); hs.push_back(y); break; }  // from raw, move assign, copy
        case 4: if (!hs.empty()) hs.pop_back(); break;                               // dtor
        case 5: if (!hs.empty()) { hs.back().reset(); hs.pop_back(); } break;
        case 6: if (hs.size() >= 2) { hs[0] = hs.back(); hs[1] = std::move(hs[0]); } break;   // alias assignments
        default: if (!hs.empty()) { if (*hs.back()->heap != hs.back()->payload) ++g_errors; } break;
        }
        if (g_dtor.load(std::memory_order_relaxed) != 0) ++g_errors;                 // destroyed while `mine` is held
    }
    hs.clear();
    if (mine.use_count() < 1) ++g_errors;
}

int main(int argc, char** argv) {
    int rounds = argc > 1 ? atoi(argv[1]) : 3;
    int k = argc > 2 ? atoi(argv[2]) : 3;
    long iters = argc > 3 ? atol(argv[3]) : 100000;
    unsigned long long seed = argc > 4 ? strtoull(argv[4], nullptr, 10) : 1;
    int bad = 0;
    for (int r = 0; r < rounds; ++r) {
        g_dtor = 0; g_live = 0; g_errors = 0;
        std::atomic<int> go{0};
        size_t final_count = 0;
        {
            P root = tlx::make_counting<Obj>(41);
            std::vector<std::thread> th;
            for (int t = 0; t < k; ++t) th.emplace_back(work, root, iters, seed * 1000 + r * 10 + t, &go);
            go = 1;
            if (r % 2 == 0) root.reset();                 // the creator lets go while the others are running
            for (auto& t : th) t.join();
            if (r % 2 == 1) { final_count = root.use_count(); if (final_count != 1 || g_dtor != 0) ++g_errors; }
        }
        bool ok = g_dtor == 1 && g_live == 0 && g_errors == 0;
        printf("stress round=%d threads=%d iters=%ld destroyed=%d live=%d errors=%ld %s\n", r, k, iters, g_dtor.load(), g_live.load(), g_errors.load(), ok ? "ok" : "BAD");
        if (!ok) ++bad;
    }
    return bad ? 1 : 0;
}
