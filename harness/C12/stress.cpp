// C12 real-thread stress run (no shim, real std::atomic): k threads copy / assign / move / reset / drop handles to one
// shared object `iters` times each while the creator lets go at an arbitrary moment; the object must be destroyed
// exactly once, after the last handle is gone, and never before (ASan sees a use after free; the payload is read
// through every fresh copy).  usage: stress <rounds> <threads> <iters> <seed>   -> one line per round
#include <atomic>
#include <cstdio>
#include <cstdlib>
#include <thread>
#include <vector>

#include <tlx/counting_ptr.hpp>

#include "verif_rng.hpp"

static std::atomic<int> g_dtor{0};
static std::atomic<int> g_live{0};
static std::atomic<long> g_errors{0};

struct Obj : public tlx::ReferenceCounter {
    int payload;
    int* heap;
    explicit Obj(int x) : payload(x), heap(new int(x)) { ++g_live; }
    Obj(const Obj& o) : tlx::ReferenceCounter(o), payload(o.payload), heap(new int(*o.heap)), is_clone(true) { ++g_live; }
    bool is_clone = false;
    ~Obj() { if (!is_clone) ++g_dtor; --g_live; delete heap; heap = nullptr; }
};
using P = tlx::CountingPtr<Obj>;
using PC = tlx::CountingPtr<const Obj>;

static void work(P mine, long iters, unsigned long long seed, std::atomic<int>* go) {
    while (!go->load()) std::this_thread::yield();
    verif::Rng rng(seed);
    std::vector<P> hs; hs.reserve(16);
    for (long i = 0; i < iters; ++i) {
        unsigned r = static_cast<unsigned>(rng.below(8));
        if (hs.size() > 12) r = 4 + (r & 3);
        switch (r) {
        case 0: hs.emplace_back(mine); break;                                        // copy ctor
        case 1: { P x; x = mine; hs.push_back(std::move(x)); break; }                // copy assign + move ctor
        case 2: { PC c(mine); if (*c->heap != 41) ++g_errors; break; }               // converting copy, use, drop
        case 3: { P x(mine.get()); P y; y = std::move(x); hs.push_back(y); break; }  // from raw, move assign, copy
        case 4: if (!hs.empty()) hs.pop_back(); break;                               // dtor
        case 5: if (!hs.empty()) { hs.back().reset(); hs.pop_back(); } break;
        case 6:
            if (i & 1) { if (hs.size() >= 2) { hs[0] = hs.back(); hs[1] = std::move(hs[0]); } }   // alias assignments
            else {                                                                              // a no-delete handle and unify on a private copy
                tlx::CountingPtrNoDelete<Obj> nd(mine.get()); tlx::CountingPtrNoDelete<Obj> nd2(nd);
                if (mine.use_count() < 3) ++g_errors;
                P x(mine); x.unify();
                if (x.get() == mine.get() || *x->heap != 41 || !x.unique()) ++g_errors;
            }
            break;
        default: if (!hs.empty()) { if (*hs.back()->heap != hs.back()->payload) ++g_errors; } break;
        }
        if (g_dtor.load(std::memory_order_relaxed) != 0) ++g_errors;                 // destroyed while `mine` is held
    }
    hs.clear();
    if (mine.use_count() < 1) ++g_errors;
}

// ---- release race: k threads each hold one handle to each of N objects and let go of object i at (nearly) the same
// moment (per-object spin barrier).  The Deleter only COUNTS its calls (the memory is released by main afterwards), so
// a second Deleter call is detected as such, not as a crash: every object must see exactly one call.
struct Obj2 : public tlx::ReferenceCounter {
    std::atomic<int> deleter_calls{0};
    bool is_clone = false;
    Obj2() {}
    Obj2(const Obj2& o) : tlx::ReferenceCounter(o), is_clone(true) {}      // made by unify()
};
static std::atomic<long> g_clones_made{0}, g_clones_deleted{0};
struct CountDel {
    void operator()(Obj2* p) const noexcept {
        if (p->is_clone) { ++g_clones_deleted; delete p; }                  // clones are owned by one thread only
        else p->deleter_calls.fetch_add(1);
    }
};
using PR = tlx::CountingPtr<Obj2, CountDel>;

static long release_race(int k, int nobj) {
    g_clones_made = 0; g_clones_deleted = 0;
    std::vector<Obj2*> objs(nobj);
    std::vector<std::vector<PR>> hs(k);
    std::vector<std::atomic<int>> arrive(nobj);
    for (int i = 0; i < nobj; ++i) { objs[i] = new Obj2(); arrive[i] = 0; }
    for (int t = 0; t < k; ++t) { hs[t].reserve(nobj); for (int i = 0; i < nobj; ++i) hs[t].emplace_back(objs[i]); }
    std::vector<std::thread> th;
    for (int t = 0; t < k; ++t)
        th.emplace_back([&, t] {
            for (int i = 0; i < nobj; ++i) {
                arrive[i].fetch_add(1);
                while (arrive[i].load(std::memory_order_acquire) < k) {}
                if (t == 0 && i % 4 == 3) {              // unify() racing with the release of the other handles
                    Obj2* before = hs[t][i].get();
                    hs[t][i].unify();
                    if (hs[t][i].get() != before) ++g_clones_made;
                    hs[t][i].reset();
                }
                else if (i % 3 == 0) hs[t][i].reset(); else if (i % 3 == 1) hs[t][i] = PR(); else { PR x(std::move(hs[t][i])); }
            }
        });
    for (auto& t : th) t.join();
    long wrong = 0;
    for (int i = 0; i < nobj; ++i) { if (objs[i]->deleter_calls.load() != 1) ++wrong; }
    if (g_clones_made.load() != g_clones_deleted.load()) ++wrong;
    for (int t = 0; t < k; ++t) hs[t].clear();
    for (int i = 0; i < nobj; ++i) delete objs[i];
    return wrong;
}

int main(int argc, char** argv) {
    int rounds = argc > 1 ? atoi(argv[1]) : 3;
    int k = argc > 2 ? atoi(argv[2]) : 3;
    long iters = argc > 3 ? atol(argv[3]) : 100000;
    unsigned long long seed = argc > 4 ? strtoull(argv[4], nullptr, 10) : 1;
    int bad = 0;
    for (int r = 0; r < rounds; ++r) {
        g_dtor = 0; g_live = 0; g_errors = 0;
        std::atomic<int> go{0};
        size_t final_count = 0;
        {
            P root = tlx::make_counting<Obj>(41);
            std::vector<std::thread> th;
            for (int t = 0; t < k; ++t) th.emplace_back(work, root, iters, seed * 1000 + r * 10 + t, &go);
            go = 1;
            if (r % 2 == 0) root.reset();                 // the creator lets go while the others are running
            for (auto& t : th) t.join();
            if (r % 2 == 1) { final_count = root.use_count(); if (final_count != 1 || g_dtor != 0) ++g_errors; }
        }
        bool ok = g_dtor == 1 && g_live == 0 && g_errors == 0;
        printf("stress round=%d threads=%d iters=%ld destroyed=%d live=%d errors=%ld %s\n", r, k, iters, g_dtor.load(), g_live.load(), g_errors.load(), ok ? "ok" : "BAD");
        if (!ok) ++bad;
    }
    for (int r = 0; r < rounds; ++r) {
        long wrong = release_race(k, 20000);
        printf("release-race round=%d threads=%d objects=20000 objects_with_deleter_calls_not_1=%ld %s\n", r, k, wrong, wrong ? "BAD" : "ok");
        if (wrong) ++bad;
    }
    return bad ? 1 : 0;
}
