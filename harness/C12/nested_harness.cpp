// C12 nested-handle scenarios: managed objects that themselves contain CountingPtr handles (lists, trees, an object that
// keeps itself alive).  The handles inside objects are handles like any other: counts must equal the number of handles,
// every object is destroyed exactly once when its last handle goes, and no operation may touch a destroyed object
// (ASan).  These histories are outside the Coq model (its managed type holds plain data), so they are checked here by
// the destructor log and the sanitizers only.
//
// usage: nested_harness <scenario>...   prints "ok" or "bad: <what>" (with several scenarios: one "<name> ok" line each); a
// sanitizer report / assert aborts the process, so the check re-runs the scenarios one per process when the batch fails.
#include <cstdio>
#include <cstdlib>
#include <cstring>
#include <string>
#include <utility>
#include <vector>

#include <tlx/counting_ptr.hpp>

static std::vector<int> g_dtor;   // destructor calls per node id

struct Node : public tlx::ReferenceCounter {
    int id;
    tlx::CountingPtr<Node> next;     // a handle inside the managed object
    tlx::CountingPtr<Node> other;    // a second one (trees, self reference)
    explicit Node() : id(static_cast<int>(g_dtor.size())) { g_dtor.push_back(0); }
    Node(const Node& o) : tlx::ReferenceCounter(o), id(static_cast<int>(g_dtor.size())), next(o.next), other(o.other) { g_dtor.push_back(0); }
    ~Node() { ++g_dtor[id]; }
};
using P = tlx::CountingPtr<Node>;
using PC = tlx::CountingPtr<const Node>;

static std::string g_bad;
static void expect(bool c, const char* what) { if (!c && g_bad.empty()) g_bad = what; }

static P make_list(int n) {      // node ids 0..n-1, head = 0
    P head(new Node());
    P cur = head;
    for (int i = 1; i < n; ++i) { cur->next = P(new Node()); cur = cur->next; }
    return head;
}
static void expect_destroyed(std::initializer_list<int> yes, int total) {
    std::vector<int> want(total, 0);
    for (int i : yes) want[i] = 1;
    for (int i = 0; i < total; ++i) if (g_dtor[i] != want[i]) { expect(false, "destructor log differs from 'destroyed exactly once iff no handle is left'"); return; }
}

// ---- the assignment operators as a product: {copy, move} x {same type, converting Derived -> Base}
//      x {source is a member of the object being released, a member of ANOTHER live object, a local handle},
//      plus reset()-then-assign and swap with a member.  Base-class nodes BN, every object is a DN (derived); the
//      member `next` is a CountingPtr<DN>; the assigned-to handle is a CountingPtr<DN> (same type) or a
//      CountingPtr<BN> (converting overloads).  The oracle recomputes, from the outer handles, which nodes must be
//      alive (reachable), their counts (outer handles + members of live nodes) and the destructor log.
struct DN;
static std::vector<int> g_bdtor;
struct BN : public tlx::ReferenceCounter {
    int id;
    tlx::CountingPtr<DN> next;
    BN() : id(static_cast<int>(g_bdtor.size())) { g_bdtor.push_back(0); }
    BN(const BN&) = delete;
    virtual ~BN() { ++g_bdtor[id]; }
};
struct DN : public BN {};
using PBN = tlx::CountingPtr<BN>;
using PDN = tlx::CountingPtr<DN>;
static std::vector<BN*> g_nodes;      // by id (addresses stay valid to compare, never dereferenced once destroyed)
static PDN mk() { DN* n = new DN(); g_nodes.push_back(n); return PDN(n); }
static PDN mk_chain(int n) { PDN head = mk(); PDN cur = head; for (int i = 1; i < n; ++i) { cur->next = mk(); cur = cur->next; } return head; }

static void oracle(std::initializer_list<const BN*> outer, const char* where) {
    size_t n = g_nodes.size();
    std::vector<char> alive(n, 0); std::vector<int> cnt(n, 0);
    std::vector<const BN*> stack;
    for (const BN* p : outer) if (p) { ++cnt[p->id]; if (!alive[p->id]) { alive[p->id] = 1; stack.push_back(p); } }
    // reachability must only walk nodes that have NOT been destroyed according to the log (else we would read freed memory)
    while (!stack.empty()) {
        const BN* p = stack.back(); stack.pop_back();
        if (g_bdtor[p->id] != 0) { expect(false, where); expect(false, "a node that still has a handle was destroyed"); return; }
        const BN* q = p->next.get();
        if (q) { ++cnt[q->id]; if (!alive[q->id]) { alive[q->id] = 1; stack.push_back(q); } }
    }
    for (size_t i = 0; i < n; ++i) {
        if (alive[i]) {
            if (g_bdtor[i] != 0) { expect(false, where); expect(false, "node with handles destroyed"); }
            else if (static_cast<int>(g_nodes[i]->reference_count()) != cnt[i]) { expect(false, where); }
        }
        else if (g_bdtor[i] != 1) { expect(false, where); }
    }
}

// kind: 'c' copy / 'm' move;  conv: target is a base-class handle;  where: 0 member of the released object,
// 1 member of another live object, 2 local handle
template <typename Target>
static void assign_product(char kind, int where) {
    Target head(mk_chain(3));                    // head -> n0 -> n1 -> n2   (head is the only owner of n0)
    PDN keep = mk_chain(2);                      // keep -> n3 -> n4
    PDN local = mk();                            // n5
    oracle({head.get(), keep.get(), local.get()}, "before");
    if (where == 0) { if (kind == 'c') head = head->next; else head = std::move(head->next); }
    else if (where == 1) { if (kind == 'c') head = keep->next; else head = std::move(keep->next); }
    else { if (kind == 'c') head = local; else head = std::move(local); }
    oracle({head.get(), keep.get(), local.get()}, "after the assignment");
    int want = where == 0 ? 1 : where == 1 ? 4 : 5;
    expect(head && head->id == want, "assigned-to handle points to the wrong node");
    if (kind == 'm' && where == 1) expect(!keep->next, "moved-from member not empty");
    if (kind == 'm' && where == 2) expect(!local, "moved-from local not empty");
    head.reset(); oracle({keep.get(), local.get()}, "after releasing the head");
    keep.reset(); local.reset(); oracle({}, "at the end");
}

template <typename Target>
static void reset_then_assign(char kind) {
    Target head(mk_chain(3)); PDN keep = mk_chain(3);
    head.reset(); oracle({keep.get()}, "after reset");
    if (kind == 'c') head = keep->next; else head = std::move(keep->next);
    oracle({head.get(), keep.get()}, "after assigning to the emptied handle");
    if (kind == 'c') head = head->next; else head = std::move(head->next);         // and consume one more from its own member
    oracle({head.get(), keep.get()}, "after consuming from the own member");
    keep.reset(); oracle({head.get()}, "keep released");
    head.reset(); oracle({}, "at the end");
}

static void swap_with_member() {
    PDN head = mk_chain(2); PDN keep = mk_chain(3);          // head -> n0 -> n1 ; keep -> n2 -> n3 -> n4
    swap(head, keep->next);                                   // head -> n3 -> n4 ; keep -> n2 -> n0 -> n1
    oracle({head.get(), keep.get()}, "after swap with a member of another object");
    expect(head->id == 3 && keep->next->id == 0, "swap result");
    head.swap(keep->next->next->next);                        // the empty member of n1: head becomes empty, keep -> n2 -> n0 -> n1 -> n3 -> n4
    oracle({head.get(), keep.get()}, "after swapping with an empty member");
    expect(!head && keep->next->next->next->id == 3, "swap with an empty member");
    keep.reset(); head.reset(); oracle({}, "at the end");
}

static int run_scenario(const std::string& sc) {
    g_dtor.clear(); g_bdtor.clear(); g_nodes.clear(); g_bad.clear();
    if (sc == "pop_copy") {                // head = head->next : the source handle lives inside the object being released
        P head = make_list(3);
        head = head->next;
        expect(head && head->id == 1 && head.use_count() == 1, "head is not the unique owner of the second node");
        expect_destroyed({0}, 3);
    }
    else if (sc == "pop_move") {           // head = std::move(head->next)
        P head = make_list(3);
        head = std::move(head->next);
        expect(head && head->id == 1 && head.use_count() == 1, "head is not the unique owner of the second node");
        expect(head->next && head->next->id == 2 && head->next.use_count() == 1, "third node lost");
        expect_destroyed({0}, 3);
    }
    else if (sc == "pop_conv_copy") {      // the converting copy-assignment (CountingPtr<Node> -> CountingPtr<const Node>)
        PC head(make_list(3));
        head = head->next;
        expect(head && head->id == 1 && head.use_count() == 1, "head is not the unique owner of the second node");
        expect_destroyed({0}, 3);
    }
    else if (sc == "pop_all") {            // consume a list front to back
        P head = make_list(50);
        int k = 0;
        while (head) { expect(head->id == k, "wrong node"); head = head->next; ++k; for (int i = 0; i < 50; ++i) if (g_dtor[i] != (i < k ? 1 : 0)) expect(false, "a node was destroyed too early or too late"); }
    }
    else if (sc == "self_reset") {         // an object that keeps itself alive and lets go: me.reset()
        Node* s = new Node();
        s->other = P(s);
        expect(s->reference_count() == 1, "count");
        s->other.reset();
        expect_destroyed({0}, 1);
    }
    else if (sc == "self_assign_null") {   // ... me = nullptr
        Node* s = new Node();
        s->other = P(s);
        s->other = nullptr;
        expect_destroyed({0}, 1);
    }
    else if (sc == "self_move_assign") {   // ... me = CountingPtr()
        Node* s = new Node();
        s->other = P(s);
        s->other = P();
        expect_destroyed({0}, 1);
    }
    else if (sc == "self_copy_assign") {   // ... me = empty (copy-assignment)
        Node* s = new Node();
        s->other = P(s);
        P empty;
        s->other = empty;
        expect_destroyed({0}, 1);
    }
    else if (sc == "traverse") {           // cur = cur->next while the head keeps everything alive
        P head = make_list(20);
        int k = 0;
        for (P cur = head; cur; cur = cur->next) { expect(cur.use_count() == 2, "count during traversal"); ++k; }
        expect(k == 20, "length");
        expect_destroyed({}, 20);
    }
    else if (sc == "cascade") {            // dropping the head destroys the whole chain, each node once
        { P head = make_list(2000); P tail = head; while (tail->next) tail = tail->next; tail->other = P(); }
        for (int i = 0; i < 2000; ++i) if (g_dtor[i] != 1) expect(false, "chain not destroyed exactly once");
    }
    else if (sc == "tree_swap_unify") {    // swap an outer handle with a member handle; unify a node that is shared (its copy shares the children)
        P root(new Node()); root->next = P(new Node()); root->other = P(new Node());       // ids 0,1,2
        P x = root->next; swap(x, root->other);                                               // x = node 2, root->other = node 1
        expect(x->id == 2 && root->other->id == 1 && root->next->id == 1 && root->next.use_count() == 2, "swap with a member handle");
        P r2 = root; r2.unify();                                                              // node 3 = copy of root, sharing the children
        expect(r2->id == 3 && r2.unique() && root.unique() && root->next.use_count() == 4, "unify of an object holding handles");
        root.reset();
        expect_destroyed({0}, 4);
        r2.reset(); x.reset();
        expect_destroyed({0, 1, 2, 3}, 4);
    }
    else if (sc == "shared_child") {       // two parents hold a handle to the same, already shared child; released in both orders
        for (int order = 0; order < 2; ++order) {
            size_t base = g_dtor.size();
            P child(new Node());                                   // id base
            P a(new Node()), b(new Node());                        // base+1, base+2
            a->next = child; b->other = child;
            expect(child.use_count() == 3, "count of the shared child");
            child.reset();
            if (order == 0) { a.reset(); expect(g_dtor[base] == 0 && g_dtor[base + 1] == 1, "child must survive its first parent"); b.reset(); }
            else { b.reset(); expect(g_dtor[base] == 0 && g_dtor[base + 2] == 1, "child must survive its first parent"); a.reset(); }
            expect(g_dtor[base] == 1 && g_dtor[base + 1] == 1 && g_dtor[base + 2] == 1, "each destroyed exactly once");
        }
    }
    else if (sc == "container") {          // handles stored in a container inside a managed object
        struct Dir : public tlx::ReferenceCounter { std::vector<P> kids; };
        using PD = tlx::CountingPtr<Dir>;
        PD d(new Dir());
        P keep;
        for (int i = 0; i < 8; ++i) d->kids.push_back(P(new Node()));           // ids 0..7 (vector growth copies/moves handles)
        keep = d->kids[3];
        d->kids.erase(d->kids.begin() + 1);                                      // move-assignments between elements; id 1 dies
        expect(g_dtor[1] == 1 && d->kids.size() == 7 && d->kids[2]->id == 3 && keep.use_count() == 2, "erase inside the container");
        d->kids[0] = d->kids[5];                                                  // id 0 dies, id 6 shared
        expect(g_dtor[0] == 1 && d->kids[0]->id == 6 && d->kids[0].use_count() == 2, "assignment between elements");
        PD d2 = d; d2.unify();                                                    // a copy of the directory shares all children
        expect(d2.unique() && d.unique() && keep.use_count() == 3, "unify of an object holding a container of handles");
        d.reset(); d2.reset();
        for (int i = 0; i < 8; ++i) expect(g_dtor[i] == (i == 3 ? 0 : 1), "children destroyed with their last directory, except the one still held");
        keep.reset();
        expect(g_dtor[3] == 1, "last child");
    }
    else if (sc == "tree") {               // a binary tree of depth 10 released from the root, and a subtree kept alive by an outside handle
        std::vector<P> level{P(new Node())};
        P root = level[0], kept;
        for (int d = 0; d < 10; ++d) {
            std::vector<P> nxt;
            for (auto& n : level) { n->next = P(new Node()); n->other = P(new Node()); nxt.push_back(n->next); nxt.push_back(n->other); }
            if (d == 4) kept = nxt[5];
            level.swap(nxt);
        }
        level.clear();
        size_t total = g_dtor.size();
        root.reset();
        size_t dead = 0; for (size_t i = 0; i < total; ++i) { dead += g_dtor[i]; expect(g_dtor[i] <= 1, "destroyed twice"); }
        expect(dead == total - 63, "everything but the kept subtree (2^6 - 1 nodes) is destroyed");
        kept.reset();
        for (size_t i = 0; i < total; ++i) expect(g_dtor[i] == 1, "each node exactly once");
    }
    else if (sc.compare(0, 7, "assign_") == 0 && sc.size() > 9) {
        // assign_<copy|move>_<same|conv>_<member|other|local>
        char kind = sc.find("_copy_") != std::string::npos ? 'c' : 'm';
        bool conv = sc.find("_conv_") != std::string::npos;
        int where = sc.find("_member") != std::string::npos ? 0 : sc.find("_other") != std::string::npos ? 1 : 2;
        if (conv) assign_product<PBN>(kind, where); else assign_product<PDN>(kind, where);
    }
    else if (sc == "pop_conv_move") assign_product<PBN>('m', 0);
    else if (sc == "reset_assign_copy_same") reset_then_assign<PDN>('c');
    else if (sc == "reset_assign_move_same") reset_then_assign<PDN>('m');
    else if (sc == "reset_assign_copy_conv") reset_then_assign<PBN>('c');
    else if (sc == "reset_assign_move_conv") reset_then_assign<PBN>('m');
    else if (sc == "swap_member") swap_with_member();
    else if (sc == "empty_use_count") {    // not a nested-handle case: use_count() of an empty handle (std::shared_ptr: 0)
        P e;
        expect(!e.unique(), "unique() of an empty handle");
        expect(e.use_count() == 0, "use_count() of an empty handle is not 0");
    }
    else { printf("bad: unknown scenario\n"); return 2; }
    printf("%s\n", g_bad.empty() ? "ok" : ("bad: " + g_bad).c_str());
    fflush(stdout);
    return 0;
}

// one scenario: prints "ok" / "bad: ..."; several scenarios: prints "<name> ok" / "<name> bad: ..." per scenario (the
// check runs them all in one process first and only falls back to one process per scenario when something fails)
int main(int argc, char** argv) {
    if (argc <= 2) return run_scenario(argc > 1 ? argv[1] : "");
    int rc = 0;
    for (int i = 1; i < argc; ++i) { printf("%s ", argv[i]); fflush(stdout); int r = run_scenario(argv[i]); if (r) rc = r; }
    return rc;
}
