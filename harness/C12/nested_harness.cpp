// C12 nested-handle scenarios: managed objects that themselves contain CountingPtr handles (lists, trees, an object that
// keeps itself alive).  The handles inside objects are handles like any other: counts must equal the number of handles,
// every object is destroyed exactly once when its last handle goes, and no operation may touch a destroyed object
// (ASan).  These histories are outside the Coq model (its managed type holds plain data), so they are checked here by
// the destructor log and the sanitizers only.
//
// usage: nested_harness <scenario>      prints "ok" or "bad: <what>"; a sanitizer report / assert aborts the process.
// One process per scenario, because the interesting failures are use-after-free.
#include <cstdio>
#include <cstdlib>
#include <cstring>
#include <string>
#include <utility>
#include <vector>

#include <tlx/counting_ptr.hpp>

static std::vector<int> g_dtor;   // destructor calls per node id

struct Node : public tlx::ReferenceCounter {
    int id;
    tlx::CountingPtr<Node> next;     // a handle inside the managed object
    tlx::CountingPtr<Node> other;    // a second one (trees, self reference)
    explicit Node() : id(static_cast<int>(g_dtor.size())) { g_dtor.push_back(0); }
    Node(const Node& o) : tlx::ReferenceCounter(o), id(static_cast<int>(g_dtor.size())), next(o.next), other(o.other) { g_dtor.push_back(0); }
    ~Node() { ++g_dtor[id]; }
};
using P = tlx::CountingPtr<Node>;
using PC = tlx::CountingPtr<const Node>;

static std::string g_bad;
static void expect(bool c, const char* what) { if (!c && g_bad.empty()) g_bad = what; }

static P make_list(int n) {      // node ids 0..n-1, head = 0
    P head(new Node());
    P cur = head;
    for (int i = 1; i < n; ++i) { cur->next = P(new Node()); cur = cur->next; }
    return head;
}
static void expect_destroyed(std::initializer_list<int> yes, int total) {
    std::vector<int> want(total, 0);
    for (int i : yes) want[i] = 1;
    for (int i = 0; i < total; ++i) if (g_dtor[i] != want[i]) { expect(false, "destructor log differs from 'destroyed exactly once iff no handle is left'"); return; }
}

int main(int argc, char** argv) {
    std::string sc = argc > 1 ? argv[1] : "";
    if (sc == "pop_copy") {                // head = head->next : the source handle lives inside the object being released
        P head = make_list(3);
        head = head->next;
        expect(head && head->id == 1 && head.use_count() == 1, "head is not the unique owner of the second node");
        expect_destroyed({0}, 3);
    }
    else if (sc == "pop_move") {           // head = std::move(head->next)
        P head = make_list(3);
        head = std::move(head->next);
        expect(head && head->id == 1 && head.use_count() == 1, "head is not the unique owner of the second node");
        expect(head->next && head->next->id == 2 && head->next.use_count() == 1, "third node lost");
        expect_destroyed({0}, 3);
    }
    else if (sc == "pop_conv_copy") {      // the converting copy-assignment (CountingPtr<Node> -> CountingPtr<const Node>)
        PC head(make_list(3));
        head = head->next;
        expect(head && head->id == 1 && head.use_count() == 1, "head is not the unique owner of the second node");
        expect_destroyed({0}, 3);
    }
    else if (sc == "pop_all") {            // consume a list front to back
        P head = make_list(50);
        int k = 0;
        while (head) { expect(head->id == k, "wrong node"); head = head->next; ++k; for (int i = 0; i < 50; ++i) if (g_dtor[i] != (i < k ? 1 : 0)) expect(false, "a node was destroyed too early or too late"); }
    }
    else if (sc == "self_reset") {         // an object that keeps itself alive and lets go: me.reset()
        Node* s = new Node();
        s->other = P(s);
        expect(s->reference_count() == 1, "count");
        s->other.reset();
        expect_destroyed({0}, 1);
    }
    else if (sc == "self_assign_null") {   // ... me = nullptr
        Node* s = new Node();
        s->other = P(s);
        s->other = nullptr;
        expect_destroyed({0}, 1);
    }
    else if (sc == "self_move_assign") {   // ... me = CountingPtr()
        Node* s = new Node();
        s->other = P(s);
        s->other = P();
        expect_destroyed({0}, 1);
    }
    else if (sc == "self_copy_assign") {   // ... me = empty (copy-assignment)
        Node* s = new Node();
        s->other = P(s);
        P empty;
        s->other = empty;
        expect_destroyed({0}, 1);
    }
    else if (sc == "traverse") {           // cur = cur->next while the head keeps everything alive
        P head = make_list(20);
        int k = 0;
        for (P cur = head; cur; cur = cur->next) { expect(cur.use_count() == 2, "count during traversal"); ++k; }
        expect(k == 20, "length");
        expect_destroyed({}, 20);
    }
    else if (sc == "cascade") {            // dropping the head destroys the whole chain, each node once
        { P head = make_list(2000); P tail = head; while (tail->next) tail = tail->next; tail->other = P(); }
        for (int i = 0; i < 2000; ++i) if (g_dtor[i] != 1) expect(false, "chain not destroyed exactly once");
    }
    else if (sc == "tree_swap_unify") {    // swap an outer handle with a member handle; unify a node that is shared (its copy shares the children)
        P root(new Node()); root->next = P(new Node()); root->other = P(new Node());       // ids 0,1,2
        P x = root->next; swap(x, root->other);                                               // x = node 2, root->other = node 1
        expect(x->id == 2 && root->other->id == 1 && root->next->id == 1 && root->next.use_count() == 2, "swap with a member handle");
        P r2 = root; r2.unify();                                                              // node 3 = copy of root, sharing the children
        expect(r2->id == 3 && r2.unique() && root.unique() && root->next.use_count() == 4, "unify of an object holding handles");
        root.reset();
        expect_destroyed({0}, 4);
        r2.reset(); x.reset();
        expect_destroyed({0, 1, 2, 3}, 4);
    }
    else if (sc == "shared_child") {       // two parents hold a handle to the same, already shared child; released in both orders
        for (int order = 0; order < 2; ++order) {
            size_t base = g_dtor.size();
            P child(new Node());                                   // id base
            P a(new Node()), b(new Node());                        // base+1, base+2
            a->next = child; b->other = child;
            expect(child.use_count() == 3, "count of the shared child");
            child.reset();
            if (order == 0) { a.reset(); expect(g_dtor[base] == 0 && g_dtor[base + 1] == 1, "child must survive its first parent"); b.reset(); }
            else { b.reset(); expect(g_dtor[base] == 0 && g_dtor[base + 2] == 1, "child must survive its first parent"); a.reset(); }
            expect(g_dtor[base] == 1 && g_dtor[base + 1] == 1 && g_dtor[base + 2] == 1, "each destroyed exactly once");
        }
    }
    else if (sc == "container") {          // handles stored in a container inside a managed object
        struct Dir : public tlx::ReferenceCounter { std::vector<P> kids; };
        using PD = tlx::CountingPtr<Dir>;
        PD d(new Dir());
        P keep;
        for (int i = 0; i < 8; ++i) d->kids.push_back(P(new Node()));           // ids 0..7 (vector growth copies/moves handles)
        keep = d->kids[3];
        d->kids.erase(d->kids.begin() + 1);                                      // move-assignments between elements; id 1 dies
        expect(g_dtor[1] == 1 && d->kids.size() == 7 && d->kids[2]->id == 3 && keep.use_count() == 2, "erase inside the container");
        d->kids[0] = d->kids[5];                                                  // id 0 dies, id 6 shared
        expect(g_dtor[0] == 1 && d->kids[0]->id == 6 && d->kids[0].use_count() == 2, "assignment between elements");
        PD d2 = d; d2.unify();                                                    // a copy of the directory shares all children
        expect(d2.unique() && d.unique() && keep.use_count() == 3, "unify of an object holding a container of handles");
        d.reset(); d2.reset();
        for (int i = 0; i < 8; ++i) expect(g_dtor[i] == (i == 3 ? 0 : 1), "children destroyed with their last directory, except the one still held");
        keep.reset();
        expect(g_dtor[3] == 1, "last child");
    }
    else if (sc == "tree") {               // a binary tree of depth 10 released from the root, and a subtree kept alive by an outside handle
        std::vector<P> level{P(new Node())};
        P root = level[0], kept;
        for (int d = 0; d < 10; ++d) {
            std::vector<P> nxt;
            for (auto& n : level) { n->next = P(new Node()); n->other = P(new Node()); nxt.push_back(n->next); nxt.push_back(n->other); }
            if (d == 4) kept = nxt[5];
            level.swap(nxt);
        }
        level.clear();
        size_t total = g_dtor.size();
        root.reset();
        size_t dead = 0; for (size_t i = 0; i < total; ++i) { dead += g_dtor[i]; expect(g_dtor[i] <= 1, "destroyed twice"); }
        expect(dead == total - 63, "everything but the kept subtree (2^6 - 1 nodes) is destroyed");
        kept.reset();
        for (size_t i = 0; i < total; ++i) expect(g_dtor[i] == 1, "each node exactly once");
    }
    else if (sc == "empty_use_count") {    // not a nested-handle case: use_count() of an empty handle (std::shared_ptr: 0)
        P e;
        expect(!e.unique(), "unique() of an empty handle");
        expect(e.use_count() == 0, "use_count() of an empty handle is not 0");
    }
    else { printf("bad: unknown scenario\n"); return 2; }
    printf("%s\n", g_bad.empty() ? "ok" : ("bad: " + g_bad).c_str());
    return 0;
}
