// C12 correspondence harness (sequential part): replays handle-operation histories on tlx::CountingPtr over a
// counted object type; prints one line per case in the format of ocaml/C12_driver.ml, followed by the verdict of the
// property itself evaluated on the implementation's observations alone (P=ok / P=bad@step:reason).
//
// case line:  seq <kinds> <op> <op> ...     kinds = one letter per handle variable:
//     M  tlx::CountingPtr<Obj>                    (default Deleter)
//     C  tlx::CountingPtr<const Obj>              (default Deleter; the converting overloads are the M -> C ones)
//     N  tlx::CountingPtrNoDelete<Obj>            (CountingPtrNoOperationDeleter: counts like any handle, never deletes)
//     B  tlx::CountingPtr<Base>                   (default Deleter; Obj derives from Base, which is NOT its first base class, so
//                                                  the Derived* -> Base* conversions of the converting overloads adjust the pointer;
//                                                  Base has a virtual destructor; unify() through a B handle slices to a Base object)
// Handle variables live in raw storage (placement new / explicit destructor call), so that every constructor and
// the destructor are exercised as primitives.  Handles of different kinds meet on the same object through get()
// (construction from the raw pointer).  Every member of the class is exercised: the mutating ones as operations,
// the observers (get, bool, valid, empty, unique, use_count, *, ->, all comparison operators, operator<<) after every step.
#include <cstdio>
#include <cstdlib>
#include <cstring>
#include <fstream>
#include <iostream>
#include <new>
#include <set>
#include <sstream>
#include <string>
#include <type_traits>
#include <utility>
#include <vector>

#include <tlx/counting_ptr.hpp>

// ---------------------------------------------------------------- counted object type
struct Base;
struct Registry {
    std::vector<int> dcount;            // destructor calls per object id
    std::vector<const Base*> addr;      // address (of the Base subobject) per object id
    std::vector<char> is_obj;           // dynamic type is Obj (else a plain Base, made by unify() through a B handle or by N/AN on a B variable)
    std::set<const void*> live;         // addresses of live instances
    int errors = 0;
    std::string first_error;
    void err(const std::string& e) { if (!errors++) first_error = e; }
    void reset() { dcount.clear(); addr.clear(); is_obj.clear(); live.clear(); errors = 0; first_error.clear(); }
    static Registry& get() { static Registry r; return r; }
};

struct Pad { long pad[2] = {1, 2}; virtual ~Pad() {} };

struct Base : public tlx::ReferenceCounter {
    int id;
    int payload;
    int* heap; // owned, so that ASan sees a use after destruction and leaks
    void reg() {
        auto& R = Registry::get();
        id = static_cast<int>(R.dcount.size());
        R.dcount.push_back(0);
        R.addr.push_back(this);
        R.is_obj.push_back(0);
        if (!R.live.insert(this).second) R.err("construct over live object");
    }
    explicit Base(int x) : payload(x), heap(new int(x)) { reg(); }
    Base(const Base& o) : tlx::ReferenceCounter(o), payload(o.payload), heap(new int(*o.heap)) { reg(); }
    // assignment of counted objects: ReferenceCounter::operator= must leave both counts alone (the payload of this test
    // type deliberately stays, so that the model has nothing to update)
    Base& operator=(const Base& o) { tlx::ReferenceCounter::operator=(o); return *this; }
    virtual ~Base() {
        auto& R = Registry::get();
        ++R.dcount[id];
        if (!R.live.erase(this)) R.err("destructor on dead object");
        delete heap;
        heap = nullptr;
    }
};

struct Obj : public Pad, public Base {
    explicit Obj(int x) : Base(x) { Registry::get().is_obj[id] = 1; }
    Obj(const Obj& o) : Pad(o), Base(o) { Registry::get().is_obj[id] = 1; }
    Obj& operator=(const Obj& o) { Base::operator=(o); return *this; }
};

// make_counting with a throwing constructor: no handle, no object, no leak
struct Thrower : public tlx::ReferenceCounter { Thrower() { throw 1; } };

using PM = tlx::CountingPtr<Obj>;
using PC = tlx::CountingPtr<const Obj>;
using PN = tlx::CountingPtrNoDelete<Obj>;
using PB = tlx::CountingPtr<Base>;
template class tlx::CountingPtr<Base>;
template class tlx::CountingPtr<Obj>;
template class tlx::CountingPtr<const Obj>;
template class tlx::CountingPtr<Obj, tlx::CountingPtrNoOperationDeleter>;

static const int MAXV = 8;

struct Slot {
    alignas(PM) unsigned char buf[sizeof(PM)];
    bool live = false;
    template <typename T> T& as() { return *reinterpret_cast<T*>(buf); }
};
static_assert(std::is_same<tlx::counting_ptr<Obj>, PM>::value && std::is_same<tlx::reference_counter, tlx::ReferenceCounter>::value, "the std-like aliases");
static_assert(sizeof(PM) == sizeof(PC) && sizeof(PM) == sizeof(PN) && sizeof(PM) == sizeof(PB), "one pointer each");

struct Machine {
    Slot s[MAXV];
    int nv = 0;
    std::string kinds;
    std::string illtyped;
    std::vector<int> prev_handles;     // per object: handles after the previous step
    std::vector<int> orphaned;         // per object: its last handle was a no-delete handle (alive, unowned, legitimately)

    char k(long v) const { return kinds[static_cast<size_t>(v)]; }

    // f(handle&) on the variable's real type
    template <typename F> void with(long v, F f) {
        switch (k(v)) { case 'M': f(s[v].as<PM>()); break; case 'C': f(s[v].as<PC>()); break; case 'B': f(s[v].as<PB>()); break; default: f(s[v].as<PN>()); }
    }
    const Base* getp(long v) { const Base* p = nullptr; with(v, [&](auto& a) { p = a.get(); }); return p; }
    static bool conv_ok(char kv, char kw) { return kw == 'M' && (kv == 'C' || kv == 'B'); }       // CountingPtr<Subclass, same Deleter> -> CountingPtr<Type>
    static bool raw_ok(char kv, char kw) { return kw == 'M' || kw == 'N' || kv == kw; }             // w.get() converts to v's pointer type

    // returns false if the lifetime precondition fails (step skipped)
    bool apply(const std::string& n, const std::vector<long>& f) {
        long v = f[0];
        long w = f.size() > 1 ? f[1] : -1;
        auto inr = [&](long x) { return x >= 0 && x < nv; };
        auto lv = [&](long x) { return inr(x) && s[x].live; };
        bool twovar = (n == "FR" || n == "CC" || n == "XCC" || n == "MC" || n == "XMC" || n == "CA" || n == "XCA" ||
                       n == "MA" || n == "XMA" || n == "SW");
        bool ctor = (n == "N" || n == "DF" || n == "NP" || n == "FR" || n == "CC" || n == "XCC" || n == "MC" || n == "XMC" || n == "AD");
        if (n == "OA") { if (!lv(v) || !lv(w) || !getp(v) || !getp(w)) return false; }
        if (ctor) { if (!inr(v) || s[v].live) return false; if (twovar && !lv(w)) return false; }
        else { if (!lv(v)) return false; if (twovar && !lv(w)) return false; }
        auto& RG = Registry::get();
        if (n == "AD") {      // adopt the raw pointer of object #w: it must still be alive (with or without handles)
            if (w < 0 || w >= static_cast<long>(RG.addr.size()) || !RG.live.count(RG.addr[w])) return false;
            if (!RG.is_obj[w] && k(v) != 'B') { illtyped = n; return false; }
        }
        if (n == "OA") {
            bool ok = k(v) == 'B' || ((k(v) == 'M' || k(v) == 'N') && k(w) != 'B');
            if (!ok) { illtyped = n; return false; }
        }
        // typing discipline of the generator
        if (twovar) {
            bool conv = (n[0] == 'X');
            bool same = k(v) == k(w);
            bool ok = conv ? conv_ok(k(v), k(w)) : (n == "FR" ? raw_ok(k(v), k(w)) : same);
            if (!ok) { illtyped = n; return false; }
        }
        void* at = s[v].buf;
        int x = f.size() > 1 ? static_cast<int>(f[1]) : 0;
        if (n == "N") {
            if (k(v) == 'M' && x % 2) new (at) PM(tlx::make_counting<Obj>(x));
            else if (k(v) == 'B' && x % 2) new (at) PB(tlx::make_counting<Base>(x));          // a plain Base object
            else with(v, [&](auto& a) { using T = std::decay_t<decltype(a)>; new (at) T(new Obj(x)); });   // B: a Derived object owned through Base handles
        }
        else if (n == "DF") with(v, [&](auto& a) { using T = std::decay_t<decltype(a)>; new (at) T(); });
        else if (n == "NP") with(v, [&](auto& a) { using T = std::decay_t<decltype(a)>; new (at) T(nullptr); });
        else if (n == "FR") {
            if (k(w) == 'C') new (at) PC(s[w].as<PC>().get());
            else if (k(w) == 'B') new (at) PB(s[w].as<PB>().get());
            else {
                Obj* raw = k(w) == 'M' ? s[w].as<PM>().get() : s[w].as<PN>().get();
                with(v, [&](auto& a) { using T = std::decay_t<decltype(a)>; new (at) T(raw); });
            }
        }
        else if (n == "CC") with(v, [&](auto& a) { using T = std::decay_t<decltype(a)>; new (at) T(s[w].as<T>()); });
        else if (n == "AD") {
            Base* rb = const_cast<Base*>(RG.addr[w]);
            if (k(v) == 'B') new (at) PB(rb);
            else { Obj* ro = static_cast<Obj*>(rb); with(v, [&](auto& a) { using T = std::decay_t<decltype(a)>; new (at) T(ro); }); }
        }
        else if (n == "AZ") with(v, [&](auto& a) { a = nullptr; });
        else if (n == "OA") {
            if (k(v) == 'B') { const Base* src = getp(w); *s[v].as<PB>() = *src; }
            else {
                const Obj* src = k(w) == 'M' ? s[w].as<PM>().get() : k(w) == 'C' ? s[w].as<PC>().get() : s[w].as<PN>().get();
                if (k(v) == 'M') *s[v].as<PM>() = *src; else *s[v].as<PN>() = *src;
            }
        }
        else if (n == "XCC") { if (k(v) == 'C') new (at) PC(s[w].as<PM>()); else new (at) PB(s[w].as<PM>()); }
        else if (n == "MC") with(v, [&](auto& a) { using T = std::decay_t<decltype(a)>; new (at) T(std::move(s[w].as<T>())); });
        else if (n == "XMC") { if (k(v) == 'C') new (at) PC(std::move(s[w].as<PM>())); else new (at) PB(std::move(s[w].as<PM>())); }
        else if (n == "CA") with(v, [&](auto& a) { using T = std::decay_t<decltype(a)>; T& o = s[w].as<T>(); a = o; });
        else if (n == "XCA") { if (k(v) == 'C') s[v].as<PC>() = s[w].as<PM>(); else s[v].as<PB>() = s[w].as<PM>(); }
        else if (n == "MA") with(v, [&](auto& a) { using T = std::decay_t<decltype(a)>; T& o = s[w].as<T>(); a = std::move(o); });
        else if (n == "XMA") { if (k(v) == 'C') s[v].as<PC>() = std::move(s[w].as<PM>()); else s[v].as<PB>() = std::move(s[w].as<PM>()); }
        else if (n == "AN") {
            if (k(v) == 'B' && x % 2) s[v].as<PB>() = PB(new Base(x));
            else with(v, [&](auto& a) { using T = std::decay_t<decltype(a)>; a = T(new Obj(x)); });
        }
        else if (n == "R") with(v, [&](auto& a) { a.reset(); });
        else if (n == "SW") with(v, [&](auto& a) { using T = std::decay_t<decltype(a)>; T& o = s[w].as<T>(); if (v < w) swap(a, o); else a.swap(o); });
        else if (n == "U") with(v, [&](auto& a) { a.unify(); });
        else if (n == "X") with(v, [&](auto& a) { using T = std::decay_t<decltype(a)>; a.~T(); });
        else { illtyped = "unknown op " + n; return false; }
        if (ctor) s[v].live = true;
        if (n == "X") s[v].live = false;
        return true;
    }

    // observers that do not enter the printed line: they must be consistent with get()
    template <typename T> void check_observers(T& a, long v, std::string& pbad) {
        auto bad = [&](const char* m) { if (pbad.empty()) pbad = m; };
        auto* p = a.get();
        if (static_cast<bool>(a) != (p != nullptr) || a.valid() != (p != nullptr) || a.empty() != (p == nullptr)) bad("bool/valid/empty inconsistent with get()");
        if (!(a == p) || (a != p) || (a < p) || !(a <= p) || (a > p) || !(a >= p)) bad("comparison with the raw pointer inconsistent with get()");
        std::ostringstream os; os << a; std::ostringstream os2; os2 << p;
        if (os.str() != os2.str()) bad("operator<< does not print get()");
        if (p && Registry::get().live.count(p)) { if (&*a != p || a.operator->() != p) bad("operator* / operator-> inconsistent with get()"); }
        for (long w = 0; w < nv; ++w) {
            if (!s[w].live || k(w) != k(v)) continue;
            T& b = s[w].as<T>(); auto* q = b.get();
            if ((a == b) != (p == q) || (a != b) != (p != q) || (a < b) != (p < q) || (a <= b) != (p <= q) ||
                (a > b) != (p > q) || (a >= b) != (p >= q)) bad("comparison between handles inconsistent with get()");
        }
    }

    // observation + property verdict on the implementation alone; `rel` = variable whose Deleter ran in this step (-1: final clean-up of variable `relv`)
    std::string observe(std::string& pbad, long rel) {
        auto& R = Registry::get();
        std::ostringstream o;
        size_t nobj = R.dcount.size();
        std::vector<int> handles(nobj, 0);
        std::vector<long> seen_count(nobj, -1);
        prev_handles.resize(nobj, 0); orphaned.resize(nobj, 0);
        for (int v = 0; v < nv; ++v) {
            if (v) o << ',';
            if (!s[v].live) { o << '-'; continue; }
            const Base* p = getp(v);
            with(v, [&](auto& a) { check_observers(a, v, pbad); });
            if (!p) {
                bool u = false; with(v, [&](auto& a) { u = a.unique(); });
                if (u && pbad.empty()) pbad = "unique() on an empty handle";
                size_t uc0 = 1; with(v, [&](auto& a) { uc0 = a.use_count(); });       // an empty handle has no owners (87f867d)
                if (uc0 != 0 && pbad.empty()) pbad = "use_count() of an empty handle is not 0";
                o << '0';
                continue;
            }
            if (!R.live.count(p)) { o << "DANGLING"; if (pbad.empty()) pbad = "a handle remains on a destroyed object"; continue; }
            size_t uc = 0; bool u = false;
            with(v, [&](auto& a) { uc = a.use_count(); u = a.unique(); });
            if (uc != p->reference_count() && pbad.empty()) pbad = "use_count() differs from reference_count()";
            o << p->id << ':' << uc << ':' << (u ? 1 : 0) << ':' << *p->heap;
            ++handles[p->id];
            seen_count[p->id] = static_cast<long>(uc);
            if (u != (uc == 1) && pbad.empty()) pbad = "unique() disagrees with use_count()";
        }
        o << ';';
        for (size_t i = 0; i < nobj; ++i) {
            if (i) o << '.';
            o << R.dcount[i];
            bool dropped_now = prev_handles[i] > 0 && handles[i] == 0;
            bool by_nodelete = dropped_now && rel >= 0 && k(rel) == 'N';
            if (by_nodelete && R.dcount[i] == 0) orphaned[i] = 1;
            if (handles[i] > 0) orphaned[i] = 0;                 // adopted again
            if (pbad.empty()) {
                if (handles[i] > 0 && seen_count[i] != handles[i]) pbad = "use_count differs from the number of handles";
                else if (handles[i] > 0 && R.dcount[i] != 0) pbad = "object destroyed while a handle remains";
                else if (by_nodelete && R.dcount[i] != 0) pbad = "object destroyed through a no-delete handle";
                else if (handles[i] == 0 && R.dcount[i] == 0 && !orphaned[i]) pbad = "object without handles not destroyed";
                else if (handles[i] == 0 && R.dcount[i] == 0 && R.live.count(R.addr[i]) && R.addr[i]->reference_count() != 0)
                    pbad = "reference_count() of an unowned object is not zero";
                else if (R.dcount[i] > 1) pbad = "object destroyed more than once";
            }
            prev_handles[i] = handles[i];
        }
        o << ';';
        for (size_t i = 0; i < nobj; ++i) { if (i) o << '.'; o << orphaned[i]; }
        if (R.errors && pbad.empty()) pbad = R.first_error;
        return o.str();
    }
};

static void run_seq(std::istringstream& in) {
    std::string kinds; in >> kinds;
    Registry::get().reset();
    std::ostringstream out;
    std::string verdict;
    {
        Machine M; M.kinds = kinds.substr(0, MAXV); M.nv = static_cast<int>(M.kinds.size());
        for (char c : M.kinds) if (c != 'M' && c != 'C' && c != 'N' && c != 'B') M.illtyped = "kinds";
        std::string tok; int stepno = 0;
        while (M.illtyped.empty() && in >> tok) {
            std::vector<long> f; std::string name; size_t p = 0; bool first = true;
            while (p <= tok.size()) {
                size_t q = tok.find(',', p); if (q == std::string::npos) q = tok.size();
                std::string part = tok.substr(p, q - p);
                if (first) { name = part; first = false; } else f.push_back(atol(part.c_str()));
                p = q + 1;
            }
            ++stepno;
            if (!verdict.empty()) { out << "stop "; continue; }   // the property is already violated: do not run the history further (it would only crash)
            if (f.empty()) { out << "skip "; continue; }
            if (!M.apply(name, f)) { out << "skip "; continue; }
            std::string pbad;
            out << M.observe(pbad, f[0]) << ' ';
            if (!pbad.empty() && verdict.empty()) verdict = "bad@" + std::to_string(stepno) + ":" + pbad;
        }
        // end of scope: destroy what is still alive, in index order
        std::string pbad;
        std::string last;
        for (int v = 0; v < M.nv; ++v)
            if (M.s[v].live) { M.apply("X", std::vector<long>{v}); last = M.observe(pbad, v); }
        if (last.empty()) last = M.observe(pbad, -1);
        out << "F:" << last;
        if (!pbad.empty() && verdict.empty()) verdict = "bad@final:" + pbad;
        // objects left alive by a no-delete handle belong to the user: release them now
        auto& R = Registry::get();
        for (size_t i = 0; i < R.addr.size(); ++i)
            if (R.live.count(R.addr[i]) && M.orphaned[i] && R.addr[i]->reference_count() == 0) { delete R.addr[i]; --R.dcount[i]; }
        if (!R.live.empty() && verdict.empty()) verdict = "bad@final:leaked objects";
        if (!M.illtyped.empty()) out << " ILLTYPED(" << M.illtyped << ")";
    }
    out << " P=" << (verdict.empty() ? "ok" : verdict);
    std::cout << out.str() << "\n" << std::flush;
}

int main(int argc, char** argv) {
    if (argc < 2) return 2;
    {   // make_counting with a throwing constructor: the exception passes through, nothing is owned, nothing leaks (ASan)
        bool threw = false;
        try { auto p = tlx::make_counting<Thrower>(); (void)p; } catch (int) { threw = true; }
        if (!threw) { std::cout << "SELFTEST make_counting(throwing constructor) did not throw\n"; return 3; }
    }
    std::ifstream f(argv[1]);
    std::string line;
    while (std::getline(f, line)) {
        std::istringstream in(line);
        std::string kind; in >> kind;
        if (kind == "seq") run_seq(in);
        else std::cout << "?\n" << std::flush;
    }
    return 0;
}
