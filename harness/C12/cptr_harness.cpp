// C12 correspondence harness (sequential part): replays handle-operation histories on tlx::CountingPtr over a
// counted object type; prints one line per case in the format of ocaml/C12_driver.ml, followed by the verdict of the
// property itself evaluated on the implementation's observations alone (P=ok / P=bad@step:reason).
//
// Handle variables live in raw storage (placement new / explicit destructor call), so that every constructor and
// the destructor are exercised as primitives.  Variable v is a CountingPtr<Obj> when v is even and a
// CountingPtr<const Obj> when v is odd; the converting (template) overloads are the Obj -> const Obj ones.
#include <cstdio>
#include <cstdlib>
#include <cstring>
#include <fstream>
#include <iostream>
#include <new>
#include <set>
#include <sstream>
#include <string>
#include <utility>
#include <vector>

#include <tlx/counting_ptr.hpp>

// ---------------------------------------------------------------- counted object type
struct Registry {
    std::vector<int> dcount;            // destructor calls per object id
    std::set<const void*> live;         // addresses of live instances
    int errors = 0;
    std::string first_error;
    void err(const std::string& e) { if (!errors++) first_error = e; }
    void reset() { dcount.clear(); live.clear(); errors = 0; first_error.clear(); }
    static Registry& get() { static Registry r; return r; }
};

struct Obj : public tlx::ReferenceCounter {
    int id;
    int payload;
    int* heap; // owned, so that ASan sees a use after destruction and leaks
    void reg() {
        auto& R = Registry::get();
        id = static_cast<int>(R.dcount.size());
        R.dcount.push_back(0);
        if (!R.live.insert(this).second) R.err("construct over live object");
    }
    explicit Obj(int x) : payload(x), heap(new int(x)) { reg(); }
    Obj(const Obj& o) : tlx::ReferenceCounter(o), payload(o.payload), heap(new int(*o.heap)) { reg(); }
    Obj& operator=(const Obj&) = delete;
    ~Obj() {
        auto& R = Registry::get();
        ++R.dcount[id];
        if (!R.live.erase(this)) R.err("destructor on dead object");
        delete heap;
        heap = nullptr;
    }
};

using PM = tlx::CountingPtr<Obj>;
using PC = tlx::CountingPtr<const Obj>;
template class tlx::CountingPtr<Obj>;
template class tlx::CountingPtr<const Obj>;

static const int MAXV = 8;

struct Slot {
    alignas(PM) unsigned char buf[sizeof(PM) > sizeof(PC) ? sizeof(PM) : sizeof(PC)];
    bool live = false;
    PM& m() { return *reinterpret_cast<PM*>(buf); }
    PC& c() { return *reinterpret_cast<PC*>(buf); }
};

static bool is_c(long v) { return (v & 1) != 0; }

struct Machine {
    Slot s[MAXV];
    int nv = 0;
    std::string illtyped;

    const Obj* getp(int v) { return is_c(v) ? s[v].c().get() : s[v].m().get(); }

    // returns false if the lifetime precondition fails (step skipped)
    bool apply(const std::string& n, const std::vector<long>& f) {
        long v = f[0];
        long w = f.size() > 1 ? f[1] : -1;
        auto inr = [&](long x) { return x >= 0 && x < nv; };
        auto lv = [&](long x) { return inr(x) && s[x].live; };
        bool twovar = (n == "FR" || n == "CC" || n == "XCC" || n == "MC" || n == "XMC" || n == "CA" || n == "XCA" ||
                       n == "MA" || n == "XMA" || n == "SW");
        bool ctor = (n == "N" || n == "DF" || n == "NP" || n == "FR" || n == "CC" || n == "XCC" || n == "MC" || n == "XMC");
        if (ctor) { if (!inr(v) || s[v].live) return false; if (twovar && !lv(w)) return false; }
        else { if (!lv(v)) return false; if (twovar && !lv(w)) return false; }
        // typing discipline of the generator
        if (twovar) {
            bool conv = (n[0] == 'X');
            bool same = is_c(v) == is_c(w);
            bool ok = conv ? (is_c(v) && !is_c(w)) : (n == "FR" ? (same || is_c(v)) : same);
            if (!ok) { illtyped = n; return false; }
        }
        void* at = s[v].buf;
        if (n == "N") {
            if (is_c(v)) new (at) PC(new Obj(static_cast<int>(f[1])));
            else if (f[1] % 2) new (at) PM(tlx::make_counting<Obj>(static_cast<int>(f[1])));
            else new (at) PM(new Obj(static_cast<int>(f[1])));
            s[v].live = true;
        }
        else if (n == "DF") { if (is_c(v)) new (at) PC(); else new (at) PM(); s[v].live = true; }
        else if (n == "NP") { if (is_c(v)) new (at) PC(nullptr); else new (at) PM(nullptr); s[v].live = true; }
        else if (n == "FR") {
            if (is_c(v)) new (at) PC(is_c(w) ? s[w].c().get() : s[w].m().get());
            else new (at) PM(s[w].m().get());
            s[v].live = true;
        }
        else if (n == "CC") { if (is_c(v)) new (at) PC(s[w].c()); else new (at) PM(s[w].m()); s[v].live = true; }
        else if (n == "XCC") { new (at) PC(s[w].m()); s[v].live = true; }
        else if (n == "MC") { if (is_c(v)) new (at) PC(std::move(s[w].c())); else new (at) PM(std::move(s[w].m())); s[v].live = true; }
        else if (n == "XMC") { new (at) PC(std::move(s[w].m())); s[v].live = true; }
        else if (n == "CA") { if (is_c(v)) { PC& o = s[w].c(); s[v].c() = o; } else { PM& o = s[w].m(); s[v].m() = o; } }
        else if (n == "XCA") { s[v].c() = s[w].m(); }
        else if (n == "MA") { if (is_c(v)) { PC& o = s[w].c(); s[v].c() = std::move(o); } else { PM& o = s[w].m(); s[v].m() = std::move(o); } }
        else if (n == "XMA") { s[v].c() = std::move(s[w].m()); }
        else if (n == "AN") { if (is_c(v)) s[v].c() = PC(new Obj(static_cast<int>(f[1]))); else s[v].m() = PM(new Obj(static_cast<int>(f[1]))); }
        else if (n == "R") { if (is_c(v)) s[v].c().reset(); else s[v].m().reset(); }
        else if (n == "SW") {
            if (is_c(v)) { if (v < w) swap(s[v].c(), s[w].c()); else s[v].c().swap(s[w].c()); }
            else { if (v < w) swap(s[v].m(), s[w].m()); else s[v].m().swap(s[w].m()); }
        }
        else if (n == "U") { if (is_c(v)) s[v].c().unify(); else s[v].m().unify(); }
        else if (n == "X") { if (is_c(v)) s[v].c().~PC(); else s[v].m().~PM(); s[v].live = false; }
        else { illtyped = "unknown op " + n; return false; }
        return true;
    }

    // observation + property verdict on the implementation alone
    std::string observe(std::string& pbad) {
        auto& R = Registry::get();
        std::ostringstream o;
        std::vector<int> handles(R.dcount.size(), 0);
        std::vector<long> seen_count(R.dcount.size(), -1);
        for (int v = 0; v < nv; ++v) {
            if (v) o << ',';
            if (!s[v].live) { o << '-'; continue; }
            const Obj* p = getp(v);
            bool b = is_c(v) ? static_cast<bool>(s[v].c()) : static_cast<bool>(s[v].m());
            bool valid = is_c(v) ? s[v].c().valid() : s[v].m().valid();
            bool empty = is_c(v) ? s[v].c().empty() : s[v].m().empty();
            if (b != (p != nullptr) || valid != b || empty == b) { if (pbad.empty()) pbad = "bool/valid/empty inconsistent with get()"; }
            if (!p) {
                bool u = is_c(v) ? s[v].c().unique() : s[v].m().unique();
                if (u && pbad.empty()) pbad = "unique() on an empty handle";
                o << '0';
                continue;
            }
            if (!R.live.count(p)) { o << "DANGLING"; if (pbad.empty()) pbad = "a handle remains on a destroyed object"; continue; }
            size_t uc = is_c(v) ? s[v].c().use_count() : s[v].m().use_count();
            bool u = is_c(v) ? s[v].c().unique() : s[v].m().unique();
            o << p->id << ':' << uc << ':' << (u ? 1 : 0) << ':' << *p->heap;
            ++handles[p->id];
            seen_count[p->id] = static_cast<long>(uc);
            if (u != (uc == 1) && pbad.empty()) pbad = "unique() disagrees with use_count()";
        }
        o << ';';
        for (size_t i = 0; i < R.dcount.size(); ++i) {
            if (i) o << '.';
            o << R.dcount[i];
            if (pbad.empty()) {
                if (handles[i] > 0 && seen_count[i] != handles[i]) pbad = "use_count differs from the number of handles";
                else if (handles[i] > 0 && R.dcount[i] != 0) pbad = "object destroyed while a handle remains";
                else if (handles[i] == 0 && R.dcount[i] == 0) pbad = "object without handles not destroyed";
                else if (R.dcount[i] > 1) pbad = "object destroyed more than once";
            }
        }
        if (R.errors && pbad.empty()) pbad = R.first_error;
        return o.str();
    }
};

static void run_seq(std::istringstream& in) {
    int nv = 0; in >> nv;
    Registry::get().reset();
    std::ostringstream out;
    std::string verdict;
    {
        Machine M; M.nv = nv > MAXV ? MAXV : nv;
        std::string tok; int stepno = 0;
        while (in >> tok) {
            std::vector<long> f; std::string name; size_t p = 0; bool first = true;
            while (p <= tok.size()) {
                size_t q = tok.find(',', p); if (q == std::string::npos) q = tok.size();
                std::string part = tok.substr(p, q - p);
                if (first) { name = part; first = false; } else f.push_back(atol(part.c_str()));
                p = q + 1;
            }
            ++stepno;
            if (f.empty()) { out << "skip "; continue; }
            if (!M.apply(name, f)) { out << "skip "; continue; }
            std::string pbad;
            out << M.observe(pbad) << ' ';
            if (!pbad.empty() && verdict.empty()) verdict = "bad@" + std::to_string(stepno) + ":" + pbad;
        }
        // end of scope: destroy what is still alive, in index order
        for (int v = 0; v < M.nv; ++v) if (M.s[v].live) M.apply("X", std::vector<long>{v});
        std::string pbad;
        out << "F:" << M.observe(pbad);
        if (!pbad.empty() && verdict.empty()) verdict = "bad@final:" + pbad;
        if (!Registry::get().live.empty() && verdict.empty()) verdict = "bad@final:leaked objects";
        if (!M.illtyped.empty()) out << " ILLTYPED(" << M.illtyped << ")";
    }
    out << " P=" << (verdict.empty() ? "ok" : verdict);
    std::cout << out.str() << "\n" << std::flush;
}

int main(int argc, char** argv) {
    if (argc < 2) return 2;
    std::ifstream f(argv[1]);
    std::string line;
    while (std::getline(f, line)) {
        std::istringstream in(line);
        std::string kind; in >> kind;
        if (kind == "seq") run_seq(in);
        else std::cout << "?\n" << std::flush;
    }
    return 0;
}
