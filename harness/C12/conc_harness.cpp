// C12 interleaving harness: k real threads run programs over tlx::CountingPtr handles to a shared object (and to the
// clones unify() makes of it) under a deterministic scheduler.  Built with `-include harness/C12/atomic_shim.hpp`, which
// redirects std::atomic inside namespace tlx to verif::atomic: every atomic operation on
// ReferenceCounter::reference_count_ (++, --, fetch_*, load, store) is a scheduling point and is logged with the value
// it read and the object it belongs to; so are the Deleter call and the element's copy constructor (what unify() runs
// between its !unique() test and the release of the original).  For every case the scheduler enumerates the
// interleavings depth-first (all of them if fewer than the cap), or samples them.
//
// case line:   conc <cap> <mode> <prog0> <prog1> ...      mode = dfs | rand:<seed>:<count> | sched:<c0.c1.c2...>
//   program letters (thread-local vector of handles, each thread starts with one handle to object 0):
//     C copy-construct from the last handle      c copy-ASSIGN the last handle into an empty handle (+ move constructor)
//     D destroy the last handle                  r reset() the last handle      x overwrite the last handle by an empty one (move-assign)
//     U dereference the last handle (the object must be alive)
//     u unify() the last handle                  q unique(), use_count(), get, bool/valid/empty, comparisons
//     m move-construct out of the last handle and move-assign back               s swap (member and free function)
//     k converting copy constructor / copy assignment to CountingPtr<const T>, released again
//     K converting move constructor / move assignment                            n a CountingPtrNoDelete handle from get(), moved, released
//   at its end every thread destroys the handles it still has.
// stdout:      one summary line per case
// argv[2]:     one line per executed interleaving: "trace <case#> <initial handles> <events> ; dtor=<Deleter calls per object> P=<verdict> sched=<choices>"
//   events (last field = object): CS,t,o  A,t,old,o  S,t,old,o  L,t,val,o  W,t,val,o  D,t,o  G,t,u,o  U,t,o  K,t,orig,clone
//   (vocabulary of coq/C12/Conc.v; the driver projects the trace onto each object: K is EvCloneRead for the original,
//    and the clone's own life starts when its first handle exists, i.e. after its A,t,0,clone)
#include <condition_variable>
#include <cstdio>
#include <cstdlib>
#include <fstream>
#include <iostream>
#include <mutex>
#include <sstream>
#include <string>
#include <thread>
#include <vector>

#include <tlx/counting_ptr.hpp>

#include "verif_rng.hpp"

namespace verif {

enum { NOTSTARTED, WAITING, RUNNING, FINISHED };

struct ObjInfo {
    const void* lo; const void* hi;   // address range of the object (its counter lives inside)
    void* raw;                        // for the deferred release
    bool live;                        // no Deleter call yet
    int held, in_flight, dtor_calls;
};

struct Sched {
    std::mutex m;
    std::condition_variable cv;
    bool active = false;
    int n = 0;
    int current = -1;
    std::vector<int> state;
    std::vector<char> at_start;
    // log + bookkeeping, touched only by the thread that holds the baton (or by main while inactive)
    std::vector<std::string> events;
    std::vector<ObjInfo> objs;
    std::vector<int> releasing;   // per thread: object whose handle it has begun to release but not yet decremented (-1: none)
    std::string pbad;
    void flag(const std::string& s) { if (pbad.empty()) pbad = s; }
    int obj_of(const void* a) const {
        for (size_t i = 0; i < objs.size(); ++i) if (a >= objs[i].lo && a < objs[i].hi) return static_cast<int>(i);
        return -1;
    }
} S;

thread_local int tid = 0;

static void wait_turn(int t, bool start) {
    std::unique_lock<std::mutex> lk(S.m);
    S.state[t] = WAITING;
    S.at_start[t] = start;
    S.current = -1;
    S.cv.notify_all();
    S.cv.wait(lk, [&] { return S.current == t; });
}

void sched_point() {
    if (!S.active) return;
    wait_turn(tid, false);
}

void log_rmw(char kind, unsigned long old_value, const void* addr) {
    int o = S.obj_of(addr);
    if (kind == 'S' && tid >= 0 && tid < static_cast<int>(S.releasing.size()) && S.releasing[tid] == o) S.releasing[tid] = -1;
    if (o >= 0 && !S.objs[o].live && kind != 'L') S.flag("counter of a destroyed object modified");
    S.events.push_back(std::string(1, kind) + "," + std::to_string(tid) + "," + std::to_string(old_value) + "," + std::to_string(o));
}

static void log_ev(const std::string& e) { S.events.push_back(e); }

} // namespace verif

using verif::S;

struct Obj : public tlx::ReferenceCounter {
    int id;
    int payload;
    int* heap;
    void reg() {
        id = static_cast<int>(S.objs.size());
        S.objs.push_back(verif::ObjInfo{this, reinterpret_cast<const char*>(this) + sizeof(Obj), this, true, 0, 0, 0});
    }
    explicit Obj(int x) : payload(x), heap(new int(x)) { reg(); }
    // the element's copy constructor is what unify() runs between its !unique() test and the release of the original:
    // a scheduling point, logged as "K,<thread>,<original>,<clone>" (for the original object: a read through the handle)
    Obj(const Obj& o) : tlx::ReferenceCounter(o), payload(o.payload), heap(nullptr) {
        verif::sched_point();
        reg();
        verif::log_ev("K," + std::to_string(verif::tid) + "," + std::to_string(o.id) + "," + std::to_string(id));
        if (!S.objs[o.id].live) S.flag("unify() copies a destroyed object");
        heap = new int(S.objs[o.id].live ? *o.heap : 0);
        // from here on the unifying thread is releasing its handle to the original
        --S.objs[o.id].held;
        S.releasing[verif::tid] = o.id;
    }
    Obj& operator=(const Obj&) = delete;
    ~Obj() { delete heap; heap = nullptr; }
};

// The Deleter handed to CountingPtr: it COUNTS its calls per object (exactly one is allowed) and checks that no handle is
// left; the memory is released by the harness after all threads have finished, so that a second call or a late access
// to the counter is reported as a property violation with its schedule instead of crashing the process.
struct CountingDeleter {
    void operator()(const Obj* p) const noexcept {
        verif::sched_point();                      // other threads may run between the decrement and the Deleter
        verif::ObjInfo& I = S.objs[p->id];
        verif::log_ev("D," + std::to_string(verif::tid) + "," + std::to_string(p->id));
        ++I.dtor_calls;
        if (!I.live) S.flag("Deleter called twice on the same object");
        if (I.held != 0 || I.in_flight != 0) S.flag("object destroyed while a handle remains");
        for (size_t u = 0; u < S.releasing.size(); ++u)
            if (static_cast<int>(u) != verif::tid && S.releasing[u] == p->id) S.flag("object destroyed while a handle remains (its release has not decremented yet)");
        I.live = false;
    }
};
using P = tlx::CountingPtr<Obj, CountingDeleter>;
using PCc = tlx::CountingPtr<const Obj, CountingDeleter>;       // converting overloads
using PN = tlx::CountingPtrNoDelete<Obj>;                       // no-operation Deleter: counts, never deletes

static void worker(int t, const std::string* prog, P* initial) {
    verif::tid = t;
    verif::wait_turn(t, true);
    {
        std::vector<P> hs;
        hs.reserve(64);
        hs.push_back(std::move(*initial));           // move: no shared access
        std::string T = std::to_string(t);
        auto oid = [&](const P& h) { return h.get()->id; };
        auto copy_begin = [&](int o) { verif::log_ev("CS," + T + "," + std::to_string(o)); ++S.objs[o].in_flight; };
        auto copy_end = [&](int o) { --S.objs[o].in_flight; ++S.objs[o].held; };
        auto drop_begin = [&](int o) { --S.objs[o].held; S.releasing[t] = o; };
        auto drop_end = [&] { S.releasing[t] = -1; };
        for (char c : *prog) {
            if (hs.empty() || !hs.back()) break;
            int o = oid(hs.back());
            if (c == 'C') { copy_begin(o); hs.emplace_back(hs.back()); copy_end(o); }                        // copy constructor
            else if (c == 'c') { copy_begin(o); P x; x = hs.back(); copy_end(o); hs.push_back(std::move(x)); } // copy assignment, move constructor
            else if (c == 'D') { drop_begin(o); hs.pop_back(); drop_end(); }                                  // destructor
            else if (c == 'r') { drop_begin(o); hs.back().reset(); drop_end(); hs.pop_back(); }               // reset
            else if (c == 'x') { drop_begin(o); hs.back() = P(); drop_end(); hs.pop_back(); }                 // move assignment over it
            else if (c == 'U') {                                                                              // * and ->
                verif::sched_point();
                verif::log_ev("U," + T + "," + std::to_string(o));
                if (!S.objs[o].live) S.flag("use of a destroyed object through a handle");
                else if (*hs.back()->heap != (*hs.back()).payload) S.flag("payload damaged");
            }
            else if (c == 'u') {                                                                              // unify
                hs.back().unify();
                if (!hs.back()) S.flag("unify() emptied the handle");
                else if (oid(hs.back()) != o) { ++S.objs[oid(hs.back())].held; if (hs.back()->payload != 41) S.flag("unify() lost the payload"); }
                S.releasing[t] = -1;
            }
            else if (c == 'q') {                                                                              // observers
                bool u = hs.back().unique(); size_t uc = hs.back().use_count();
                if (uc < 1 || (u && !S.objs[o].live)) S.flag("use_count()/unique() on a held handle");
                const P& h = hs.back();
                if (!(h == h) || h != h || h < h || !(h <= h) || h > h || !(h >= h) || !(h == h.get()) || !h.valid() || h.empty() || !static_cast<bool>(h))
                    S.flag("observers inconsistent");
            }
            else if (c == 'm') { P y(std::move(hs.back())); if (hs.back()) S.flag("moved-from handle not empty"); hs.back() = std::move(y); }   // move ctor + move assign
            else if (c == 's') {                                                                              // swap (member and free)
                if (hs.size() >= 2) { hs.back().swap(hs[hs.size() - 2]); swap(hs.back(), hs[hs.size() - 2]); hs.back().swap(hs[hs.size() - 2]); }
                else { P e; hs.back().swap(e); hs.back().swap(e); }
            }
            else if (c == 'k') {                                                                              // converting copy constructor / copy assignment (T -> const T)
                copy_begin(o); PCc y(hs.back()); copy_end(o);
                copy_begin(o); PCc z; z = hs.back(); copy_end(o);
                drop_begin(o); y.reset(); drop_end();
                drop_begin(o); { PCc w(std::move(z)); } drop_end();
            }
            else if (c == 'K') {                                                                              // converting move constructor / move assignment
                copy_begin(o); P tmp(hs.back()); copy_end(o);
                PCc y(std::move(tmp)); if (tmp) S.flag("moved-from handle not empty");
                copy_begin(o); P tmp2(hs.back()); copy_end(o);
                PCc z; z = std::move(tmp2); if (tmp2) S.flag("moved-from handle not empty");
                drop_begin(o); y.reset(); drop_end();
                drop_begin(o); z.reset(); drop_end();
            }
            else if (c == 'n') {                                                                              // a no-delete handle on the same object
                copy_begin(o); PN x(hs.back().get()); copy_end(o);
                PN y(std::move(x)); if (x) S.flag("moved-from handle not empty");
                if (y.use_count() < 2) S.flag("a no-delete handle is not counted");
                drop_begin(o); y.reset(); drop_end();
            }
        }
        while (!hs.empty()) {
            if (hs.back()) { drop_begin(oid(hs.back())); hs.pop_back(); drop_end(); } else hs.pop_back();
        }
    }
    std::unique_lock<std::mutex> lk(S.m);
    S.state[t] = verif::FINISHED;
    S.current = -1;
    S.cv.notify_all();
}

struct RunResult { std::vector<int> taken, width; std::string trace; std::string verdict; };

// one execution under the schedule given by `prefix` (then first enabled thread), or random choices if rng != nullptr
static RunResult run_once(const std::vector<std::string>& progs, const std::vector<int>& prefix, verif::Rng* rng) {
    int n = static_cast<int>(progs.size());
    RunResult R;
    S.n = n; S.releasing.assign(n, -1); S.state.assign(n, verif::NOTSTARTED); S.at_start.assign(n, 0); S.current = -1;
    S.events.clear(); S.objs.clear(); S.pbad.clear();
    S.active = false; verif::tid = 0;
    std::vector<P> init(n);                            // empty handles
    {
        P root(new Obj(41));
        S.events.clear();                              // the model starts after the first handle exists
        S.objs[0].held = 1;
        for (int t = 1; t < n; ++t) {
            verif::log_ev("CS,0,0"); ++S.objs[0].in_flight;
            init[t] = P(root);                         // copy-construct a temporary (the increment), move it into the empty slot
            --S.objs[0].in_flight; ++S.objs[0].held;
            verif::log_ev("G,0," + std::to_string(t) + ",0");
        }
        init[0] = std::move(root);
    }
    S.active = true;
    std::vector<std::thread> th;
    for (int t = 0; t < n; ++t) th.emplace_back(worker, t, &progs[t], &init[t]);
    {
        std::unique_lock<std::mutex> lk(S.m);
        size_t step = 0;
        for (;;) {
            S.cv.wait(lk, [&] {
                for (int t = 0; t < n; ++t) if (S.state[t] == verif::NOTSTARTED || S.state[t] == verif::RUNNING) return false;
                return true;
            });
            std::vector<int> w; int starter = -1;
            for (int t = 0; t < n; ++t) if (S.state[t] == verif::WAITING) { if (S.at_start[t] && starter < 0) starter = t; w.push_back(t); }
            if (w.empty()) break;
            int pick;
            if (starter >= 0) pick = starter;             // the segment up to the first shared action is thread-local: not a choice
            else {
                int c = 0;
                if (rng) c = static_cast<int>(rng->below(w.size()));
                else if (step < prefix.size()) c = prefix[step] < static_cast<int>(w.size()) ? prefix[step] : 0;
                R.taken.push_back(c); R.width.push_back(static_cast<int>(w.size()));
                ++step;
                pick = w[c];
            }
            S.state[pick] = verif::RUNNING; S.current = pick;
            S.cv.notify_all();
        }
    }
    for (auto& t : th) t.join();
    S.active = false; verif::tid = 0;
    init.clear();
    std::ostringstream dt;
    for (size_t i = 0; i < S.objs.size(); ++i) {
        verif::ObjInfo& I = S.objs[i];
        if (I.dtor_calls == 0) S.flag("object " + std::to_string(i) + " never destroyed although every handle is gone");
        else if (I.dtor_calls > 1) S.flag("object " + std::to_string(i) + " destroyed more than once");
        if (I.held != 0 || I.in_flight != 0) S.flag("handles left at the end (object " + std::to_string(i) + ")");
        dt << (i ? "." : "") << I.dtor_calls;
        delete static_cast<Obj*>(I.raw);              // the deferred release (exactly once per object, whatever the Deleter count)
    }
    std::ostringstream o;
    for (size_t i = 0; i < S.events.size(); ++i) o << (i ? " " : "") << S.events[i];
    o << " ; dtor=" << dt.str();
    R.trace = o.str();
    R.verdict = S.pbad.empty() ? "ok" : "bad:" + S.pbad;
    return R;
}

int main(int argc, char** argv) {
    if (argc < 3) return 2;
    std::ifstream f(argv[1]);
    std::ofstream tr(argv[2]);
    std::string line; int caseno = 0;
    while (std::getline(f, line)) {
        std::istringstream in(line);
        std::string kind; in >> kind;
        if (kind != "conc") { std::cout << "?\n"; continue; }
        long cap = 0; std::string mode; in >> cap >> mode;
        std::vector<std::string> progs; std::string p;
        while (in >> p) progs.push_back(p == "-" ? std::string() : p);
        std::string hs = "1";
        for (size_t t = 1; t < progs.size(); ++t) hs += ",0";
        long runs = 0; bool exhaustive = false; std::string firstbad, badsched; size_t maxdepth = 0;
        auto emit = [&](const RunResult& R) {
            ++runs;
            tr << "trace " << caseno << " " << hs << " " << R.trace << " P=" << R.verdict << " sched=";
            for (size_t i = 0; i < R.taken.size(); ++i) tr << (i ? "." : "") << R.taken[i];
            tr << "\n";
            if (R.taken.size() > maxdepth) maxdepth = R.taken.size();
            if (R.verdict != "ok" && firstbad.empty()) {
                firstbad = R.verdict;
                std::ostringstream s; for (size_t i = 0; i < R.taken.size(); ++i) s << (i ? "." : "") << R.taken[i];
                badsched = s.str();
            }
        };
        if (mode == "dfs") {
            std::vector<int> prefix;
            for (;;) {
                RunResult R = run_once(progs, prefix, nullptr);
                emit(R);
                int i = static_cast<int>(R.taken.size()) - 1;
                while (i >= 0 && R.taken[i] + 1 >= R.width[i]) --i;
                if (i < 0) { exhaustive = true; break; }
                if (!firstbad.empty()) break;            // a violating interleaving is enough for this case
                prefix.assign(R.taken.begin(), R.taken.begin() + i);
                prefix.push_back(R.taken[i] + 1);
                if (runs >= cap) break;
            }
        }
        else if (mode.compare(0, 5, "rand:") == 0) {
            unsigned long long seed = 0; long count = 0;
            sscanf(mode.c_str() + 5, "%llu:%ld", &seed, &count);
            verif::Rng rng(seed);
            for (long k = 0; k < count && k < cap && firstbad.empty(); ++k) emit(run_once(progs, {}, &rng));
        }
        else if (mode.compare(0, 6, "sched:") == 0) {
            std::vector<int> prefix; std::string s = mode.substr(6); size_t q = 0;
            while (q < s.size()) { size_t e = s.find('.', q); if (e == std::string::npos) e = s.size(); prefix.push_back(atoi(s.substr(q, e - q).c_str())); q = e + 1; }
            emit(run_once(progs, prefix, nullptr));
        }
        std::cout << "conc case=" << caseno << " threads=" << progs.size() << " interleavings=" << runs
                  << " exhaustive=" << (exhaustive ? 1 : 0) << " depth=" << maxdepth
                  << " P=" << (firstbad.empty() ? "ok" : firstbad + " sched=" + badsched) << "\n" << std::flush;
        tr.flush();
        ++caseno;
    }
    return 0;
}
