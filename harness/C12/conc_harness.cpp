// C12 interleaving harness: k real threads copy and drop tlx::CountingPtr handles to one shared object under a
// deterministic scheduler.  Built with `-include harness/C12/atomic_shim.hpp`, which redirects std::atomic inside
// namespace tlx to verif::atomic: every ++/-- of ReferenceCounter::reference_count_ is a scheduling point and is
// logged with the value it read.  For every case the scheduler enumerates the interleavings depth-first
// (all of them if fewer than the cap), or samples them.
//
// case line:   conc <cap> <mode> <prog0> <prog1> ...      mode = dfs | rand:<seed>:<count> | sched:<c0.c1.c2...>
//   program letters (thread-local vector of handles, each thread starts with one handle):
//     C copy-construct from the last handle      c copy-ASSIGN the last handle into an empty handle
//     D destroy the last handle                  r reset() the last handle      x overwrite the last handle by an empty one (move-assign)
//     U dereference the last handle (the object must be alive)
//   at its end every thread destroys the handles it still has.
// stdout:      one summary line per case
// argv[2]:     one line per executed interleaving: "trace <case#> <initial handles> <events> ; dtor=<n> live=<0|1> P=<verdict>"
//   events: CS,t  A,t,old  S,t,old  D,t  G,t,u  U,t      (same vocabulary as coq/C12/Conc.v)
#include <condition_variable>
#include <cstdio>
#include <cstdlib>
#include <fstream>
#include <iostream>
#include <mutex>
#include <sstream>
#include <string>
#include <thread>
#include <vector>

#include <tlx/counting_ptr.hpp>

#include "verif_rng.hpp"

namespace verif {

enum { NOTSTARTED, WAITING, RUNNING, FINISHED };

struct Sched {
    std::mutex m;
    std::condition_variable cv;
    bool active = false;
    int n = 0;
    int current = -1;
    std::vector<int> state;
    std::vector<char> at_start;
    // log + bookkeeping, touched only by the thread that holds the baton (or by main while inactive)
    std::vector<std::string> events;
    int held_total = 0, in_flight = 0;
    std::vector<char> releasing;   // thread has begun to release a handle but its decrement has not happened yet
    int dtor_calls = 0;
    bool obj_live = false;
    std::string pbad;
    void flag(const std::string& s) { if (pbad.empty()) pbad = s; }
} S;

thread_local int tid = 0;

static void wait_turn(int t, bool start) {
    std::unique_lock<std::mutex> lk(S.m);
    S.state[t] = WAITING;
    S.at_start[t] = start;
    S.current = -1;
    S.cv.notify_all();
    S.cv.wait(lk, [&] { return S.current == t; });
}

void sched_point() {
    if (!S.active) return;
    wait_turn(tid, false);
}

void log_rmw(char kind, unsigned long old_value) {
    if (kind == 'S' && tid >= 0 && tid < static_cast<int>(S.releasing.size())) S.releasing[tid] = 0;
    S.events.push_back(std::string(1, kind) + "," + std::to_string(tid) + "," + std::to_string(old_value));
}

static void log_ev(const std::string& e) { S.events.push_back(e); }

} // namespace verif

using verif::S;

struct Obj : public tlx::ReferenceCounter {
    int payload;
    int* heap;
    explicit Obj(int x) : payload(x), heap(new int(x)) { S.obj_live = true; }
    Obj(const Obj&) = delete;
    ~Obj() { delete heap; heap = nullptr; }
};

// The Deleter handed to CountingPtr: it COUNTS its calls (exactly one is allowed) and checks that no handle is left;
// the memory is released by the harness after all threads have finished, so that a second call or a late access to
// the counter is reported as a property violation with its schedule instead of crashing the process.
static Obj* g_pending_free = nullptr;
struct CountingDeleter {
    void operator()(Obj* p) const noexcept {
        verif::sched_point();                      // other threads may run between the decrement and the Deleter
        verif::log_ev("D," + std::to_string(verif::tid));
        ++S.dtor_calls;
        if (!S.obj_live) S.flag("Deleter called twice on the same object");
        if (S.held_total != 0 || S.in_flight != 0) S.flag("object destroyed while a handle remains");
        for (size_t u = 0; u < S.releasing.size(); ++u)
            if (static_cast<int>(u) != verif::tid && S.releasing[u]) S.flag("object destroyed while a handle remains (its release has not decremented yet)");
        S.obj_live = false;
        g_pending_free = p;
    }
};
using P = tlx::CountingPtr<Obj, CountingDeleter>;

static void worker(int t, const std::string* prog, P* initial) {
    verif::tid = t;
    verif::wait_turn(t, true);
    {
        std::vector<P> hs;
        hs.reserve(64);
        hs.push_back(std::move(*initial));           // move: no shared access
        auto drop_begin = [&] { --S.held_total; S.releasing[t] = 1; };
        auto drop_end = [&] { S.releasing[t] = 0; };
        for (char c : *prog) {
            if (hs.empty() || !hs.back()) break;
            if (c == 'C') {
                verif::log_ev("CS," + std::to_string(t)); ++S.in_flight;
                hs.emplace_back(hs.back());
                --S.in_flight; ++S.held_total;
            }
            else if (c == 'c') {
                verif::log_ev("CS," + std::to_string(t)); ++S.in_flight;
                P x;
                x = hs.back();
                --S.in_flight; ++S.held_total;
                hs.push_back(std::move(x));
            }
            else if (c == 'D') { drop_begin(); hs.pop_back(); drop_end(); }
            else if (c == 'r') { drop_begin(); hs.back().reset(); drop_end(); hs.pop_back(); }
            else if (c == 'x') { drop_begin(); hs.back() = P(); drop_end(); hs.pop_back(); }
            else if (c == 'U') {
                verif::sched_point();
                verif::log_ev("U," + std::to_string(t));
                if (!S.obj_live) S.flag("use of a destroyed object through a handle");
                else if (*hs.back()->heap != hs.back()->payload) S.flag("payload damaged");
            }
        }
        while (!hs.empty()) { drop_begin(); hs.pop_back(); drop_end(); }
    }
    std::unique_lock<std::mutex> lk(S.m);
    S.state[t] = verif::FINISHED;
    S.current = -1;
    S.cv.notify_all();
}

struct RunResult { std::vector<int> taken, width; std::string trace; std::string verdict; };

// one execution under the schedule given by `prefix` (then first enabled thread), or random choices if rng != nullptr
static RunResult run_once(const std::vector<std::string>& progs, const std::vector<int>& prefix, verif::Rng* rng) {
    int n = static_cast<int>(progs.size());
    RunResult R;
    S.n = n; S.releasing.assign(n, 0); S.state.assign(n, verif::NOTSTARTED); S.at_start.assign(n, 0); S.current = -1;
    S.events.clear(); S.held_total = 0; S.in_flight = 0; S.dtor_calls = 0; S.obj_live = false; S.pbad.clear(); g_pending_free = nullptr;
    S.active = false; verif::tid = 0;
    std::vector<P> init(n);                            // empty handles
    {
        P root(new Obj(41));
        S.events.clear();                              // the model starts after the first handle exists
        S.held_total = 1;
        for (int t = 1; t < n; ++t) {
            verif::log_ev("CS,0"); ++S.in_flight;
            init[t] = P(root);                         // copy-construct a temporary (the increment), move it into the empty slot
            --S.in_flight; ++S.held_total;
            verif::log_ev("G,0," + std::to_string(t));
        }
        init[0] = std::move(root);
    }
    S.active = true;
    std::vector<std::thread> th;
    for (int t = 0; t < n; ++t) th.emplace_back(worker, t, &progs[t], &init[t]);
    {
        std::unique_lock<std::mutex> lk(S.m);
        size_t step = 0;
        for (;;) {
            S.cv.wait(lk, [&] {
                for (int t = 0; t < n; ++t) if (S.state[t] == verif::NOTSTARTED || S.state[t] == verif::RUNNING) return false;
                return true;
            });
            std::vector<int> w; int starter = -1;
            for (int t = 0; t < n; ++t) if (S.state[t] == verif::WAITING) { if (S.at_start[t] && starter < 0) starter = t; w.push_back(t); }
            if (w.empty()) break;
            int pick;
            if (starter >= 0) pick = starter;             // the segment up to the first shared action is thread-local: not a choice
            else {
                int c = 0;
                if (rng) c = static_cast<int>(rng->below(w.size()));
                else if (step < prefix.size()) c = prefix[step] < static_cast<int>(w.size()) ? prefix[step] : 0;
                R.taken.push_back(c); R.width.push_back(static_cast<int>(w.size()));
                ++step;
                pick = w[c];
            }
            S.state[pick] = verif::RUNNING; S.current = pick;
            S.cv.notify_all();
        }
    }
    for (auto& t : th) t.join();
    S.active = false; verif::tid = 0;
    init.clear();
    Obj* raw_obj = g_pending_free; g_pending_free = nullptr;
    if (raw_obj) delete raw_obj;                      // the deferred release (at most once, whatever the Deleter count)
    if (S.dtor_calls == 0) S.flag("object never destroyed although every handle is gone");
    else if (S.dtor_calls > 1) S.flag("object destroyed more than once");
    if (S.held_total != 0) S.flag("harness bookkeeping: handles left");
    std::ostringstream o;
    for (size_t i = 0; i < S.events.size(); ++i) o << (i ? " " : "") << S.events[i];
    o << " ; dtor=" << S.dtor_calls << " live=" << (S.obj_live ? 1 : 0);
    R.trace = o.str();
    R.verdict = S.pbad.empty() ? "ok" : "bad:" + S.pbad;
    return R;
}

int main(int argc, char** argv) {
    if (argc < 3) return 2;
    std::ifstream f(argv[1]);
    std::ofstream tr(argv[2]);
    std::string line; int caseno = 0;
    while (std::getline(f, line)) {
        std::istringstream in(line);
        std::string kind; in >> kind;
        if (kind != "conc") { std::cout << "?\n"; continue; }
        long cap = 0; std::string mode; in >> cap >> mode;
        std::vector<std::string> progs; std::string p;
        while (in >> p) progs.push_back(p == "-" ? std::string() : p);
        std::string hs = "1";
        for (size_t t = 1; t < progs.size(); ++t) hs += ",0";
        long runs = 0; bool exhaustive = false; std::string firstbad, badsched; size_t maxdepth = 0;
        auto emit = [&](const RunResult& R) {
            ++runs;
            tr << "trace " << caseno << " " << hs << " " << R.trace << " P=" << R.verdict << " sched=";
            for (size_t i = 0; i < R.taken.size(); ++i) tr << (i ? "." : "") << R.taken[i];
            tr << "\n";
            if (R.taken.size() > maxdepth) maxdepth = R.taken.size();
            if (R.verdict != "ok" && firstbad.empty()) {
                firstbad = R.verdict;
                std::ostringstream s; for (size_t i = 0; i < R.taken.size(); ++i) s << (i ? "." : "") << R.taken[i];
                badsched = s.str();
            }
        };
        if (mode == "dfs") {
            std::vector<int> prefix;
            for (;;) {
                RunResult R = run_once(progs, prefix, nullptr);
                emit(R);
                int i = static_cast<int>(R.taken.size()) - 1;
                while (i >= 0 && R.taken[i] + 1 >= R.width[i]) --i;
                if (i < 0) { exhaustive = true; break; }
                if (!firstbad.empty()) break;            // a violating interleaving is enough for this case
                prefix.assign(R.taken.begin(), R.taken.begin() + i);
                prefix.push_back(R.taken[i] + 1);
                if (runs >= cap) break;
            }
        }
        else if (mode.compare(0, 5, "rand:") == 0) {
            unsigned long long seed = 0; long count = 0;
            sscanf(mode.c_str() + 5, "%llu:%ld", &seed, &count);
            verif::Rng rng(seed);
            for (long k = 0; k < count && k < cap && firstbad.empty(); ++k) emit(run_once(progs, {}, &rng));
        }
        else if (mode.compare(0, 6, "sched:") == 0) {
            std::vector<int> prefix; std::string s = mode.substr(6); size_t q = 0;
            while (q < s.size()) { size_t e = s.find('.', q); if (e == std::string::npos) e = s.size(); prefix.push_back(atoi(s.substr(q, e - q).c_str())); q = e + 1; }
            emit(run_once(progs, prefix, nullptr));
        }
        std::cout << "conc case=" << caseno << " threads=" << progs.size() << " interleavings=" << runs
                  << " exhaustive=" << (exhaustive ? 1 : 0) << " depth=" << maxdepth
                  << " P=" << (firstbad.empty() ? "ok" : firstbad + " sched=" + badsched) << "\n" << std::flush;
        tr.flush();
        ++caseno;
    }
    return 0;
}
