// C14: exposes the file-local compression function of tlx/digest/sha512.cpp (the translation unit is the
// repository's own source file, included verbatim; link this file INSTEAD of tlx/digest/sha512.cpp).
#include <tlx/digest/sha512.cpp>

extern "C" void c14_sha512_compress(std::uint64_t* st, const std::uint8_t* blk)
{
    tlx::digest_detail::sha512_compress(st, blk);
}
