// C14 concurrency / object-independence stage. The property is about every digest object (and every siphash call)
// independently: unrelated objects used at the same time, on several threads or interleaved on one thread, must give the
// digests they give alone. Built twice on every run: ASan+UBSan and -fsanitize=thread (a scratch buffer shared between
// objects is then a reported data race even when the digests happen to come out right).
//
//   usage: threads_harness <casefile> <threads> <rounds>
//   case:  T <patternhex> <n> <chunk sizes,...> <keyhex>      message = pattern repeated to n bytes
//   output: one line per case with the SINGLE-THREADED results (checked against hashlib / SipHash-2-4 by checks/C14.py)
//             "T md5=<> sha1=<> sha256=<> sha512=<> sip=<plain>,<sse2>,<dispatch> ref=<siphash_ref.hpp>"
//           then "I ok pairs=<k>" | "I FAIL ..."     two objects of one class fed alternately, chunk by chunk, on one thread
//           then "M ok threads=<t> rounds=<r> runs=<count>" | "M FAIL wrong=<count> first: ..."
//                every thread streams its own cases (case i belongs to thread i mod t) into its own objects, <rounds> times,
//                all threads released together by a spin barrier; every result is compared with the single-threaded one.
#include <tlx/digest/md5.hpp>
#include <tlx/digest/sha1.hpp>
#include <tlx/digest/sha256.hpp>
#include <tlx/digest/sha512.hpp>
#include <tlx/siphash.hpp>

#include "siphash_ref.hpp"

#include <atomic>
#include <cstdint>
#include <cstdio>
#include <cstring>
#include <fstream>
#include <iostream>
#include <mutex>
#include <sstream>
#include <string>
#include <thread>
#include <vector>

struct Case
{
    std::vector<std::uint8_t> msg;            // exact size: an over-read past the message is an ASan report
    std::vector<size_t> sizes;
    std::uint8_t key[16];
    std::string res[4];                       // single-threaded digests
    std::uint64_t sip;
};

static int hexval(char c) { return c >= '0' && c <= '9' ? c - '0' : (c | 32) - 'a' + 10; }
static std::string hex64(std::uint64_t v) { char b[32]; std::snprintf(b, sizeof b, "%016llx", static_cast<unsigned long long>(v)); return b; }

template <typename Hsh>
static std::string one(const Case& c)
{
    Hsh h;
    size_t off = 0;
    for (size_t s : c.sizes) { h.process(c.msg.data() + off, static_cast<std::uint32_t>(s)); off += s; }
    return h.digest_hex();
}

// A and B (same class) fed alternately; A is finalised before B receives its last chunk
template <typename Hsh>
static bool interleaved(const Case& a, const Case& b, int algo, std::string& err)
{
    Hsh A, B;
    size_t oa = 0, ob = 0, ka = 0, kb = 0;
    while (ka < a.sizes.size() || kb + 1 < b.sizes.size())
    {
        if (ka < a.sizes.size()) { A.process(a.msg.data() + oa, static_cast<std::uint32_t>(a.sizes[ka])); oa += a.sizes[ka]; ++ka; }
        if (kb + 1 < b.sizes.size()) { B.process(b.msg.data() + ob, static_cast<std::uint32_t>(b.sizes[kb])); ob += b.sizes[kb]; ++kb; }
    }
    std::string da = A.digest_hex();
    if (kb < b.sizes.size()) B.process(b.msg.data() + ob, static_cast<std::uint32_t>(b.sizes[kb]));
    std::string db = B.digest_hex();
    if (da != a.res[algo]) { err = "object A got=" + da + " alone=" + a.res[algo]; return false; }
    if (db != b.res[algo]) { err = "object B got=" + db + " alone=" + b.res[algo]; return false; }
    return true;
}

int main(int argc, char** argv)
{
    if (argc < 4) return 2;
    int nthreads = std::atoi(argv[2]), rounds = std::atoi(argv[3]);
    std::ifstream in(argv[1]);
    std::vector<Case> cases; std::string line;
    while (std::getline(in, line))
    {
        std::istringstream ls(line); std::vector<std::string> t; std::string w;
        while (ls >> w) t.push_back(w);
        if (t.size() != 5 || t[0] != "T") continue;
        Case c;
        std::vector<std::uint8_t> pat;
        for (size_t i = 0; i + 1 < t[1].size(); i += 2) pat.push_back(static_cast<std::uint8_t>(hexval(t[1][i]) * 16 + hexval(t[1][i + 1])));
        size_t n = std::stoul(t[2]);
        c.msg.resize(n);
        for (size_t i = 0; i < n; ++i) c.msg[i] = pat[i % pat.size()];
        { std::istringstream cs(t[3]); std::string x; while (std::getline(cs, x, ',')) c.sizes.push_back(std::stoul(x)); }
        for (int k = 0; k < 16; ++k) c.key[k] = static_cast<std::uint8_t>(hexval(t[4][2 * k]) * 16 + hexval(t[4][2 * k + 1]));
        cases.push_back(std::move(c));
    }
    static const char* names[4] = {"md5", "sha1", "sha256", "sha512"};
    // 1. single-threaded baseline
    for (auto& c : cases)
    {
        c.res[0] = one<tlx::MD5>(c); c.res[1] = one<tlx::SHA1>(c); c.res[2] = one<tlx::SHA256>(c); c.res[3] = one<tlx::SHA512>(c);
        c.sip = tlx::siphash_plain(c.key, c.msg.data(), c.msg.size());
#if defined(__SSE2__)
        std::uint64_t s2 = tlx::siphash_sse2(c.key, c.msg.data(), c.msg.size());
#else
        std::uint64_t s2 = c.sip;
#endif
        std::cout << "T md5=" << c.res[0] << " sha1=" << c.res[1] << " sha256=" << c.res[2] << " sha512=" << c.res[3]
                  << " sip=" << hex64(c.sip) << ',' << hex64(s2) << ',' << hex64(tlx::siphash(c.key, c.msg.data(), c.msg.size()))
                  << " ref=" << hex64(c14ref::ref_siphash24(c.key, c.msg.data(), c.msg.size())) << std::endl;
    }
    // 2. two objects interleaved on one thread
    {
        size_t pairs = 0; std::string err; bool ok = true;
        for (size_t i = 0; ok && i + 1 < cases.size(); ++i)
        {
            const Case& a = cases[i]; const Case& b = cases[i + 1];
            int algo = -1;
            if (ok && !interleaved<tlx::MD5>(a, b, 0, err)) { ok = false; algo = 0; }
            if (ok && !interleaved<tlx::SHA1>(a, b, 1, err)) { ok = false; algo = 1; }
            if (ok && !interleaved<tlx::SHA256>(a, b, 2, err)) { ok = false; algo = 2; }
            if (ok && !interleaved<tlx::SHA512>(a, b, 3, err)) { ok = false; algo = 3; }
            if (!ok) std::cout << "I FAIL cases=" << i << ',' << (i + 1) << " algo=" << names[algo] << ' ' << err << std::endl;
            else ++pairs;
        }
        if (ok) std::cout << "I ok pairs=" << pairs << std::endl;
    }
    // 3. real threads
    {
        std::atomic<int> ready(0); std::atomic<bool> go(false);
        std::atomic<long> runs(0), wrong(0);
        std::mutex mu; std::string first;
        auto body = [&](int t) {
            ready.fetch_add(1);
            while (!go.load(std::memory_order_acquire)) {}
            for (int r = 0; r < rounds; ++r)
                for (size_t i = static_cast<size_t>(t); i < cases.size(); i += static_cast<size_t>(nthreads))
                {
                    const Case& c = cases[i];
                    std::string got[4] = {one<tlx::MD5>(c), one<tlx::SHA1>(c), one<tlx::SHA256>(c), one<tlx::SHA512>(c)};
                    for (int a = 0; a < 4; ++a)
                    {
                        runs.fetch_add(1);
                        if (got[a] != c.res[a])
                        {
                            wrong.fetch_add(1);
                            std::lock_guard<std::mutex> lk(mu);
                            if (first.empty())
                            {
                                std::ostringstream e;
                                e << "case=" << i << " algo=" << names[a] << " thread=" << t << " round=" << r << " got=" << got[a] << " alone=" << c.res[a];
                                first = e.str();
                            }
                        }
                    }
                    std::uint64_t s = (r & 1) ? tlx::siphash(c.key, c.msg.data(), c.msg.size()) : tlx::siphash_plain(c.key, c.msg.data(), c.msg.size());
                    runs.fetch_add(1);
                    if (s != c.sip)
                    {
                        wrong.fetch_add(1);
                        std::lock_guard<std::mutex> lk(mu);
                        if (first.empty()) first = "case=" + std::to_string(i) + " algo=siphash got=" + hex64(s) + " alone=" + hex64(c.sip);
                    }
                }
        };
        std::vector<std::thread> th;
        for (int t = 0; t < nthreads; ++t) th.emplace_back(body, t);
        while (ready.load() < nthreads) {}
        go.store(true, std::memory_order_release);
        for (auto& x : th) x.join();
        if (wrong.load() == 0) std::cout << "M ok threads=" << nthreads << " rounds=" << rounds << " runs=" << runs.load() << std::endl;
        else std::cout << "M FAIL wrong=" << wrong.load() << " of " << runs.load() << " first: " << first << std::endl;
    }
    return 0;
}
