// C14 "huge message" stage: messages of 2^32 bytes and more (size_t beyond the 32-bit range; bit counters beyond 2^35).
// The messages live in sparse anonymous MAP_NORESERVE mappings of 2^32 + 64 KiB bytes:
//   mappings 'n' and 'z': position-dependent markers (two different sets) in the first page, on either side of every 2^30
//                boundary up to 2^32 and in the last page, everything else zero (a few dozen touched pages); written once, then
//                mprotect(PROT_READ). A piece of the message read from the wrong offset therefore changes the result.
// Built WITHOUT sanitizers at -O2 (the extracted Coq model and an instrumented build are far too slow at 2^29 blocks); the
// results are judged against independent references: Python hashlib for the digests (checks/C14.py feeds it the same
// content), and for SipHash the straight-from-the-paper ref_siphash24 below, which the ordinary harness also evaluates on
// every P case where it is compared with the extracted Coq spec (siphash_ref.hpp is shared by both harnesses).
//
// Case file, one output line per case:
//   G <map> <len> <keyhex>                 -> "G plain=<> sse2=<> disp=<> ref=<>"
//   H <algo> <map> <len> <chunk sizes,...> -> "H <algo>=<digest_hex>"      (every chunk < 2^32: process() takes uint32)
//   V <algo> <map> <len> <mode>            -> "V <algo>=<digest_hex>"      the whole message as ONE tlx::string_view:
//                                             mode 0 X(view).digest_hex(), 1 X().process(view), 2 x_hex(view)
// Cases run on a pool of 3 worker threads (each on its own objects; the mappings are read-only).
#include <tlx/digest/md5.hpp>
#include <tlx/digest/sha1.hpp>
#include <tlx/digest/sha256.hpp>
#include <tlx/digest/sha512.hpp>
#include <tlx/siphash.hpp>

#include "siphash_ref.hpp"

#include <sys/mman.h>

#include <atomic>
#include <cstdint>
#include <cstdio>
#include <fstream>
#include <iostream>
#include <sstream>
#include <string>
#include <thread>
#include <vector>

static const std::uint64_t GiB4 = 1ULL << 32;
static const std::uint64_t MAP_LEN = GiB4 + 65536;

// position-dependent content: six marker regions (first page; 4096 bytes on either side of 2^30, 2^31, 3*2^30, 2^32; last page of
// the mapping), byte j of region r = (A[(r + v) % 6] * j + B[r] + 97 v) mod 256 with v = 0 for mapping 'n', 1 for mapping 'z';
// everything else reads as zero (untouched pages). The same table is in checks/C14.py (huge_content).
static const unsigned MARK_A[6] = {7, 13, 29, 37, 43, 53};
static const unsigned MARK_B[6] = {1, 5, 17, 33, 65, 129};

static std::uint8_t* make_map(unsigned v)
{
    void* p = mmap(nullptr, MAP_LEN, PROT_READ | PROT_WRITE, MAP_PRIVATE | MAP_ANONYMOUS | MAP_NORESERVE, -1, 0);
    if (p == MAP_FAILED) return nullptr;
    std::uint8_t* m = static_cast<std::uint8_t*>(p);
    const std::uint64_t G = 1ULL << 30;
    const std::uint64_t lo[6] = {0, G - 4096, 2 * G - 4096, 3 * G - 4096, 4 * G - 4096, MAP_LEN - 4096};
    const std::uint64_t hi[6] = {4096, G + 4096, 2 * G + 4096, 3 * G + 4096, 4 * G + 4096, MAP_LEN};
    for (unsigned r = 0; r < 6; ++r)
        for (std::uint64_t j = 0; j < hi[r] - lo[r]; ++j)
            m[lo[r] + j] = static_cast<std::uint8_t>(MARK_A[(r + v) % 6] * j + MARK_B[r] + 97 * v);
    mprotect(p, MAP_LEN, PROT_READ);
    return m;
}

static std::string hex64(std::uint64_t v) { char b[32]; std::snprintf(b, sizeof b, "%016llx", static_cast<unsigned long long>(v)); return b; }

template <typename Hsh>
static std::string stream(const std::uint8_t* m, const std::vector<std::uint64_t>& sizes)
{
    Hsh h;
    std::uint64_t off = 0;
    for (std::uint64_t s : sizes) { h.process(m + off, static_cast<std::uint32_t>(s)); off += s; }
    return h.digest_hex();
}

int main(int argc, char** argv)
{
    if (argc < 2) return 2;
    std::ifstream in(argv[1]);
    std::vector<std::string> lines; std::string line;
    while (std::getline(in, line)) if (!line.empty()) lines.push_back(line);
    std::uint8_t* mz = make_map(1); std::uint8_t* mn = make_map(0);
    if (!mz || !mn) { std::cout << "MMAP-FAILED (4 GiB of address space needed)" << std::endl; return 3; }
    std::vector<std::string> out(lines.size());
    std::atomic<size_t> next(0);
    auto worker = [&]() {
        for (;;)
        {
            size_t i = next.fetch_add(1);
            if (i >= lines.size()) return;
            std::istringstream ls(lines[i]); std::vector<std::string> t; std::string w;
            while (ls >> w) t.push_back(w);
            std::ostringstream os;
            if (t.size() == 4 && t[0] == "G")
            {
                const std::uint8_t* m = t[1] == "z" ? mz : mn;
                std::uint64_t len = std::stoull(t[2]);
                std::uint8_t key[16];
                for (int k = 0; k < 16; ++k) key[k] = static_cast<std::uint8_t>(std::stoul(t[3].substr(2 * k, 2), nullptr, 16));
                if (len > MAP_LEN) { os << "G too-long"; }
                else
                {
                    std::uint64_t p = tlx::siphash_plain(key, m, len);
#if defined(__SSE2__)
                    std::uint64_t s = tlx::siphash_sse2(key, m, len);
#else
                    std::uint64_t s = p;
#endif
                    std::uint64_t d = tlx::siphash(key, m, len);
                    os << "G plain=" << hex64(p) << " sse2=" << hex64(s) << " disp=" << hex64(d) << " ref=" << hex64(c14ref::ref_siphash24(key, m, len));
                }
            }
            else if (t.size() == 5 && t[0] == "H")
            {
                const std::uint8_t* m = t[2] == "z" ? mz : mn;
                std::vector<std::uint64_t> sizes; std::uint64_t tot = 0;
                { std::istringstream cs(t[4]); std::string x; while (std::getline(cs, x, ',')) { sizes.push_back(std::stoull(x)); tot += sizes.back(); } }
                bool ok = tot == std::stoull(t[3]) && tot <= MAP_LEN;
                for (std::uint64_t s : sizes) ok = ok && s < GiB4;
                if (!ok) os << "H bad-case";
                else if (t[1] == "md5") os << "H md5=" << stream<tlx::MD5>(m, sizes);
                else if (t[1] == "sha1") os << "H sha1=" << stream<tlx::SHA1>(m, sizes);
                else if (t[1] == "sha256") os << "H sha256=" << stream<tlx::SHA256>(m, sizes);
                else if (t[1] == "sha512") os << "H sha512=" << stream<tlx::SHA512>(m, sizes);
                else os << "H ?";
            }
            else if (t.size() == 5 && t[0] == "V")
            {
                const std::uint8_t* m = t[2] == "z" ? mz : mn;
                std::uint64_t len = std::stoull(t[3]); int mode = std::stoi(t[4]);
                tlx::string_view view(reinterpret_cast<const char*>(m), len);
                auto run = [&](auto tag, auto helper) {
                    typedef decltype(tag) Hsh;
                    if (mode == 0) return Hsh(view).digest_hex();
                    if (mode == 1) { Hsh h; h.process(view); return h.digest_hex(); }
                    return helper(view);
                };
                if (len > MAP_LEN) os << "V too-long";
                else if (t[1] == "md5") os << "V md5=" << run(tlx::MD5(), [](tlx::string_view v) { return tlx::md5_hex(v); });
                else if (t[1] == "sha1") os << "V sha1=" << run(tlx::SHA1(), [](tlx::string_view v) { return tlx::sha1_hex(v); });
                else if (t[1] == "sha256") os << "V sha256=" << run(tlx::SHA256(), [](tlx::string_view v) { return tlx::sha256_hex(v); });
                else if (t[1] == "sha512") os << "V sha512=" << run(tlx::SHA512(), [](tlx::string_view v) { return tlx::sha512_hex(v); });
                else os << "V ?";
            }
            else os << "?";
            out[i] = os.str();
        }
    };
    std::vector<std::thread> pool;
    for (int k = 0; k < 3; ++k) pool.emplace_back(worker);
    for (auto& th : pool) th.join();
    for (const auto& o : out) std::cout << o << '\n';
    std::cout.flush();
    return 0;
}
