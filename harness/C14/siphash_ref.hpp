// C14: SipHash-2-4 written straight from the paper (Aumasson & Bernstein 2012, section 2), independent of tlx/siphash.hpp
// and of the Coq model. Used (a) by digest_harness.cpp on every P case ("ref=", compared by checks/C14.py with the
// extracted Coq spec and with the check's own Python implementation), (b) by huge_harness.cpp / threads_harness.cpp as the
// reference where the extracted model is too slow. 64-bit length throughout.
#ifndef C14_SIPHASH_REF_HPP
#define C14_SIPHASH_REF_HPP
#include <cstdint>

namespace c14ref {

static inline std::uint64_t rotl(std::uint64_t x, int b) { return (x << b) | (x >> (64 - b)); }

static inline std::uint64_t rd64(const std::uint8_t* p)
{
    std::uint64_t v = 0;
    for (int i = 0; i < 8; ++i) v |= static_cast<std::uint64_t>(p[i]) << (8 * i);
    return v;
}

static inline std::uint64_t ref_siphash24(const std::uint8_t key[16], const std::uint8_t* m, std::uint64_t len)
{
    std::uint64_t k0 = rd64(key), k1 = rd64(key + 8);
    std::uint64_t v0 = k0 ^ 0x736f6d6570736575ULL, v1 = k1 ^ 0x646f72616e646f6dULL;
    std::uint64_t v2 = k0 ^ 0x6c7967656e657261ULL, v3 = k1 ^ 0x7465646279746573ULL;
    auto round = [&]() {
        v0 += v1; v1 = rotl(v1, 13); v1 ^= v0; v0 = rotl(v0, 32);
        v2 += v3; v3 = rotl(v3, 16); v3 ^= v2;
        v0 += v3; v3 = rotl(v3, 21); v3 ^= v0;
        v2 += v1; v1 = rotl(v1, 17); v1 ^= v2; v2 = rotl(v2, 32);
    };
    const std::uint64_t full = len / 8;
    for (std::uint64_t b = 0; b < full; ++b)
    {
        std::uint64_t w = rd64(m + 8 * b);
        v3 ^= w; round(); round(); v0 ^= w;
    }
    std::uint64_t last = (len & 0xff) << 56;
    for (std::uint64_t j = 0; j < len % 8; ++j) last |= static_cast<std::uint64_t>(m[8 * full + j]) << (8 * j);
    v3 ^= last; round(); round(); v0 ^= last;
    v2 ^= 0xff;
    round(); round(); round(); round();
    return v0 ^ v1 ^ v2 ^ v3;
}

} // namespace c14ref
#endif
