// C14: exposes the file-local compression function of tlx/digest/md5.cpp (the translation unit is the
// repository's own source file, included verbatim; link this file INSTEAD of tlx/digest/md5.cpp).
#include <tlx/digest/md5.cpp>

extern "C" void c14_md5_compress(std::uint32_t* st, const std::uint8_t* blk)
{
    tlx::digest_detail::md5_compress(st, blk);
}
