// C14: exposes the file-local compression function of tlx/digest/sha1.cpp (the translation unit is the
// repository's own source file, included verbatim; link this file INSTEAD of tlx/digest/sha1.cpp).
#include <tlx/digest/sha1.cpp>

extern "C" void c14_sha1_compress(std::uint32_t* st, const std::uint8_t* blk)
{
    tlx::digest_detail::sha1_compress(st, blk);
}
