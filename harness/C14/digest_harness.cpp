// C14 correspondence harness: replays the case file on tlx::MD5/SHA1/SHA256/SHA512 and tlx::siphash*,
// one output line per case (formats: see checks/C14.py). Compiled on every run against /repo's working tree
// with ASan+UBSan; every message / chunk / key lives in an exact-size heap block so that any over-read or
// misaligned word access of the implementation is reported.
#include <tlx/digest/md5.hpp>
#include <tlx/digest/sha1.hpp>
#include <tlx/digest/sha256.hpp>
#include <tlx/digest/sha512.hpp>
#include <tlx/siphash.hpp>

#include <cstdint>
#include <cstdio>
#include <cstring>
#include <fstream>
#include <iostream>
#include <memory>
#include <sstream>
#include <string>
#include <vector>

extern "C" {
void c14_md5_compress(std::uint32_t* st, const std::uint8_t* blk);
void c14_sha1_compress(std::uint32_t* st, const std::uint8_t* blk);
void c14_sha256_compress(std::uint32_t* st, const std::uint8_t* blk);
void c14_sha512_compress(std::uint64_t* st, const std::uint8_t* blk);
}

typedef std::vector<std::uint8_t> Bytes;

static int hexval(char c)
{
    if (c >= '0' && c <= '9') return c - '0';
    if (c >= 'a' && c <= 'f') return c - 'a' + 10;
    return c - 'A' + 10;
}
static Bytes unhex(const std::string& s)
{
    Bytes b;
    if (s == "-") return b;
    for (size_t i = 0; i + 1 < s.size(); i += 2) b.push_back(static_cast<std::uint8_t>(hexval(s[i]) * 16 + hexval(s[i + 1])));
    return b;
}
static std::string tohex(const void* p, size_t n)
{
    static const char* d = "0123456789abcdef";
    const unsigned char* c = static_cast<const unsigned char*>(p);
    std::string o;
    for (size_t i = 0; i < n; ++i) { o += d[c[i] >> 4]; o += d[c[i] & 15]; }
    return o;
}
static std::vector<std::string> split(const std::string& s, char sep)
{
    std::vector<std::string> out; std::string cur;
    for (char c : s) { if (c == sep) { out.push_back(cur); cur.clear(); } else cur += c; }
    out.push_back(cur);
    return out;
}

// exact-size heap copy (never a shared buffer: ASan red zones directly behind every chunk)
struct Exact
{
    std::unique_ptr<std::uint8_t[]> p; size_t n;
    Exact(const std::uint8_t* src, size_t len) : p(new std::uint8_t[len ? len : 1]), n(len) { if (len) std::memcpy(p.get(), src, len); }
    const std::uint8_t* data() const { return p.get(); }
    tlx::string_view sv() const { return tlx::string_view(reinterpret_cast<const char*>(p.get()), n); }
};

// variant 0: default ctor, process(ptr,size) for all chunks
// variant 1: ctor(ptr,size) on the first chunk, process(string_view) for the rest
// variant 2: ctor(string_view) on the first chunk, then alternating overloads
template <typename Hsh>
static std::unique_ptr<Hsh> feed(const std::vector<Exact>& chunks, int variant)
{
    std::unique_ptr<Hsh> h;
    size_t start = 0;
    if (variant == 0 || chunks.empty()) h.reset(new Hsh());
    else if (variant == 1) { h.reset(new Hsh(chunks[0].data(), static_cast<std::uint32_t>(chunks[0].n))); start = 1; }
    else { h.reset(new Hsh(chunks[0].sv())); start = 1; }
    for (size_t i = start; i < chunks.size(); ++i)
    {
        bool use_sv = (variant == 1) || (variant == 2 && (i & 1));
        if (use_sv) h->process(chunks[i].sv());
        else h->process(chunks[i].data(), static_cast<std::uint32_t>(chunks[i].n));
    }
    return h;
}

static std::vector<Exact> cut(const Bytes& msg, const std::vector<size_t>& sizes)
{
    std::vector<Exact> out; size_t off = 0;
    for (size_t s : sizes) { out.emplace_back(msg.data() + off, s); off += s; }
    return out;
}

template <typename Hsh>
static std::string raw_digest(const Bytes& msg, const std::vector<size_t>& sizes, int variant)
{
    auto cks = cut(msg, sizes);
    std::string d = feed<Hsh>(cks, variant)->digest();
    return tohex(d.data(), d.size());
}

template <typename Hsh, typename F1, typename F2, typename F3, typename F4>
static void digest_case(std::ostream& os, const char* name, const Bytes& msg, const std::vector<std::vector<size_t>>& chunkings,
                        F1 hex_ps, F2 hex_sv, F3 hexuc_ps, F4 hexuc_sv)
{
    Exact whole(msg.data(), msg.size());
    std::string h1 = hex_ps(whole.data(), static_cast<std::uint32_t>(whole.n)), h2 = hex_sv(whole.sv());
    std::string u1 = hexuc_ps(whole.data(), static_cast<std::uint32_t>(whole.n)), u2 = hexuc_sv(whole.sv());
    os << ' ' << name << ":h=" << h1; if (h2 != h1) os << "!=" << h2;
    os << ":H=" << u1; if (u2 != u1) os << "!=" << u2;
    for (const auto& sizes : chunkings)
    {
        auto cks = cut(msg, sizes);
        std::string raw = feed<Hsh>(cks, 0)->digest();
        // finalize(void*) into an exact-size block must give the same bytes as digest()
        std::unique_ptr<std::uint8_t[]> fin(new std::uint8_t[Hsh::kDigestLength]);
        feed<Hsh>(cks, 2)->finalize(fin.get());
        os << ':' << tohex(raw.data(), raw.size());
        if (raw.size() != Hsh::kDigestLength || std::memcmp(fin.get(), raw.data(), raw.size()) != 0)
            os << "!=finalize:" << tohex(fin.get(), Hsh::kDigestLength);
        os << ',' << feed<Hsh>(cks, 1)->digest_hex() << ',' << feed<Hsh>(cks, 2)->digest_hex_uc();
    }
}

// all k-splits (k = 2, 3) of msg through one algorithm; returns "" if all equal to the one-shot digest
template <typename Hsh>
static std::string all_splits(const Bytes& msg, int k, const char* name, long& count, std::string& oneshot)
{
    size_t n = msg.size();
    oneshot = raw_digest<Hsh>(msg, {n}, 0);
    count = 0;
    for (size_t a = 0; a <= n; ++a)
    {
        if (k == 2)
        {
            ++count;
            std::string d = raw_digest<Hsh>(msg, {a, n - a}, static_cast<int>(a % 3));
            if (d != oneshot) { std::ostringstream e; e << name << " split=" << a << ',' << (n - a) << " got=" << d; return e.str(); }
        }
        else
            for (size_t b = a; b <= n; ++b)
            {
                ++count;
                std::string d = raw_digest<Hsh>(msg, {a, b - a, n - b}, static_cast<int>((a + b) % 3));
                if (d != oneshot) { std::ostringstream e; e << name << " split=" << a << ',' << (b - a) << ',' << (n - b) << " got=" << d; return e.str(); }
            }
    }
    return "";
}

static std::string hex64(std::uint64_t v) { char b[32]; std::snprintf(b, sizeof b, "%016llx", static_cast<unsigned long long>(v)); return b; }
static std::string hex32(std::uint32_t v) { char b[32]; std::snprintf(b, sizeof b, "%08x", v); return b; }

int main(int argc, char** argv)
{
    if (argc < 2) return 2;
    std::ifstream in(argv[1]);
    std::string line;
    while (std::getline(in, line))
    {
        std::istringstream ls(line);
        std::vector<std::string> t; std::string w;
        while (ls >> w) t.push_back(w);
        std::ostringstream os;
        if (t.size() == 3 && t[0] == "D")
        {
            Bytes msg = unhex(t[1]);
            std::vector<std::vector<size_t>> chunkings;
            for (const auto& c : split(t[2], '/'))
            {
                std::vector<size_t> sizes;
                if (c != "e") for (const auto& s : split(c, ',')) sizes.push_back(static_cast<size_t>(std::stoul(s)));
                chunkings.push_back(sizes);
            }
            os << "D";
            typedef const void* P; typedef std::uint32_t U; typedef tlx::string_view SV;
            digest_case<tlx::MD5>(os, "md5", msg, chunkings, [](P p, U n) { return tlx::md5_hex(p, n); }, [](SV s) { return tlx::md5_hex(s); },
                                  [](P p, U n) { return tlx::md5_hex_uc(p, n); }, [](SV s) { return tlx::md5_hex_uc(s); });
            digest_case<tlx::SHA1>(os, "sha1", msg, chunkings, [](P p, U n) { return tlx::sha1_hex(p, n); }, [](SV s) { return tlx::sha1_hex(s); },
                                   [](P p, U n) { return tlx::sha1_hex_uc(p, n); }, [](SV s) { return tlx::sha1_hex_uc(s); });
            digest_case<tlx::SHA256>(os, "sha256", msg, chunkings, [](P p, U n) { return tlx::sha256_hex(p, n); }, [](SV s) { return tlx::sha256_hex(s); },
                                     [](P p, U n) { return tlx::sha256_hex_uc(p, n); }, [](SV s) { return tlx::sha256_hex_uc(s); });
            digest_case<tlx::SHA512>(os, "sha512", msg, chunkings, [](P p, U n) { return tlx::sha512_hex(p, n); }, [](SV s) { return tlx::sha512_hex(s); },
                                     [](P p, U n) { return tlx::sha512_hex_uc(p, n); }, [](SV s) { return tlx::sha512_hex_uc(s); });
        }
        else if (t.size() == 3 && t[0] == "S")
        {
            Bytes msg = unhex(t[1]);
            int k = std::stoi(t[2]);
            long c1 = 0, c2 = 0, c3 = 0, c4 = 0; std::string o1, o2, o3, o4;
            std::string e = all_splits<tlx::MD5>(msg, k, "md5", c1, o1);
            if (e.empty()) e = all_splits<tlx::SHA1>(msg, k, "sha1", c2, o2);
            if (e.empty()) e = all_splits<tlx::SHA256>(msg, k, "sha256", c3, o3);
            if (e.empty()) e = all_splits<tlx::SHA512>(msg, k, "sha512", c4, o4);
            if (e.empty()) os << "S ok n=" << c1 << ' ' << o1 << ' ' << o2 << ' ' << o3 << ' ' << o4;
            else os << "S FAIL " << e;
        }
        else if (t.size() == 4 && t[0] == "C")
        {
            Bytes blkb = unhex(t[3]);
            Exact blk(blkb.data(), blkb.size());
            std::vector<std::string> ws = split(t[2], ',');
            os << "C ";
            if (t[1] == "sha512")
            {
                std::uint64_t st[8];
                for (int i = 0; i < 8; ++i) st[i] = std::stoull(ws[i], nullptr, 16);
                c14_sha512_compress(st, blk.data());
                for (int i = 0; i < 8; ++i) os << (i ? "," : "") << hex64(st[i]);
            }
            else
            {
                std::uint32_t st[8]; int n = t[1] == "md5" ? 4 : t[1] == "sha1" ? 5 : 8;
                for (int i = 0; i < n; ++i) st[i] = static_cast<std::uint32_t>(std::stoul(ws[i], nullptr, 16));
                if (t[1] == "md5") c14_md5_compress(st, blk.data());
                else if (t[1] == "sha1") c14_sha1_compress(st, blk.data());
                else c14_sha256_compress(st, blk.data());
                for (int i = 0; i < n; ++i) os << (i ? "," : "") << hex32(st[i]);
            }
        }
        else if (t.size() == 5 && t[0] == "P")
        {
            Bytes key = unhex(t[1]), msg = unhex(t[2]);
            size_t am = std::stoul(t[3]) & 15, ak = std::stoul(t[4]) & 15;
            // place key and message at the requested offsets from a 16-byte aligned base, ending exactly at
            // the end of the heap block
            size_t kn = ak + key.size(), mn = am + msg.size();
            std::uint8_t* kb = static_cast<std::uint8_t*>(::operator new(kn ? kn : 1, std::align_val_t(16)));
            std::uint8_t* mb = static_cast<std::uint8_t*>(::operator new(mn ? mn : 1, std::align_val_t(16)));
            if (!key.empty()) std::memcpy(kb + ak, key.data(), key.size());
            if (!msg.empty()) std::memcpy(mb + am, msg.data(), msg.size());
            const std::uint8_t* k = kb + ak; const std::uint8_t* m = mb + am;
            std::uint64_t p = tlx::siphash_plain(k, m, msg.size());
#if defined(__SSE2__)
            std::uint64_t s = tlx::siphash_sse2(k, m, msg.size());
#else
            std::uint64_t s = p;
#endif
            std::uint64_t d = tlx::siphash(k, m, msg.size());
            os << "P plain=" << hex64(p) << " sse2=" << hex64(s) << " disp=" << hex64(d);
            static const std::uint8_t defkey[16] = {0, 1, 2, 3, 4, 5, 6, 7, 8, 9, 10, 11, 12, 13, 14, 15};
            if (key.size() == 16 && std::memcmp(key.data(), defkey, 16) == 0)
                os << " def=" << hex64(tlx::siphash(m, msg.size())) << ',' << hex64(tlx::siphash(reinterpret_cast<const char*>(m), msg.size()))
                   << ',' << hex64(tlx::siphash(tlx::string_view(reinterpret_cast<const char*>(m), msg.size())));
            ::operator delete(kb, std::align_val_t(16));
            ::operator delete(mb, std::align_val_t(16));
        }
        else
            os << "?";
        std::cout << os.str() << std::endl;
    }
    std::cout.flush();
    return 0;
}
