// C14 correspondence harness: replays the case file on tlx::MD5/SHA1/SHA256/SHA512 and tlx::siphash*,
// one output line per case (formats: see checks/C14.py). Compiled on every run against /repo's working tree
// with ASan+UBSan; every message / chunk / key lives in an exact-size heap block so that any over-read or
// misaligned word access of the implementation is reported.
#include <tlx/digest/md5.hpp>
#include <tlx/digest/sha1.hpp>
#include <tlx/digest/sha256.hpp>
#include <tlx/digest/sha512.hpp>
#include <tlx/siphash.hpp>

#include "siphash_ref.hpp"

#include <array>
#include <cstdint>
#include <cstdio>
#include <cstring>
#include <fstream>
#include <iostream>
#include <memory>
#include <sstream>
#include <string>
#include <string_view>
#include <vector>

#include <sys/mman.h>

extern "C" {
void c14_md5_compress(std::uint32_t* st, const std::uint8_t* blk);
void c14_sha1_compress(std::uint32_t* st, const std::uint8_t* blk);
void c14_sha256_compress(std::uint32_t* st, const std::uint8_t* blk);
void c14_sha512_compress(std::uint64_t* st, const std::uint8_t* blk);
}

typedef std::vector<std::uint8_t> Bytes;

static int hexval(char c)
{
    if (c >= '0' && c <= '9') return c - '0';
    if (c >= 'a' && c <= 'f') return c - 'a' + 10;
    return c - 'A' + 10;
}
static Bytes unhex(const std::string& s)
{
    Bytes b;
    if (s == "-") return b;
    for (size_t i = 0; i + 1 < s.size(); i += 2) b.push_back(static_cast<std::uint8_t>(hexval(s[i]) * 16 + hexval(s[i + 1])));
    return b;
}
static std::string tohex(const void* p, size_t n)
{
    static const char* d = "0123456789abcdef";
    const unsigned char* c = static_cast<const unsigned char*>(p);
    std::string o;
    for (size_t i = 0; i < n; ++i) { o += d[c[i] >> 4]; o += d[c[i] & 15]; }
    return o;
}
static std::vector<std::string> split(const std::string& s, char sep)
{
    std::vector<std::string> out; std::string cur;
    for (char c : s) { if (c == sep) { out.push_back(cur); cur.clear(); } else cur += c; }
    out.push_back(cur);
    return out;
}

// exact-size heap copy (never a shared buffer: ASan red zones directly behind every chunk)
struct Exact
{
    // `lead` = misalignment of the first byte from the (16-byte aligned) start of the block; the block still ends with the data
    std::unique_ptr<std::uint8_t[]> p; size_t n; size_t lead;
    Exact(const std::uint8_t* src, size_t len, size_t lead_ = 0) : p(new std::uint8_t[len + lead_ ? len + lead_ : 1]), n(len), lead(lead_)
    { if (len) std::memcpy(p.get() + lead, src, len); }
    const std::uint8_t* data() const { return p.get() + lead; }
    const char* cdata() const { return reinterpret_cast<const char*>(p.get() + lead); }
    tlx::string_view sv() const { return tlx::string_view(cdata(), n); }
    std::string str() const { return std::string(cdata(), n); }
    bool has_nul() const { return n != 0 && std::memchr(data(), 0, n) != nullptr; }
};

// SplitMix64: which overload / argument type each call uses is derived from the case's variant seed
struct Rng
{
    std::uint64_t s;
    explicit Rng(std::uint64_t seed) : s(seed) {}
    std::uint64_t next()
    {
        s += 0x9E3779B97F4A7C15ULL; std::uint64_t z = s;
        z = (z ^ (z >> 30)) * 0xBF58476D1CE4E5B9ULL; z = (z ^ (z >> 27)) * 0x94D049BB133111EBULL;
        return z ^ (z >> 31);
    }
    unsigned below(unsigned n) { return static_cast<unsigned>(next() % n); }
};

// Every public way to get bytes into a digest object (see coverage.api_surface in checks/C14.py):
//   constructors: X(), X(const void*, uint32), explicit X(tlx::string_view) reached with a tlx::string_view, a std::string,
//                 a std::string_view and a NUL-terminated const char*
//   process(const void*, uint32) (also (nullptr, 0)), process(tlx::string_view) reached with tlx::string_view (also a default
//                 constructed one), std::string lvalue / rvalue, std::string_view, const char*
//   implicit copy construction / copy assignment / move construction of a half-fed object
// seed == 0 keeps the fixed behaviour "default constructor + process(ptr, size)".
template <typename Hsh>
static std::unique_ptr<Hsh> feed(const std::vector<Exact>& chunks, std::uint64_t seed, std::unique_ptr<Hsh>* twin = nullptr)
{
    Rng r(seed * 0x2545F4914F6CDD1DULL + 12345);
    std::unique_ptr<Hsh> h;
    size_t start = 0;
    unsigned c = (seed == 0 || chunks.empty()) ? 0 : r.below(6);
    if (c == 5 && chunks[0].has_nul()) c = 1;
    switch (c)
    {
    case 0: h.reset(new Hsh()); break;
    case 1:
        if (chunks[0].n == 0 && r.below(2)) h.reset(new Hsh(static_cast<const void*>(nullptr), 0));
        else h.reset(new Hsh(chunks[0].data(), static_cast<std::uint32_t>(chunks[0].n)));
        start = 1; break;
    case 2:
        if (chunks[0].n == 0 && r.below(2)) h.reset(new Hsh(tlx::string_view()));
        else h.reset(new Hsh(chunks[0].sv()));
        start = 1; break;
    case 3: { std::string s = chunks[0].str(); h.reset(new Hsh(s)); start = 1; break; }
    case 4: { std::string_view v(chunks[0].cdata(), chunks[0].n); h.reset(new Hsh(v)); start = 1; break; }
    default: { std::string s = chunks[0].str(); h.reset(new Hsh(s.c_str())); start = 1; break; }
    }
    for (size_t i = start; i < chunks.size(); ++i)
    {
        const Exact& ck = chunks[i];
        if (seed != 0 && r.below(4) == 0)
        {
            // continue on a copy of the half-fed object
            unsigned k = r.below(3);
            if (k == 0 && twin != nullptr && !*twin)
            {
                // copy construction, and BOTH objects go on: the original (kept as the twin) receives the same remaining chunks
                std::unique_ptr<Hsh> c2(new Hsh(*h)); *twin = std::move(h); h = std::move(c2);
            }
            else if (k == 0) h.reset(new Hsh(*h));                                                  // copy construction
            else if (k == 1) { std::unique_ptr<Hsh> o(new Hsh("some other message")); *o = *h; h = std::move(o); }  // copy assignment
            else h.reset(new Hsh(std::move(*h)));                                                    // move construction
        }
        if (twin != nullptr && *twin) (*twin)->process(ck.data(), static_cast<std::uint32_t>(ck.n));
        unsigned a = seed == 0 ? 0 : r.below(7);
        if (a == 5 && ck.has_nul()) a = 0;
        if (a == 6 && ck.n != 0) a = 1;
        switch (a)
        {
        case 0: h->process(ck.data(), static_cast<std::uint32_t>(ck.n)); break;
        case 1: h->process(ck.sv()); break;
        case 2: { std::string s = ck.str(); h->process(s); break; }
        case 3: h->process(ck.str()); break;
        case 4: h->process(std::string_view(ck.cdata(), ck.n)); break;
        case 5: { std::string s = ck.str(); h->process(s.c_str()); break; }
        default:
            if (r.below(2)) h->process(static_cast<const void*>(nullptr), 0); else h->process(tlx::string_view());      // empty call
        }
    }
    return h;
}

// every chunk in its own exact-size block; with a variant seed the chunk starts 0..7 bytes off the aligned block start
// (process() must not assume any alignment of its input, in particular on the compress-straight-from-the-input path)
static std::vector<Exact> cut(const Bytes& msg, const std::vector<size_t>& sizes, std::uint64_t seed = 0)
{
    std::vector<Exact> out; size_t off = 0;
    Rng r(seed ^ 0xA5A5A5A5ULL);
    for (size_t s : sizes) { out.emplace_back(msg.data() + off, s, seed == 0 ? 0 : r.below(8)); off += s; }
    return out;
}

template <typename Hsh>
static std::string raw_digest(const Bytes& msg, const std::vector<size_t>& sizes, std::uint64_t seed)
{
    auto cks = cut(msg, sizes, seed);
    std::string d = feed<Hsh>(cks, seed)->digest();
    return tohex(d.data(), d.size());
}

// the free helper functions with every argument type they accept; all results must agree
template <typename FP, typename FS>
static std::string helper_all(const Exact& whole, FP by_ptr, FS by_sv)
{
    std::string first = by_ptr(whole.data(), static_cast<std::uint32_t>(whole.n));
    std::vector<std::string> rest;
    rest.push_back(by_sv(whole.sv()));
    { std::string s = whole.str(); rest.push_back(by_sv(s)); }
    rest.push_back(by_sv(std::string_view(whole.cdata(), whole.n)));
    if (!whole.has_nul()) { std::string s = whole.str(); rest.push_back(by_sv(s.c_str())); }
    for (const auto& x : rest) if (x != first) return first + "!=" + x;
    return first;
}

template <typename Hsh, typename F1, typename F2, typename F3, typename F4>
static void digest_case(std::ostream& os, const char* name, const Bytes& msg, const std::vector<std::vector<size_t>>& chunkings,
                        std::uint64_t variant, F1 hex_ps, F2 hex_sv, F3 hexuc_ps, F4 hexuc_sv)
{
    Exact whole(msg.data(), msg.size());
    os << ' ' << name << ":h=" << helper_all(whole, hex_ps, hex_sv) << ":H=" << helper_all(whole, hexuc_ps, hexuc_sv);
    std::uint64_t k = 0;
    for (const auto& sizes : chunkings)
    {
        std::uint64_t sd = variant == 0 ? 0 : variant * 1000 + 10 * (++k);
        auto cks = cut(msg, sizes, sd);
        std::unique_ptr<Hsh> twin;
        std::unique_ptr<Hsh> obj = feed<Hsh>(cks, sd, &twin);
        std::string raw = obj->digest();
        // finalize(void*) into an exact-size block (misaligned by sd % 8) must give the same bytes as digest()
        size_t flead = static_cast<size_t>(sd % 8);
        std::unique_ptr<std::uint8_t[]> finb(new std::uint8_t[Hsh::kDigestLength + flead]);
        std::uint8_t* fin = finb.get() + flead;
        feed<Hsh>(cks, sd + 1)->finalize(fin);
        os << ':' << tohex(raw.data(), raw.size());
        if (raw.size() != Hsh::kDigestLength || std::memcmp(fin, raw.data(), raw.size()) != 0)
            os << "!=finalize:" << tohex(fin, Hsh::kDigestLength);
        // a copy made mid-stream and its original, both fed the same remaining chunks, agree
        if (twin) { std::string t2 = twin->digest(); if (t2 != raw) os << "!=twin:" << tohex(t2.data(), t2.size()); }
        // use after finalisation is outside the property (the headers do not define it): exercised for memory errors only,
        // results ignored
        if (variant != 0)
        {
            obj->process(whole.data(), static_cast<std::uint32_t>(whole.n));
            (void)obj->digest_hex(); (void)obj->digest(); obj->process(whole.sv()); (void)obj->digest_hex_uc();
        }
        os << ',' << feed<Hsh>(cks, sd + 2)->digest_hex() << ',' << feed<Hsh>(cks, sd + 3)->digest_hex_uc();
    }
}

// all k-splits (k = 2, 3) of msg through one algorithm; returns "" if all equal to the one-shot digest
template <typename Hsh>
static std::string all_splits(const Bytes& msg, int k, const char* name, long& count, std::string& oneshot)
{
    size_t n = msg.size();
    oneshot = raw_digest<Hsh>(msg, {n}, 0);
    count = 0;
    for (size_t a = 0; a <= n; ++a)
    {
        if (k == 2)
        {
            ++count;
            std::string d = raw_digest<Hsh>(msg, {a, n - a}, a % 3 == 0 ? 0 : 7 * n + a);
            if (d != oneshot) { std::ostringstream e; e << name << " split=" << a << ',' << (n - a) << " got=" << d; return e.str(); }
        }
        else
            for (size_t b = a; b <= n; ++b)
            {
                ++count;
                std::string d = raw_digest<Hsh>(msg, {a, b - a, n - b}, (a + b) % 3 == 0 ? 0 : 131 * a + b + 1);
                if (d != oneshot) { std::ostringstream e; e << name << " split=" << a << ',' << (b - a) << ',' << (n - b) << " got=" << d; return e.str(); }
            }
    }
    return "";
}

// L case: a long message (pattern of prime period repeated), explicit chunking, one raw digest + one-shot helper per algorithm
template <typename Hsh, typename FP>
static void long_case(std::ostream& os, const char* name, const Bytes& msg, const std::vector<size_t>& sizes, std::uint64_t seed, FP hex_ps)
{
    std::string raw;
    { auto cks = cut(msg, sizes, seed); raw = feed<Hsh>(cks, seed)->digest_hex(); }
    os << ' ' << name << '=' << raw;
    std::string one = hex_ps(msg.data(), static_cast<std::uint32_t>(msg.size()));
    if (one != raw) os << "!=oneshot:" << one;
}

// Z case: n zero bytes from an anonymous mapping, fed by ONE process() call (optionally after `pre` single bytes)
template <typename Hsh>
static std::string zero_case(size_t n, size_t pre)
{
    void* p = mmap(nullptr, n, PROT_READ, MAP_PRIVATE | MAP_ANONYMOUS, -1, 0);
    if (p == MAP_FAILED) return "mmap-failed";
    Hsh h;
    const std::uint8_t* z = static_cast<const std::uint8_t*>(p);
    for (size_t i = 0; i < pre; ++i) h.process(z + i, 1);
    h.process(z + pre, static_cast<std::uint32_t>(n - pre));
    std::string r = h.digest_hex();
    munmap(p, n);
    return r;
}

static std::string hex64(std::uint64_t v) { char b[32]; std::snprintf(b, sizeof b, "%016llx", static_cast<unsigned long long>(v)); return b; }
static std::string hex32(std::uint32_t v) { char b[32]; std::snprintf(b, sizeof b, "%08x", v); return b; }

int main(int argc, char** argv)
{
    if (argc < 2) return 2;
    std::ifstream in(argv[1]);
    std::string line;
    while (std::getline(in, line))
    {
        std::istringstream ls(line);
        std::vector<std::string> t; std::string w;
        while (ls >> w) t.push_back(w);
        std::ostringstream os;
        if ((t.size() == 3 || t.size() == 4) && t[0] == "D")
        {
            Bytes msg = unhex(t[1]);
            std::uint64_t variant = t.size() == 4 ? std::stoull(t[3]) : 0;
            std::vector<std::vector<size_t>> chunkings;
            for (const auto& c : split(t[2], '/'))
            {
                std::vector<size_t> sizes;
                if (c != "e") for (const auto& s : split(c, ',')) sizes.push_back(static_cast<size_t>(std::stoul(s)));
                chunkings.push_back(sizes);
            }
            os << "D";
            typedef const void* P; typedef std::uint32_t U; typedef tlx::string_view SV;
            digest_case<tlx::MD5>(os, "md5", msg, chunkings, variant, [](P p, U n) { return tlx::md5_hex(p, n); }, [](SV s) { return tlx::md5_hex(s); },
                                  [](P p, U n) { return tlx::md5_hex_uc(p, n); }, [](SV s) { return tlx::md5_hex_uc(s); });
            digest_case<tlx::SHA1>(os, "sha1", msg, chunkings, variant, [](P p, U n) { return tlx::sha1_hex(p, n); }, [](SV s) { return tlx::sha1_hex(s); },
                                   [](P p, U n) { return tlx::sha1_hex_uc(p, n); }, [](SV s) { return tlx::sha1_hex_uc(s); });
            digest_case<tlx::SHA256>(os, "sha256", msg, chunkings, variant, [](P p, U n) { return tlx::sha256_hex(p, n); }, [](SV s) { return tlx::sha256_hex(s); },
                                     [](P p, U n) { return tlx::sha256_hex_uc(p, n); }, [](SV s) { return tlx::sha256_hex_uc(s); });
            digest_case<tlx::SHA512>(os, "sha512", msg, chunkings, variant, [](P p, U n) { return tlx::sha512_hex(p, n); }, [](SV s) { return tlx::sha512_hex(s); },
                                     [](P p, U n) { return tlx::sha512_hex_uc(p, n); }, [](SV s) { return tlx::sha512_hex_uc(s); });
        }
        else if (t.size() == 3 && t[0] == "S")
        {
            Bytes msg = unhex(t[1]);
            int k = std::stoi(t[2]);
            long c1 = 0, c2 = 0, c3 = 0, c4 = 0; std::string o1, o2, o3, o4;
            std::string e = all_splits<tlx::MD5>(msg, k, "md5", c1, o1);
            if (e.empty()) e = all_splits<tlx::SHA1>(msg, k, "sha1", c2, o2);
            if (e.empty()) e = all_splits<tlx::SHA256>(msg, k, "sha256", c3, o3);
            if (e.empty()) e = all_splits<tlx::SHA512>(msg, k, "sha512", c4, o4);
            if (e.empty()) os << "S ok n=" << c1 << ' ' << o1 << ' ' << o2 << ' ' << o3 << ' ' << o4;
            else os << "S FAIL " << e;
        }
        else if (t.size() == 4 && t[0] == "C")
        {
            Bytes blkb = unhex(t[3]);
            Exact blk(blkb.data(), blkb.size());
            std::vector<std::string> ws = split(t[2], ',');
            os << "C ";
            if (t[1] == "sha512")
            {
                std::uint64_t st[8];
                for (int i = 0; i < 8; ++i) st[i] = std::stoull(ws[i], nullptr, 16);
                c14_sha512_compress(st, blk.data());
                for (int i = 0; i < 8; ++i) os << (i ? "," : "") << hex64(st[i]);
            }
            else
            {
                std::uint32_t st[8]; int n = t[1] == "md5" ? 4 : t[1] == "sha1" ? 5 : 8;
                for (int i = 0; i < n; ++i) st[i] = static_cast<std::uint32_t>(std::stoul(ws[i], nullptr, 16));
                if (t[1] == "md5") c14_md5_compress(st, blk.data());
                else if (t[1] == "sha1") c14_sha1_compress(st, blk.data());
                else c14_sha256_compress(st, blk.data());
                for (int i = 0; i < n; ++i) os << (i ? "," : "") << hex32(st[i]);
            }
        }
        else if (t.size() == 5 && t[0] == "P")
        {
            Bytes key = unhex(t[1]), msg = unhex(t[2]);
            size_t am = std::stoul(t[3]) & 15, ak = std::stoul(t[4]) & 15;
            // place key and message at the requested offsets from a 16-byte aligned base, ending exactly at
            // the end of the heap block
            size_t kn = ak + key.size(), mn = am + msg.size();
            std::uint8_t* kb = static_cast<std::uint8_t*>(::operator new(kn ? kn : 1, std::align_val_t(16)));
            std::uint8_t* mb = static_cast<std::uint8_t*>(::operator new(mn ? mn : 1, std::align_val_t(16)));
            if (!key.empty()) std::memcpy(kb + ak, key.data(), key.size());
            if (!msg.empty()) std::memcpy(mb + am, msg.data(), msg.size());
            const std::uint8_t* k = kb + ak; const std::uint8_t* m = mb + am;
            std::uint64_t p = tlx::siphash_plain(k, m, msg.size());
#if defined(__SSE2__)
            std::uint64_t s = tlx::siphash_sse2(k, m, msg.size());
#else
            std::uint64_t s = p;
#endif
            std::uint64_t d = tlx::siphash(k, m, msg.size());
            if (msg.empty())
            {
                // an empty message may come as a null pointer (e.g. a default-constructed string_view)
                std::uint64_t d0 = tlx::siphash(k, static_cast<const std::uint8_t*>(nullptr), 0);
                std::uint64_t p0 = tlx::siphash_plain(k, static_cast<const std::uint8_t*>(nullptr), 0);
                if (d0 != d || p0 != p) d = ~d;
            }
            // ref = the harness's own straight-from-the-paper SipHash-2-4 (siphash_ref.hpp): validated here against the extracted
            // Coq spec, it is the reference of the huge-message and thread stages
            os << "P plain=" << hex64(p) << " sse2=" << hex64(s) << " disp=" << hex64(d) << " ref=" << hex64(c14ref::ref_siphash24(k, m, msg.size()));
            // default-key entry points (they ignore `key`): uint8_t*, char*, tlx::string_view, std::string, std::string_view
            {
                const char* cm = reinterpret_cast<const char*>(m);
                std::string str(cm, msg.size());
                std::string_view stdsv(cm, msg.size());
                os << " def=" << hex64(tlx::siphash(m, msg.size())) << ',' << hex64(tlx::siphash(cm, msg.size()))
                   << ',' << hex64(tlx::siphash(tlx::string_view(cm, msg.size())))
                   << ',' << hex64(tlx::siphash(str)) << ',' << hex64(tlx::siphash(stdsv));
            }
            // template <typename Type> siphash(const Type& value): the object representation of a trivially copyable value
            {
                std::string tp;
                auto arr = [&](auto a) { std::memcpy(a.data(), m, a.size()); return hex64(tlx::siphash(a)); };
                switch (msg.size())
                {
                case 1: { tp = arr(std::array<std::uint8_t, 1>()); char cv; std::memcpy(&cv, m, 1); std::uint8_t uv = m[0];
                          std::string t2 = hex64(tlx::siphash(cv)), t3 = hex64(tlx::siphash(uv)); if (t2 != tp || t3 != tp) tp += "!=" + t2 + "/" + t3; break; }
                case 2: { tp = arr(std::array<std::uint8_t, 2>()); std::uint16_t v; std::memcpy(&v, m, 2); std::string t2 = hex64(tlx::siphash(v)); if (t2 != tp) tp += "!=" + t2; break; }
                case 3: tp = arr(std::array<std::uint8_t, 3>()); break;
                case 4: { tp = arr(std::array<std::uint8_t, 4>()); std::uint32_t v; std::memcpy(&v, m, 4); std::string t2 = hex64(tlx::siphash(v)); if (t2 != tp) tp += "!=" + t2; break; }
                case 8: { tp = arr(std::array<std::uint8_t, 8>()); std::uint64_t v; std::memcpy(&v, m, 8); std::string t2 = hex64(tlx::siphash(v)); if (t2 != tp) tp += "!=" + t2; break; }
                case 12: tp = arr(std::array<std::uint8_t, 12>()); break;
                case 16: tp = arr(std::array<std::uint8_t, 16>()); break;
                case 32: tp = arr(std::array<std::uint8_t, 32>()); break;
                default: break;
                }
                if (!tp.empty()) os << " tpl=" << tp;
            }
            ::operator delete(kb, std::align_val_t(16));
            ::operator delete(mb, std::align_val_t(16));
        }
        else if (t.size() == 6 && t[0] == "L")
        {
            // L <patternhex> <n> <chunking> <variant seed> <model flag>
            Bytes pat = unhex(t[1]);
            size_t n = std::stoul(t[2]);
            Bytes msg(n);
            for (size_t i = 0; i < n; ++i) msg[i] = pat[i % pat.size()];
            std::vector<size_t> sizes;
            for (const auto& x : split(t[3], ',')) sizes.push_back(static_cast<size_t>(std::stoul(x)));
            std::uint64_t seed = std::stoull(t[4]);
            typedef const void* P; typedef std::uint32_t U;
            os << "L";
            long_case<tlx::MD5>(os, "md5", msg, sizes, seed, [](P p, U k) { return tlx::md5_hex(p, k); });
            long_case<tlx::SHA1>(os, "sha1", msg, sizes, seed + 1, [](P p, U k) { return tlx::sha1_hex(p, k); });
            long_case<tlx::SHA256>(os, "sha256", msg, sizes, seed + 2, [](P p, U k) { return tlx::sha256_hex(p, k); });
            long_case<tlx::SHA512>(os, "sha512", msg, sizes, seed + 3, [](P p, U k) { return tlx::sha512_hex(p, k); });
        }
        else if (t.size() == 4 && t[0] == "Z")
        {
            // Z <n> <pre> <algo,algo,...>
            size_t n = std::stoul(t[1]), pre = std::stoul(t[2]);
            os << "Z";
            for (const auto& a : split(t[3], ','))
            {
                if (a == "md5") os << " md5=" << zero_case<tlx::MD5>(n, pre);
                else if (a == "sha1") os << " sha1=" << zero_case<tlx::SHA1>(n, pre);
                else if (a == "sha256") os << " sha256=" << zero_case<tlx::SHA256>(n, pre);
                else if (a == "sha512") os << " sha512=" << zero_case<tlx::SHA512>(n, pre);
            }
        }
        else
            os << "?";
        std::cout << os.str() << std::endl;
    }
    std::cout.flush();
    return 0;
}
