// C14: exposes the file-local compression function of tlx/digest/sha256.cpp (the translation unit is the
// repository's own source file, included verbatim; link this file INSTEAD of tlx/digest/sha256.cpp).
#include <tlx/digest/sha256.cpp>

extern "C" void c14_sha256_compress(std::uint32_t* st, const std::uint8_t* blk)
{
    tlx::sha256_compress(st, blk);
}
