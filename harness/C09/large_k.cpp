// C09: large numbers of players (k_ = round_up_to_power_of_two(k) >= 2^16), copy trees over int keys, and a direct tie of
// round_up_to_power_of_two against its specification around every power of two.
// The extracted Coq model (Peano/list arrays) is too slow at these k, so every reported winner is judged here directly against
// the property: a live player whose key no live player's key is less than; stable classes: the smallest such index.
// Output: one line per (class, k, history): "<class> k=<k> <history>: ok" or "... FAIL ...";
//         then lines "rup2 <k> <round_up_to_power_of_two(k)>" for the check script to compare with 2^ceil(log2 k).
#include <tlx/container/loser_tree.hpp>
#include <tlx/math/round_to_power_of_two.hpp>

#include <cstdint>
#include <cstdio>
#include <string>
#include <vector>

using Seqs = std::vector<std::vector<int> >;

//! the property, checked directly; -1 = no live player
static long expected_stable(const Seqs& q, const std::vector<size_t>& pos) {
    long best = -1;
    for (size_t i = 0; i < q.size(); ++i) {
        if (pos[i] >= q[i].size()) continue;
        if (best < 0 || q[i][pos[i]] < q[best][pos[best]]) best = static_cast<long>(i);
    }
    return best;
}

template <typename LT>
static std::string run(LT& lt, const Seqs& q, bool guarded, bool stable, int steps) {
    using Source = typename LT::Source;
    const Source k = static_cast<Source>(q.size());
    std::vector<size_t> pos(k, 0);
    for (Source i = 0; i < k; ++i) {
        if (q[i].empty()) lt.insert_start(nullptr, i, true);
        else lt.insert_start(&q[i][0], i, false);
    }
    lt.init();
    for (int n = 0; n <= steps; ++n) {
        const long e = expected_stable(q, pos);
        if (e < 0) return "ok";
        const Source s = lt.min_source();
        if (s >= k || pos[s] >= q[s].size()) return "FAIL step " + std::to_string(n) + ": reported " + std::to_string(s) + " is not a live player";
        if (q[e][pos[e]] < q[s][pos[s]]) return "FAIL step " + std::to_string(n) + ": reported " + std::to_string(s) + " does not hold a minimum (player " + std::to_string(e) + " does)";
        if (stable && static_cast<long>(s) != e) return "FAIL step " + std::to_string(n) + ": reported " + std::to_string(s) + ", smallest index with an equivalent key is " + std::to_string(e);
        ++pos[s];
        if (pos[s] < q[s].size()) lt.delete_min_insert(&q[s][pos[s]], false);
        else if (guarded) lt.delete_min_insert(nullptr, true);
        else return "ok";
    }
    return "ok";
}

template <bool Stable>
static void both(unsigned k, const char* hname, const Seqs& qg, const Seqs& qu, int sentinel) {
    { tlx::LoserTreeCopy<Stable, int> lt(k);
      std::printf("C-G-%c k=%u %s: %s\n", Stable ? 'S' : 'N', k, hname, run(lt, qg, true, Stable, 12).c_str()); }
    { tlx::LoserTreeCopyUnguarded<Stable, int> lt(k, sentinel);
      std::printf("C-U-%c k=%u %s: %s\n", Stable ? 'S' : 'N', k, hname, run(lt, qu, false, Stable, 12).c_str()); }
    { tlx::LoserTreePointer<Stable, int> lt(k);
      std::printf("P-G-%c k=%u %s: %s\n", Stable ? 'S' : 'N', k, hname, run(lt, qg, true, Stable, 12).c_str()); }
}

int main() {
    const unsigned ks[] = { 65536u, 65537u, 70000u, 131073u };
    for (unsigned k : ks) {
        // history 1: all keys equal (the stable classes must report player 0, then 0 again, ...)
        Seqs eq(k, std::vector<int>{ 5, 5, 5 });
        both<true>(k, "all-equal", eq, eq, 5);
        both<false>(k, "all-equal", eq, eq, 5);
        // history 2: descending first keys (the last player wins), every third player exhausted from the start (guarded)
        Seqs dg(k), du(k);
        for (unsigned i = 0; i < k; ++i) {
            const int a = static_cast<int>(k - i);
            du[i] = { a, a + 1, static_cast<int>(2 * k) };
            if (i % 3 != 0) dg[i] = { a, a + 1 };
        }
        both<true>(k, "descending", dg, du, static_cast<int>(2 * k));
        both<false>(k, "descending", dg, du, static_cast<int>(2 * k));
    }
    // round_up_to_power_of_two (unsigned int overload, the one the trees use for Source) around every power of two up to 2^31
    for (unsigned j = 1; j <= 31; ++j) {
        const unsigned p = 1u << j;
        const unsigned around[] = { p - 1, p, p + 1 };
        for (unsigned x : around) {
            if (x > (1u << 31)) continue;                     // beyond 2^31 the result does not fit (known finding players-above-2^30)
            std::printf("rup2 %u %u\n", x, tlx::round_up_to_power_of_two(x));
        }
    }
    const unsigned more[] = { 3u, 5u, 6u, 7u, 65535u, 65537u, 70000u, 100000u, 131073u, 1000000u, (1u << 24) + 12345u, (1u << 30) + 1u };
    for (unsigned x : more) std::printf("rup2 %u %u\n", x, tlx::round_up_to_power_of_two(x));
    return 0;
}
