// C09 harness: drives the loser tree classes of tlx/container/loser_tree.hpp through the caller protocol of the
// model (coq/C09/LoserTree.v [drive], coq/C09/Spec.v [drive_g]) and prints the sequence of min_source() values.
//
// Case line:  <class>[:<elem>:<cmp>:<via>[:<store>[:<extra>]]] <sentinel> [o=<i>,<i>,...] <seq> <seq> ...   with <seq> = "-" (empty) or "k,k,k"
//   o=...   = order of the insert_start calls (every player index at least once; default 0, 1, 2, ...).  A player listed more
//             than once is RE-REGISTERED: guarded classes register it as exhausted (nullptr, sup) on all but its last
//             occurrence and with its key on the last one; unguarded classes register its key every time.
//   m=<n>,<n>,... (optional token after the sentinel, like o=) = MOVE POINTS: the points of the history are numbered 0 (before the
//             first insert_start), 1.. (after each insert_start), then after init(), then after each delete_min_insert; at each
//             listed point the tree is move-constructed into a fresh object, the old object is destroyed and the run continues with
//             the new one (classes that are not move-constructible on this tree - see `lt_harness --traits` - ignore it)
//   rk+ / rk- = ByRank: comparator owning heap state (ascending / descending); its destructor poisons and frees the state
//   <extra> = decimal bit mask: 8 = REUSE: after the run the SAME tree object is used a second time - every player is registered
//             again (player i now gets the sequence of player i+1, cyclically: other keys, other exhausted players), init(), second
//             run; the output is "<first run> | <second run>", the model simply makes two fresh runs; 4 = the comparator handed to the constructor is a TEMPORARY copy that dies (destructor: state
//             poisoned) before the tree is used - the tree must have copied it; 1 = init() is called twice in a row; 2 = guarded classes: after the run (no live player left)
//             delete_min_insert(nullptr, true) + min_source() are called three more times (must not crash; results unspecified)
//   class letter W (unstable unguarded classes only) = V, except that "beats the sentinel" means "is not greater than it" (as for
//             the stable classes) instead of "is strictly less": the regime of a real minimum equivalent to the padding key
//   <class> = <P|C><G|U|V><S|N>   pointer/copy, guarded/unguarded/unguarded-any-keys, stable/unstable
//             (V: keys may exceed the sentinel, the tree is consulted only while some current key beats it, as
//              multiway_merge_loser_tree_combined does)
//   <elem>  = e1 | e8 | e16 | e17 | e24   ValueType of that many bytes (default e8); 1, 8, 16 bytes make the
//             LoserTree / LoserTreeUnguarded switch pick the copy classes, 17 and 24 bytes the pointer classes
//   <cmp>   = lt | gt | rk+ | rk- | df    KeyLess, KeyGreater, stateful comparator object (ascending / descending; a
//             default-constructed one is deliberately useless), df = the class's default template argument
//             std::less<ValueType> and the constructor's default comparator argument
//   <via>   = d | s | m                   class named directly / through the tlx::LoserTree<> or tlx::LoserTreeUnguarded<>
//             switch alias (the P|C letter is then only a hint) / directly and then move-constructed (PG classes)
//   <store> = p | l | t                   where the keys handed to insert_start / delete_min_insert live:
//             p = each key in its own storage (pointers into the sequences, as multiway_merge does; default);
//             l = ONE slot per player: the winner's next key is written into its slot and the same address is passed again
//                 (a caller feeding from streams; legitimate for all classes, the pointer classes keep &slot[i]);
//             t = a heap temporary that is freed right after the call (copy classes only: they must have copied the key;
//                 a retained pointer is a heap-use-after-free under ASan)
// Output: one line per case, sources separated by blanks, invalid_ printed as "-"; "?..." for a malformed case.
#include <tlx/container/loser_tree.hpp>

#include <cstdint>
#include <cstdio>
#include <cstdlib>
#include <fstream>
#include <functional>
#include <iostream>
#include <memory>
#include <sstream>
#include <string>
#include <type_traits>
#include <utility>
#include <vector>

// ------------------------------------------------------------------------------------------------ element types
struct E1 {
    std::uint8_t key = 0;
    E1() = default;
    E1(long k, int) : key(static_cast<std::uint8_t>(k)) {}
};
struct E8 {
    std::int32_t key = 0;
    std::int32_t payload = 0;
    E8() = default;
    E8(long k, int p) : key(static_cast<std::int32_t>(k)), payload(p) {}
};
struct E16 {
    std::int64_t key = 0;
    std::int64_t payload = 0;
    E16() = default;
    E16(long k, int p) : key(k), payload(p) {}
};
struct __attribute__((packed)) E17 {
    std::int32_t key = 0;
    char pad[13] = { 0 };
    E17() = default;
    E17(long k, int p) : key(static_cast<std::int32_t>(k)) { pad[0] = static_cast<char>(p); }
};
struct E24 {
    std::int64_t key = 0;
    std::int64_t a = 0, b = 0;
    E24() = default;
    E24(long k, int p) : key(k), a(p), b(~static_cast<std::int64_t>(p)) {}
};
static_assert(sizeof(E1) == 1 && sizeof(E8) == 8 && sizeof(E16) == 16 && sizeof(E17) == 17 && sizeof(E24) == 24, "element sizes");

template <typename T>
static long key_of(const T& x) { return static_cast<long>(x.key); }
// operator< for the default comparator std::less<ValueType>
static bool operator<(const E1& a, const E1& b) { return key_of(a) < key_of(b); }
static bool operator<(const E8& a, const E8& b) { return key_of(a) < key_of(b); }
static bool operator<(const E16& a, const E16& b) { return key_of(a) < key_of(b); }
static bool operator<(const E17& a, const E17& b) { return key_of(a) < key_of(b); }
static bool operator<(const E24& a, const E24& b) { return key_of(a) < key_of(b); }

// ------------------------------------------------------------------------------------------------ comparators
template <typename T>
struct KeyLess {
    bool operator()(const T& a, const T& b) const { return key_of(a) < key_of(b); }
};
template <typename T>
struct KeyGreater {
    bool operator()(const T& a, const T& b) const { return key_of(b) < key_of(a); }
};
//! comparator owning heap state: direction flag on the heap; copies are deep; the destructor poisons the state and frees it,
//! so a tree that merely kept a reference / shallow copy of a dead comparator compares wrongly even without ASan
template <typename T>
struct ByRank {
    int* dir;
    ByRank() : dir(new int(0)) {}
    explicit ByRank(int d) : dir(new int(d)) {}
    ByRank(const ByRank& o) : dir(new int(*o.dir)) {}
    ByRank& operator=(const ByRank& o) { *dir = *o.dir; return *this; }
    ~ByRank() { *dir = 0; delete dir; }
    bool operator()(const T& a, const T& b) const {
        const int d = *dir;
        if (d > 0) return key_of(a) < key_of(b);
        if (d < 0) return key_of(b) < key_of(a);
        return false;
    }
};

//! order of the insert_start calls of the current case
static std::vector<size_t> g_order;
//! <extra> bit mask of the current case
static int g_extra = 0;
//! move points of the current case
static std::vector<size_t> g_moves;

//! the tree under test lives on the heap so that it can be move-constructed into a fresh object at any point of the history
template <typename LT>
struct Holder {
    std::unique_ptr<LT> p;
    size_t step = 0;
    explicit Holder(std::unique_ptr<LT> q) : p(std::move(q)) {}
    LT* operator->() { return p.get(); }
    //! a point of the history: move the tree if the case says so
    void point() {
        for (size_t m : g_moves) {
            if (m != step) continue;
            if constexpr (std::is_move_constructible<LT>::value) {
                std::unique_ptr<LT> fresh(new LT(std::move(*p)));
                p = std::move(fresh);                     // destroys the moved-from tree
            }
            break;
        }
        ++step;
    }
};

//! is position n of g_order the last registration of that player?
static bool last_registration(size_t n) {
    for (size_t m = n + 1; m < g_order.size(); ++m) if (g_order[m] == g_order[n]) return false;
    return true;
}

// ------------------------------------------------------------------------------------------------ key storage
template <typename T>
struct Feed {
    char store;
    const std::vector<std::vector<T> >& seqs;
    std::vector<T> slots;
    T* tmp = nullptr;
    Feed(char st, const std::vector<std::vector<T> >& sq) : store(st), seqs(sq), slots(sq.size()) {}
    Feed(const Feed&) = delete;
    ~Feed() { delete tmp; }
    //! address to hand to the tree for player i's key number pos
    const T* key(size_t i, size_t pos) {
        if (store == 'l') { slots[i] = seqs[i][pos]; return &slots[i]; }
        if (store == 't') { delete tmp; tmp = new T(seqs[i][pos]); return tmp; }
        return &seqs[i][pos];
    }
    //! after the call returned: the temporary dies
    void done() { if (store == 't') { delete tmp; tmp = nullptr; } }
};

// ------------------------------------------------------------------------------------------------ caller loops
template <typename LT, typename T>
static void drive(Holder<LT>& lt, const std::vector<std::vector<T> >& seqs, bool guarded, char store, std::string& out) {
    using Source = typename LT::Source;
    const Source k = static_cast<Source>(seqs.size());
    std::vector<size_t> pos(k, 0);
    Feed<T> feed(store, seqs);
    lt.point();
    for (size_t n = 0; n < g_order.size(); ++n) {
        const Source i = static_cast<Source>(g_order[n]);
        if (seqs[i].empty() || (guarded && !last_registration(n)))
            lt->insert_start(nullptr, i, true);
        else {
            lt->insert_start(feed.key(i, 0), i, false);
            feed.done();
        }
        lt.point();
    }
    lt->init();
    if (g_extra & 1) lt->init();
    lt.point();
    for (;;) {
        Source s = lt->min_source();
        if (!out.empty()) out += ' ';
        if (s == LT::invalid_) out += '-'; else out += std::to_string(s);
        if (s >= k || pos[s] >= seqs[s].size()) break;   // reported player has no current key
        ++pos[s];
        if (pos[s] < seqs[s].size()) {
            lt->delete_min_insert(feed.key(s, pos[s]), false);
            feed.done();
        }
        else if (guarded)
            lt->delete_min_insert(nullptr, true);
        else
            break;                                        // unguarded: a player must never run empty
        lt.point();
    }
    if (guarded && (g_extra & 2)) {
        // more replace operations than there are keys: no live player is left, the answers are unspecified
        for (int n = 0; n < 3; ++n) {
            lt->delete_min_insert(nullptr, true);
            volatile Source s = lt->min_source();
            (void)s;
        }
    }
}

// unguarded tree, arbitrary keys: stop as soon as no current key beats the sentinel
template <typename LT, typename T, typename Cmp>
static void drive_general(Holder<LT>& lt, const std::vector<std::vector<T> >& seqs, const T& sentinel, const Cmp& less,
                          bool stable, char store, std::string& out) {
    using Source = typename LT::Source;
    const Source k = static_cast<Source>(seqs.size());
    std::vector<size_t> pos(k, 0);
    Feed<T> feed(store, seqs);
    lt.point();
    for (size_t n = 0; n < g_order.size(); ++n) {
        const Source i = static_cast<Source>(g_order[n]);
        lt->insert_start(feed.key(i, 0), i, false);
        feed.done();
        lt.point();
    }
    lt->init();
    if (g_extra & 1) lt->init();
    lt.point();
    for (;;) {
        bool any = false;
        for (Source i = 0; i < k; ++i) {
            if (pos[i] >= seqs[i].size()) continue;
            const T& h = seqs[i][pos[i]];
            if (stable ? !less(sentinel, h) : less(h, sentinel)) any = true;
        }
        if (!any) break;
        Source s = lt->min_source();
        if (!out.empty()) out += ' ';
        if (s == LT::invalid_) out += '-'; else out += std::to_string(s);
        if (s >= k || pos[s] >= seqs[s].size()) break;
        ++pos[s];
        if (pos[s] < seqs[s].size()) {
            lt->delete_min_insert(feed.key(s, pos[s]), false);
            feed.done();
        }
        else
            break;
        lt.point();
    }
}

//! the sequences of the second use of a tree: player i gets the sequence of player i + 1 (cyclically)
template <typename T>
static std::vector<std::vector<T> > rotated(const std::vector<std::vector<T> >& seqs) {
    std::vector<std::vector<T> > r;
    for (size_t i = 0; i < seqs.size(); ++i) r.push_back(seqs[(i + 1) % seqs.size()]);
    return r;
}

struct Flavor {
    char mode;       // G, U, V, W
    bool stable;
    bool pass_cmp;   // false: rely on the constructor's default comparator argument
    char via;        // d, s, m
    char store;      // p, l, t
};

//! does this tree class keep the key pointers it is given (pointer classes) rather than copying the keys?
template <typename LT, typename T, typename Cmp>
constexpr bool retains_pointers() {
    return std::is_base_of<tlx::LoserTreePointerBase<T, Cmp>, LT>::value ||
           std::is_base_of<tlx::LoserTreePointerUnguardedBase<T, Cmp>, LT>::value;
}
//! temporaries that die after the call are only legitimate for classes that copy (the switch alias may pick either)
template <typename LT, typename T, typename Cmp>
static Flavor adjust(Flavor f) {
    if (f.store == 't' && retains_pointers<LT, T, Cmp>()) f.store = 'p';
    return f;
}

template <typename LT, typename T, typename Cmp>
static void run_guarded(const std::vector<std::vector<T> >& seqs, const Cmp& cmp, const Flavor& f0, std::string& out) {
    const Flavor f = adjust<LT, T, Cmp>(f0);
    using Source = typename LT::Source;
    const Source k = static_cast<Source>(seqs.size());
    // (g_extra & 4): the constructor gets a temporary copy of the comparator; it is destroyed at the end of the statement
    Holder<LT> lt(!f.pass_cmp ? std::unique_ptr<LT>(new LT(k))
                  : (g_extra & 4) ? std::unique_ptr<LT>(new LT(k, Cmp(cmp)))
                                  : std::unique_ptr<LT>(new LT(k, cmp)));
    drive(lt, seqs, true, f.store, out);
    if (g_extra & 8) {
        const std::vector<std::vector<T> > seqs2 = rotated(seqs);
        std::string out2;
        drive(lt, seqs2, true, f.store, out2);
        out += " | " + out2;
    }
}

template <typename LT, typename T, typename Cmp>
static void run_unguarded(const std::vector<std::vector<T> >& seqs, const T& sentinel, const Cmp& cmp, const Flavor& f0,
                          std::string& out) {
    const Flavor f = adjust<LT, T, Cmp>(f0);
    using Source = typename LT::Source;
    const Source k = static_cast<Source>(seqs.size());
    Holder<LT> lt(!f.pass_cmp ? std::unique_ptr<LT>(new LT(k, sentinel))
                  : (g_extra & 4) ? std::unique_ptr<LT>(new LT(k, sentinel, Cmp(cmp)))
                                  : std::unique_ptr<LT>(new LT(k, sentinel, cmp)));
    if (f.mode == 'V' || f.mode == 'W')
        drive_general(lt, seqs, sentinel, cmp, f.stable || f.mode == 'W', f.store, out);
    else
        drive(lt, seqs, false, f.store, out);
    if (g_extra & 8) {
        const std::vector<std::vector<T> > seqs2 = rotated(seqs);
        std::string out2;
        if (f.mode == 'V' || f.mode == 'W')
            drive_general(lt, seqs2, sentinel, cmp, f.stable || f.mode == 'W', f.store, out2);
        else
            drive(lt, seqs2, false, f.store, out2);
        out += " | " + out2;
    }
}

template <typename T, typename Cmp>
static void dispatch(bool P, const Flavor& f, const std::vector<std::vector<long> >& keys, long sent, const Cmp& cmp,
                     std::string& out) {
    std::vector<std::vector<T> > seqs;
    int serial = 0;
    for (const auto& ks : keys) {
        std::vector<T> s;
        for (long x : ks) s.emplace_back(x, ++serial);
        seqs.push_back(std::move(s));
    }
    const T sentinel(sent, -1);
    if (f.mode != 'G')
        for (const auto& q : seqs) if (q.empty()) { out = "?empty-sequence-unguarded"; return; }
    // The switch templates select copy or pointer classes by sizeof(ValueType); which one is an implementation detail
    // the property does not fix (the two differ observably only in the report made when no live player is left).
    const bool S = f.stable;
    if (f.via == 's') {
        if (f.mode == 'G') {
            if (S) run_guarded<tlx::LoserTree<true, T, Cmp> >(seqs, cmp, f, out);
            else run_guarded<tlx::LoserTree<false, T, Cmp> >(seqs, cmp, f, out);
        } else {
            if (S) run_unguarded<tlx::LoserTreeUnguarded<true, T, Cmp> >(seqs, sentinel, cmp, f, out);
            else run_unguarded<tlx::LoserTreeUnguarded<false, T, Cmp> >(seqs, sentinel, cmp, f, out);
        }
        return;
    }
    if (f.mode == 'G') {
        if (P && S) run_guarded<tlx::LoserTreePointer<true, T, Cmp> >(seqs, cmp, f, out);
        else if (P) run_guarded<tlx::LoserTreePointer<false, T, Cmp> >(seqs, cmp, f, out);
        else if (S) run_guarded<tlx::LoserTreeCopy<true, T, Cmp> >(seqs, cmp, f, out);
        else run_guarded<tlx::LoserTreeCopy<false, T, Cmp> >(seqs, cmp, f, out);
    } else {
        if (P && S) run_unguarded<tlx::LoserTreePointerUnguarded<true, T, Cmp> >(seqs, sentinel, cmp, f, out);
        else if (P) run_unguarded<tlx::LoserTreePointerUnguarded<false, T, Cmp> >(seqs, sentinel, cmp, f, out);
        else if (S) run_unguarded<tlx::LoserTreeCopyUnguarded<true, T, Cmp> >(seqs, sentinel, cmp, f, out);
        else run_unguarded<tlx::LoserTreeCopyUnguarded<false, T, Cmp> >(seqs, sentinel, cmp, f, out);
    }
}

// To keep the build time of this file in bounds not every comparator is instantiated with every element type: KeyLess and the
// default std::less with all five element types, KeyGreater and ByRank with e8 (copy-sized) and e17 (pointer-sized).
template <typename T, bool AllComparators>
static void by_cmp(const std::string& cmp, bool P, Flavor f, const std::vector<std::vector<long> >& keys, long sent,
                   std::string& out) {
    if (cmp == "lt") dispatch<T>(P, f, keys, sent, KeyLess<T>(), out);
    else if (cmp == "df") { f.pass_cmp = false; dispatch<T>(P, f, keys, sent, std::less<T>(), out); }
    else if (cmp != "gt" && cmp != "rk+" && cmp != "rk-" && cmp != "st+" && cmp != "st-") out = "?comparator";
    else if constexpr (AllComparators) {
        if (cmp == "gt") dispatch<T>(P, f, keys, sent, KeyGreater<T>(), out);
        else if (cmp == "rk+" || cmp == "st+") dispatch<T>(P, f, keys, sent, ByRank<T>(+1), out);
        else dispatch<T>(P, f, keys, sent, ByRank<T>(-1), out);
    }
    else out = "?comparator-not-instantiated-for-this-element-type";
}

int main(int argc, char** argv) {
    if (argc < 2) return 2;
    if (std::string(argv[1]) == "--traits") {
        // which classes can be move-constructed on this tree (the move points apply to those)
        using L = KeyLess<E8>;
        std::cout << "LoserTreeCopy=" << std::is_move_constructible<tlx::LoserTreeCopy<true, E8, L> >::value
                  << " LoserTreePointer=" << std::is_move_constructible<tlx::LoserTreePointer<true, E8, L> >::value
                  << " LoserTreeCopyUnguarded=" << std::is_move_constructible<tlx::LoserTreeCopyUnguarded<true, E8, L> >::value
                  << " LoserTreePointerUnguarded=" << std::is_move_constructible<tlx::LoserTreePointerUnguarded<true, E8, L> >::value
                  << std::endl;
        return 0;
    }
    std::ifstream in(argv[1]);
    std::string line;
    while (std::getline(in, line)) {
        std::istringstream ls(line);
        std::string head, tok;
        long sent = 0;
        if (!(ls >> head >> sent)) { std::cout << "?" << std::endl; continue; }
        std::vector<std::string> parts;
        {
            std::istringstream hs(head);
            std::string p;
            while (std::getline(hs, p, ':')) parts.push_back(p);
        }
        if (parts.empty() || parts[0].size() != 3 || (parts.size() != 1 && parts.size() != 4 && parts.size() != 5 && parts.size() != 6)) {
            std::cout << "?" << std::endl;
            continue;
        }
        const std::string vs = parts[0];
        const std::string elem = parts.size() >= 4 ? parts[1] : "e8";
        const std::string cmp = parts.size() >= 4 ? parts[2] : "lt";
        const std::string via = parts.size() >= 4 ? parts[3] : "d";
        const std::string store = parts.size() >= 5 ? parts[4] : "p";
        g_extra = parts.size() == 6 ? std::atoi(parts[5].c_str()) : 0;
        std::vector<std::vector<long> > keys;
        std::vector<size_t> order, moves;
        while (ls >> tok) {
            if (keys.empty() && tok.compare(0, 2, "m=") == 0) {
                std::istringstream os(tok.substr(2));
                std::string n;
                while (std::getline(os, n, ',')) moves.push_back(static_cast<size_t>(std::atol(n.c_str())));
                continue;
            }
            if (keys.empty() && tok.compare(0, 2, "o=") == 0) {
                std::istringstream os(tok.substr(2));
                std::string n;
                while (std::getline(os, n, ',')) order.push_back(static_cast<size_t>(std::atol(n.c_str())));
                continue;
            }
            std::vector<long> s;
            if (tok != "-") {
                std::istringstream ts(tok);
                std::string n;
                while (std::getline(ts, n, ',')) s.push_back(std::atol(n.c_str()));
            }
            keys.push_back(std::move(s));
        }
        if (order.empty())
            for (size_t i = 0; i < keys.size(); ++i) order.push_back(i);
        {
            std::vector<int> seen(keys.size(), 0);
            bool ok = true;
            for (size_t i : order) { if (i >= keys.size()) ok = false; else seen[i]++; }
            for (int c : seen) if (c == 0) ok = false;
            if (!ok) { std::cout << "?order" << std::endl; continue; }
        }
        g_order = order;
        g_moves = moves;
        std::string out;
        const bool P = vs[0] == 'P';
        Flavor f{ vs[1], vs[2] == 'S', true, via.empty() ? 'd' : via[0], store.empty() ? 'p' : store[0] };
        if (keys.empty() || (vs[0] != 'P' && vs[0] != 'C') || (f.mode != 'G' && f.mode != 'U' && f.mode != 'V' && f.mode != 'W') || (f.mode == 'W' && f.stable) ||
            (vs[2] != 'S' && vs[2] != 'N') || (f.via != 'd' && f.via != 's' && f.via != 'm') ||
             (f.store != 'p' && f.store != 'l' && f.store != 't') ||
            (f.store == 't' && P)) {
            std::cout << "?" << std::endl;
            continue;
        }
        if (f.via == 'm') g_moves.push_back(0);          // "moved before use" = move point 0
        if (elem == "e1") by_cmp<E1, false>(cmp, P, f, keys, sent, out);
        else if (elem == "e8") by_cmp<E8, true>(cmp, P, f, keys, sent, out);
        else if (elem == "e16") by_cmp<E16, false>(cmp, P, f, keys, sent, out);
        else if (elem == "e17") by_cmp<E17, true>(cmp, P, f, keys, sent, out);
        else if (elem == "e24") by_cmp<E24, false>(cmp, P, f, keys, sent, out);
        else out = "?element-type";
        std::cout << out << '\n';
    }
    std::cout.flush();
    return 0;
}
