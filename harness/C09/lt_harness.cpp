// C09 harness: drives the eight loser tree classes of tlx/container/loser_tree.hpp through the caller
// protocol of the model (coq/C09/LoserTree.v, [drive]) and prints the sequence of min_source() values.
// Case line:  <P|C><G|U|V><S|N> <sentinel> <seq> <seq> ...   with <seq> = "-" (empty) or "k,k,k".
// V = unguarded class driven the way multiway_merge_loser_tree_combined does: keys may exceed the sentinel, the tree is
// consulted only while some current key beats the sentinel (coq/C09/Spec.v, [drive_g]).
// Output: one line per case, sources separated by blanks, invalid_ printed as "-".
#include <tlx/container/loser_tree.hpp>

#include <cstdint>
#include <cstdio>
#include <cstdlib>
#include <fstream>
#include <iostream>
#include <sstream>
#include <string>
#include <vector>

// key type with a payload, compared on the key only (equivalent != identical)
struct Key {
    int key = 0;
    int payload = 0;
    Key() = default;
    Key(int k, int p) : key(k), payload(p) {}
};
struct KeyLess {
    bool operator()(const Key& a, const Key& b) const { return a.key < b.key; }
};

using Seqs = std::vector<std::vector<Key> >;

template <typename LT>
static void drive(LT& lt, const Seqs& seqs, bool guarded, std::string& out) {
    using Source = typename LT::Source;
    const Source k = static_cast<Source>(seqs.size());
    std::vector<size_t> pos(k, 0);
    for (Source i = 0; i < k; ++i) {
        if (seqs[i].empty())
            lt.insert_start(nullptr, i, true);
        else
            lt.insert_start(&seqs[i][0], i, false);
    }
    lt.init();
    for (;;) {
        Source s = lt.min_source();
        if (!out.empty()) out += ' ';
        if (s == LT::invalid_) out += '-'; else out += std::to_string(s);
        if (s >= k || pos[s] >= seqs[s].size()) break;   // reported player has no current key
        ++pos[s];
        if (pos[s] < seqs[s].size())
            lt.delete_min_insert(&seqs[s][pos[s]], false);
        else if (guarded)
            lt.delete_min_insert(nullptr, true);
        else
            break;                                        // unguarded: a player must never run empty
    }
}

// unguarded tree, arbitrary keys: stop as soon as no current key beats the sentinel
template <typename LT>
static void drive_general(LT& lt, const Seqs& seqs, const Key& sentinel, bool stable, std::string& out) {
    using Source = typename LT::Source;
    const Source k = static_cast<Source>(seqs.size());
    KeyLess less;
    std::vector<size_t> pos(k, 0);
    for (Source i = 0; i < k; ++i) lt.insert_start(&seqs[i][0], i, false);
    lt.init();
    for (;;) {
        bool any = false;
        for (Source i = 0; i < k; ++i) {
            if (pos[i] >= seqs[i].size()) continue;
            const Key& h = seqs[i][pos[i]];
            if (stable ? !less(sentinel, h) : less(h, sentinel)) any = true;
        }
        if (!any) break;
        Source s = lt.min_source();
        if (!out.empty()) out += ' ';
        if (s == LT::invalid_) out += '-'; else out += std::to_string(s);
        if (s >= k || pos[s] >= seqs[s].size()) break;
        ++pos[s];
        if (pos[s] < seqs[s].size())
            lt.delete_min_insert(&seqs[s][pos[s]], false);
        else
            break;
    }
}
template <typename LT>
static void run_general(const Seqs& seqs, const Key& sentinel, bool stable, std::string& out) {
    LT lt(static_cast<typename LT::Source>(seqs.size()), sentinel, KeyLess());
    drive_general(lt, seqs, sentinel, stable, out);
}

template <typename LT>
static void run_guarded(const Seqs& seqs, std::string& out) {
    LT lt(static_cast<typename LT::Source>(seqs.size()), KeyLess());
    drive(lt, seqs, true, out);
}
template <typename LT>
static void run_unguarded(const Seqs& seqs, const Key& sentinel, std::string& out) {
    LT lt(static_cast<typename LT::Source>(seqs.size()), sentinel, KeyLess());
    drive(lt, seqs, false, out);
}

int main(int argc, char** argv) {
    if (argc < 2) return 2;
    std::ifstream in(argv[1]);
    std::string line;
    while (std::getline(in, line)) {
        std::istringstream ls(line);
        std::string vs, tok;
        long sent = 0;
        if (!(ls >> vs >> sent) || vs.size() != 3) { std::cout << "?" << std::endl; continue; }
        Seqs seqs;
        int serial = 0;
        while (ls >> tok) {
            std::vector<Key> s;
            if (tok != "-") {
                std::istringstream ts(tok);
                std::string n;
                while (std::getline(ts, n, ',')) s.emplace_back(std::atoi(n.c_str()), ++serial);
            }
            seqs.push_back(std::move(s));
        }
        const Key sentinel(static_cast<int>(sent), -1);
        std::string out;
        const bool P = vs[0] == 'P', G = vs[1] == 'G', S = vs[2] == 'S';
        if (seqs.empty()) { std::cout << "?" << std::endl; continue; }
        const bool V = vs[1] == 'V';
        if (V) {
            bool ok = true;
            for (const auto& q : seqs) if (q.empty()) ok = false;
            if (!ok) { std::cout << "?" << std::endl; continue; }
            if (P && S) run_general<tlx::LoserTreePointerUnguarded<true, Key, KeyLess> >(seqs, sentinel, true, out);
            else if (P) run_general<tlx::LoserTreePointerUnguarded<false, Key, KeyLess> >(seqs, sentinel, false, out);
            else if (S) run_general<tlx::LoserTreeCopyUnguarded<true, Key, KeyLess> >(seqs, sentinel, true, out);
            else run_general<tlx::LoserTreeCopyUnguarded<false, Key, KeyLess> >(seqs, sentinel, false, out);
        } else if (G) {
            if (P && S) run_guarded<tlx::LoserTreePointer<true, Key, KeyLess> >(seqs, out);
            else if (P) run_guarded<tlx::LoserTreePointer<false, Key, KeyLess> >(seqs, out);
            else if (S) run_guarded<tlx::LoserTreeCopy<true, Key, KeyLess> >(seqs, out);
            else run_guarded<tlx::LoserTreeCopy<false, Key, KeyLess> >(seqs, out);
        } else {
            if (P && S) run_unguarded<tlx::LoserTreePointerUnguarded<true, Key, KeyLess> >(seqs, sentinel, out);
            else if (P) run_unguarded<tlx::LoserTreePointerUnguarded<false, Key, KeyLess> >(seqs, sentinel, out);
            else if (S) run_unguarded<tlx::LoserTreeCopyUnguarded<true, Key, KeyLess> >(seqs, sentinel, out);
            else run_unguarded<tlx::LoserTreeCopyUnguarded<false, Key, KeyLess> >(seqs, sentinel, out);
        }
        std::cout << out << '\n';
    }
    std::cout.flush();
    return 0;
}
