// C09 known finding "players-above-2^30": zero-memory witnesses, each run in a child process by checks/C09.py.
// Source = uint32_t: the constructors compute the node array size 2 * k_ (and round_up_to_power_of_two(k)) in 32-bit arithmetic.
//   2^30 < k <= 2^31 : k_ = 2^31, 2 * k_ == 0 -> losers_ has no element, the constructor's padding loop writes losers_[i + k_]
//   2^31 < k < 2^32  : round_up_to_power_of_two(k) == 0 -> k_ = 0, losers_ has no element, the tree is constructed but unusable
// usage: big_k <witness number>; prints "constructed" / "usable" when the step succeeded, "exception ..." on a C++ exception.
#include <tlx/container/loser_tree.hpp>

#include <cstdio>
#include <cstdlib>
#include <exception>

template <typename LT, typename... Args>
static int probe(unsigned k, Args&&... args) {
    static int key = 1;
    try {
        LT lt(k, args...);
        std::printf("constructed\n");
        std::fflush(stdout);
        lt.insert_start(&key, 0, false);       // player 0 must be registrable in a tree of k players
        std::printf("usable\n");
    }
    catch (const std::exception& e) {
        std::printf("exception %s\n", e.what());
    }
    std::fflush(stdout);
    return 0;
}

int main(int argc, char** argv) {
    const int w = argc > 1 ? std::atoi(argv[1]) : 0;
    static const int sentinel = 1 << 30;
    const unsigned a = (1u << 30) + 1u;        // 2^30 < k <= 2^31
    const unsigned b = (1u << 31) + 1u;        // 2^31 < k < 2^32
    switch (w) {
    case 0: return probe<tlx::LoserTreePointer<false, int> >(a);
    case 1: return probe<tlx::LoserTreeCopy<true, int> >(a);
    case 2: return probe<tlx::LoserTreePointerUnguarded<true, int> >(a, sentinel);
    case 3: return probe<tlx::LoserTreeCopyUnguarded<false, int> >(a, sentinel);
    case 4: return probe<tlx::LoserTreePointer<true, int> >(b);
    case 5: return probe<tlx::LoserTreeCopy<false, int> >(b);
    case 6: return probe<tlx::LoserTreePointerUnguarded<false, int> >(b, sentinel);
    case 7: return probe<tlx::LoserTreeCopyUnguarded<true, int> >(b, sentinel);
    }
    return 2;
}
