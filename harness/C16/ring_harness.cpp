// C16 correspondence harness: replays operation histories on tlx::RingBuffer<Tracked, CountingAlloc>
// and tlx::SimpleVector<Tracked>; prints one result line per case (same format as ocaml/C16_driver.ml).
#include <cstdint>
#include <cstdio>
#include <cstdlib>
#include <cstring>
#include <fstream>
#include <iostream>
#include <memory>
#include <sstream>
#include <string>
#include <vector>

#include <tlx/container/ring_buffer.hpp>
#include <tlx/container/simple_vector.hpp>

#include "ledger.hpp"

using verif::Tracked;
typedef tlx::RingBuffer<Tracked, verif::CountingAlloc<Tracked>> RB;

// an allocator with identity: instances compare equal only when they carry the same id, and a block must be released
// through an allocator equal to the one that produced it (exercises the `alloc_ != rb.alloc_` branch of copy-assignment
// and the allocator hand-over of the move operations)
#include <map>
template <typename T>
struct IdAlloc {
    using value_type = T;
    using size_type = std::size_t;
    using difference_type = std::ptrdiff_t;
    using pointer = T*;
    using const_pointer = const T*;
    using reference = T&;
    using const_reference = const T&;
    int id;
    explicit IdAlloc(int i = 0) noexcept : id(i) {}
    template <typename U> IdAlloc(const IdAlloc<U>& o) noexcept : id(o.id) {}
    template <typename U> struct rebind { using other = IdAlloc<U>; };
    static std::map<const void*, int>& owner() { static std::map<const void*, int> m; return m; }
    T* allocate(size_t n) { T* p = verif::CountingAlloc<T>().allocate(n); owner()[p] = id; return p; }
    void deallocate(T* p, size_t n) {
        if (p) {
            auto it = owner().find(p);
            if (it != owner().end() && it->second != id) verif::AllocLedger::get().err("block released through an unequal allocator", p);
            if (it != owner().end()) owner().erase(it);
        }
        verif::CountingAlloc<T>().deallocate(p, n);
    }
    template <typename U, typename... Args> void construct(U* p, Args&&... args) { ::new (static_cast<void*>(p)) U(std::forward<Args>(args)...); }
    template <typename U> void destroy(U* p) { p->~U(); }
    friend bool operator==(const IdAlloc& a, const IdAlloc& b) { return a.id == b.id; }
    friend bool operator!=(const IdAlloc& a, const IdAlloc& b) { return a.id != b.id; }
};
typedef tlx::RingBuffer<Tracked, IdAlloc<Tracked>> RBI;
static RB* make_rb(RB*, int) { return new RB(); }
static RBI* make_rb(RBI*, int id) { return new RBI(IdAlloc<Tracked>(id)); }
typedef tlx::SimpleVector<Tracked> SV;

static std::vector<std::vector<long>> parse_ops(std::istringstream& in, std::vector<std::string>& names) {
    std::vector<std::vector<long>> ops; std::string tok;
    while (in >> tok) {
        std::vector<long> f; std::string name; size_t p = 0; bool first = true;
        while (p <= tok.size()) {
            size_t q = tok.find(',', p); if (q == std::string::npos) q = tok.size();
            std::string part = tok.substr(p, q - p);
            if (first) { name = part; first = false; } else f.push_back(atol(part.c_str()));
            p = q + 1;
        }
        names.push_back(name); ops.push_back(f);
    }
    return ops;
}

static void reset_ledgers() {
    auto& L = verif::Ledger::get(); L.live.clear(); L.constructed = L.destroyed = L.errors = 0; L.first_error.clear();
    auto& A = verif::AllocLedger::get(); A.blocks.clear(); A.allocs = A.frees = A.errors = 0; A.first_error.clear();
}

static std::string final_status() {
    auto& L = verif::Ledger::get(); auto& A = verif::AllocLedger::get();
    if (L.errors) return "bad:" + L.first_error.substr(0, L.first_error.find(" @"));
    if (A.errors) return "bad:" + A.first_error.substr(0, A.first_error.find(" @"));
    if (!L.live.empty()) return "bad:leaked elements";
    if (!A.blocks.empty()) return "bad:leaked blocks";
    return "ok";
}

// mock archives for RingBuffer::save / load (the members are written for cereal: ar(a, b) saves / loads its arguments in order)
struct OutAr {
    std::vector<unsigned long> nums; std::vector<Tracked> items;
    void one(const size_t& x) { nums.push_back(x); }
    void one(const std::uint32_t& x) { nums.push_back(x); }
    void one(const Tracked& t) { items.push_back(t); }
    template <typename... A> void operator()(const A&... a) { int d[] = { 0, (one(a), 0)... }; (void)d; }
};
struct InAr {
    const OutAr& src; size_t ni = 0, ii = 0;
    explicit InAr(const OutAr& s) : src(s) {}
    void one(size_t& x) { x = src.nums.at(ni++); }
    void one(std::uint32_t& x) { x = static_cast<std::uint32_t>(src.nums.at(ni++)); }
    void one(Tracked& t) { t = src.items.at(ii++); }
    template <typename... A> void operator()(A&... a) { int d[] = { 0, (one(a), 0)... }; (void)d; }
};

template <typename RB>
static std::string run_ring_t(const std::vector<std::string>& names, std::vector<std::vector<long>>& ops) {
    reset_ledgers();
    std::ostringstream out;
    {
        std::unique_ptr<RB> r[3];
        for (int i = 0; i < 3; ++i) r[i].reset(make_rb(static_cast<RB*>(nullptr), i + 1));
        for (size_t k = 0; k < ops.size(); ++k) {
            const std::string& n = names[k]; auto& f = ops[k]; RB& x = *r[f[0]];
            if (n == "A") x.allocate(f[1]);
            else if (n == "D") x.deallocate();
            else if (n == "PB") {
                if (f[1] % 3 == 0) { Tracked t(f[1]); x.push_back(t); }
                else if (f[1] % 3 == 1) x.push_back(Tracked(f[1]));
                else x.emplace_back(static_cast<int>(f[1]));
            }
            else if (n == "PF") {
                if (f[1] % 3 == 0) { Tracked t(f[1]); x.push_front(t); }
                else if (f[1] % 3 == 1) x.push_front(Tracked(f[1]));
                else x.emplace_front(static_cast<int>(f[1]));
            }
            else if (n == "PoF") x.pop_front();
            else if (n == "PoB") x.pop_back();
            else if (n == "CL") x.clear();
            else if (n == "SL") { OutAr oa; const RB& src = *r[f[1]]; src.save(oa); InAr ia(oa); x.load(ia); }   // save f[1], load into f[0]
            else if (n == "CA") { if (f[0] != f[1]) x = *r[f[1]]; else { RB& y = x; x = y; } }
            else if (n == "MA") { if (f[0] != f[1]) x = std::move(*r[f[1]]); }
            else if (n == "CC") { if (f[0] != f[1]) r[f[0]].reset(new RB(*r[f[1]])); }
            else if (n == "MC") { if (f[0] != f[1]) r[f[0]].reset(new RB(std::move(*r[f[1]]))); }
            else if (n == "Q" || n == "MT") {
                // the observers are exercised through the const and the non-const overloads, copy_to() and move_to()
                const RB& c = x;
                size_t sz = (k & 1) ? x.size() : c.size();
                bool emp = (k & 1) ? x.empty() : c.empty();
                out << "Q:" << sz << ":" << (emp ? 1 : 0) << ":";
                std::string fb = "-:-";
                if (!emp) fb = std::to_string((k & 2) ? x.front().get() : c.front().get()) + ":" + std::to_string((k & 2) ? x.back().get() : c.back().get());
                {
                    std::vector<Tracked> v;
                    if (n == "MT") x.move_to(&v);
                    else if (k % 3 == 0) c.copy_to(&v);
                    else if (k % 3 == 1) for (size_t i = 0; i < c.size(); ++i) v.emplace_back(c[i]);
                    else for (size_t i = 0; i < x.size(); ++i) v.emplace_back(x[i]);
                    for (size_t i = 0; i < v.size(); ++i) out << (i ? "." : "") << v[i].get();
                    if (v.size() != sz) out << "!len" << v.size();
                }
                out << ":" << fb;
                out << " live=" << verif::Ledger::get().live.size() << " ";
                if (x.max_size() + 1 > x.capacity() && x.capacity() != 0) out << "!cap ";
            }
        }
    }
    out << "final=" << final_status();
    return out.str();
}

static void run_ring(std::istringstream& in) {
    std::vector<std::string> names; auto ops = parse_ops(in, names);
    std::string a = run_ring_t<RB>(names, ops), b = run_ring_t<RBI>(names, ops);
    if (a != b) a += " !unequal-allocators:" + b;
    puts(a.c_str());
}

static void run_svec(std::istringstream& in) {
    std::vector<std::string> names; auto ops = parse_ops(in, names);
    reset_ledgers();
    std::ostringstream out;
    {
        std::unique_ptr<SV> r[3];
        for (auto& p : r) p.reset(new SV());
        for (size_t k = 0; k < ops.size(); ++k) {
            const std::string& n = names[k]; auto& f = ops[k]; SV& x = *r[f[0]];
            if (n == "M") r[f[0]].reset(new SV(static_cast<size_t>(f[1])));
            else if (n == "R") x.resize(f[1]);
            else if (n == "S") x[f[1]] = Tracked(static_cast<int>(f[2]));
            else if (n == "X") x.destroy();
            else if (n == "F") { if (f[1] % 2) x.fill(Tracked(static_cast<int>(f[1]))); else { Tracked t(static_cast<int>(f[1])); x.fill(t); } }
            else if (n == "F0") x.fill();   // default argument: value_type()
            else if (n == "MA") { if (f[0] != f[1]) x = std::move(*r[f[1]]); }
            else if (n == "MC") { if (f[0] != f[1]) r[f[0]].reset(new SV(std::move(*r[f[1]]))); }
            else if (n == "SW") x.swap(*r[f[1]]);
            else if (n == "Q") {
                const SV& c = x; out << "Q:";
                for (size_t i = 0; i < c.size(); ++i) out << (i ? "." : "") << c[i].get();
                if (c.size() && (&c.front() != &c[0] || &c.back() != &c[c.size() - 1] || c.end() - c.begin() != static_cast<long>(c.size()))) out << "!iter";
                out << " live=" << verif::Ledger::get().live.size() << " ";
            }
        }
    }
    out << "final=" << final_status();
    puts(out.str().c_str());
}

// emplace forms: emplace_back / emplace_front must construct with PARENTHESES (allocator_traits::construct), so that
// (count, value) argument packs reach the (count, value) constructor and not an initializer_list one.
// case line: emplace <n> <v>   output: E <back.size>:<back[0]> <front.size>:<front[0]> <str_back> <str_front>
static void run_emplace(std::istringstream& in) {
    long n = 0, v = 0; in >> n >> v;
    std::ostringstream out;
    {
        tlx::RingBuffer<std::vector<int>> r(4);
        r.emplace_back(static_cast<size_t>(n), static_cast<int>(v));      // n copies of v
        r.emplace_front(static_cast<size_t>(n));                           // n zeros
        r.emplace_back();                                                  // empty vector
        out << "E " << r[1].size() << ":" << (r[1].empty() ? -1 : r[1][0]) << " " << r[0].size() << ":" << (r[0].empty() ? -1 : r[0][0])
            << " " << r[2].size();
        tlx::RingBuffer<std::string> t(3);
        t.emplace_back(static_cast<size_t>(n), static_cast<char>('a' + v % 26));   // n characters
        t.emplace_front("xyz", static_cast<size_t>(2));                    // first two characters of the literal
        out << " " << t.back() << " " << t.front();
    }
    puts(out.str().c_str());
}

int main(int argc, char** argv) {
    if (argc < 2) return 2;
    std::ifstream f(argv[1]); std::string line;
    while (std::getline(f, line)) {
        std::istringstream in(line); std::string kind; in >> kind;
        if (kind == "ring") run_ring(in); else if (kind == "svec") run_svec(in); else if (kind == "emplace") run_emplace(in); else puts("?");
    }
    return 0;
}
