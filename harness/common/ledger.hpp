// Lifetime ledger element type + counting allocator shared by the harnesses.
//  * verif::Tracked: every constructor registers `this` in a global live set (error if already live),
//    the destructor unregisters (error if not live), copies/moves/reads check that the source is live.
//    Owns a heap block, so ASan sees use-after-destroy / leaks as well.
//  * verif::CountingAlloc<T>: std::allocator that records allocate/deallocate by address and size.
#ifndef VERIF_LEDGER_HPP
#define VERIF_LEDGER_HPP
#include <cstddef>
#include <cstdio>
#include <map>
#include <memory>
#include <set>
#include <string>
#include <utility>

namespace verif {

struct Ledger {
    std::set<const void*> live;
    long constructed = 0, destroyed = 0, errors = 0;
    std::string first_error;
    void err(const char* what, const void* p) {
        if (!errors++) { char b[128]; snprintf(b, sizeof b, "%s @%p", what, p); first_error = b; }
    }
    static Ledger& get() { static Ledger l; return l; }
};

struct Tracked {
    int v;
    int* heap; // owned
    void reg() { auto& L = Ledger::get(); ++L.constructed; if (!L.live.insert(this).second) L.err("construct over live object", this); }
    static void chk(const Tracked& o) { auto& L = Ledger::get(); if (!L.live.count(&o)) L.err("read of dead object", &o); }
    Tracked() : v(0), heap(new int(0)) { reg(); }
    explicit Tracked(int x) : v(x), heap(new int(x)) { reg(); }
    Tracked(const Tracked& o) : v(o.v), heap(new int(o.v)) { chk(o); reg(); }
    Tracked(Tracked&& o) noexcept : v(o.v), heap(new int(o.v)) { chk(o); reg(); }
    Tracked& operator=(const Tracked& o) { chk(o); chk(*this); v = o.v; *heap = o.v; return *this; }
    Tracked& operator=(Tracked&& o) noexcept { chk(o); chk(*this); v = o.v; *heap = o.v; return *this; }
    ~Tracked() {
        auto& L = Ledger::get(); ++L.destroyed;
        if (!L.live.erase(this)) { L.err("destroy of dead object", this); return; }
        delete heap; heap = nullptr;
    }
    int get() const { chk(*this); return heap ? *heap : -999; }
    friend bool operator<(const Tracked& a, const Tracked& b) { return a.get() < b.get(); }
    friend bool operator==(const Tracked& a, const Tracked& b) { return a.get() == b.get(); }
};

struct AllocLedger {
    std::map<const void*, size_t> blocks;
    long allocs = 0, frees = 0, errors = 0;
    std::string first_error;
    void err(const char* what, const void* p) {
        if (!errors++) { char b[128]; snprintf(b, sizeof b, "%s @%p", what, p); first_error = b; }
    }
    static AllocLedger& get() { static AllocLedger l; return l; }
};

template <typename T>
struct CountingAlloc {
    using value_type = T;
    using size_type = std::size_t;
    using difference_type = std::ptrdiff_t;
    using pointer = T*;
    using const_pointer = const T*;
    using reference = T&;
    using const_reference = const T&;
    template <typename U> struct rebind { using other = CountingAlloc<U>; };
    CountingAlloc() noexcept {}
    template <typename U> CountingAlloc(const CountingAlloc<U>&) noexcept {}
    T* allocate(size_t n) {
        T* p = std::allocator<T>().allocate(n ? n : 1);
        auto& L = AllocLedger::get(); ++L.allocs; L.blocks[p] = n;
        return p;
    }
    void deallocate(T* p, size_t n) {
        auto& L = AllocLedger::get();
        if (p == nullptr) { return; }
        auto it = L.blocks.find(p);
        if (it == L.blocks.end()) { L.err("deallocate of unknown/freed block", p); return; }
        if (it->second != n) L.err("deallocate with wrong size", p);
        L.blocks.erase(it); ++L.frees;
        std::allocator<T>().deallocate(p, n ? n : 1);
    }
    template <typename U, typename... Args> void construct(U* p, Args&&... args) { ::new (static_cast<void*>(p)) U(std::forward<Args>(args)...); }
    template <typename U> void destroy(U* p) { p->~U(); }
    friend bool operator==(const CountingAlloc&, const CountingAlloc&) { return true; }
    friend bool operator!=(const CountingAlloc&, const CountingAlloc&) { return false; }
};

} // namespace verif
#endif
