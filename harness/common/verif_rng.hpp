// SplitMix64: the one PRNG of all harnesses (same algorithm as lib/verif.py SplitMix64).
#ifndef VERIF_RNG_HPP
#define VERIF_RNG_HPP
#include <cstdint>
namespace verif {
struct Rng {
    uint64_t s;
    explicit Rng(uint64_t seed) : s(seed) {}
    uint64_t next() {
        s += 0x9E3779B97F4A7C15ull;
        uint64_t z = s;
        z = (z ^ (z >> 30)) * 0xBF58476D1CE4E5B9ull;
        z = (z ^ (z >> 27)) * 0x94D049BB133111EBull;
        return z ^ (z >> 31);
    }
    uint64_t below(uint64_t n) { return n ? next() % n : 0; }
    int64_t range(int64_t lo, int64_t hi) { return lo + static_cast<int64_t>(below(static_cast<uint64_t>(hi - lo + 1))); }
    bool chance(uint64_t num, uint64_t den) { return below(den) < num; }
};
} // namespace verif
#endif
