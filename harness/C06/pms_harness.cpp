// C06 correspondence harness: runs tlx::parallel_mergesort / tlx::stable_parallel_mergesort (real std::thread
// workers, compiled from /repo's working tree) on every case of the case file (argv[1]) and prints one canonical
// line per case, in the format of ocaml/C06_driver.ml:
//     keys=<result keys> ord=<original indices | -> win=<non-empty merge windows in position order | -> leak=<n> err=<n>
// case:  <elem:int|pair|trk> <S|U> <E|X> <L|G> <p> <oversampling> <k1,k2,...|-> [<variant, default avk5>]
// (variants: see call_sort below; -DC06_SET=0|1|2 selects which instantiations this executable contains)
//   int  : plain int keys (trivial type)
//   pair : (key, original index) + the id of the thread that assigned the slot last and a per-slot assignment
//          counter: gives the write footprint of the merge phase (one writer per position, contiguous windows)
//   trk  : (key, original index) where the key lives in a heap block owned by the element and every
//          construction / destruction is entered in a thread-safe ledger (live-instance counter)
// Stable sorts print the arrangement as it is; unstable sorts print the key sequence as it is and the indices
// after canonicalisation (positions of equal keys sorted by index), since the property leaves their order open.
#include <tlx/sort/parallel_mergesort.hpp>

#include <algorithm>
#include <atomic>
#include <cstdio>
#include <cstdlib>
#include <deque>
#include <fstream>
#include <functional>
#include <iostream>
#include <mutex>
#include <set>
#include <sstream>
#include <string>
#include <thread>
#include <vector>

namespace {

// ---------------------------------------------------------------------------------------------- element types
struct Pair {
    int key = 0, idx = 0;
    std::thread::id writer;
    int writes = 0;
    Pair() = default;
    Pair(int k, int i) : key(k), idx(i), writer(std::this_thread::get_id()) {}
    Pair(const Pair& o) : key(o.key), idx(o.idx), writer(std::this_thread::get_id()), writes(0) {}
    Pair& operator=(const Pair& o) {
        key = o.key; idx = o.idx; writer = std::this_thread::get_id(); ++writes;
        return *this;
    }
    // natural order (ascending key); the sorts under test must use the comparator they are given, never this one
    friend bool operator<(const Pair& a, const Pair& b) { return a.key < b.key; }
};

struct MtLedger {
    std::mutex m;
    std::set<const void*> live;
    long errors = 0;
    std::string first_error;
    void err(const char* what, const void* p) {
        if (!errors++) { char b[128]; snprintf(b, sizeof b, "%s @%p", what, p); first_error = b; }
    }
    static MtLedger& get() { static MtLedger l; return l; }
};

struct Trk {
    int* heap; // owned: the key
    int idx;
    void reg() {
        auto& L = MtLedger::get(); std::lock_guard<std::mutex> g(L.m);
        if (!L.live.insert(this).second) L.err("construct over live object", this);
    }
    static void chk(const Trk& o) {
        auto& L = MtLedger::get(); std::lock_guard<std::mutex> g(L.m);
        if (!L.live.count(&o)) L.err("use of dead object", &o);
    }
    Trk() : heap(new int(0)), idx(0) { reg(); }
    Trk(int k, int i) : heap(new int(k)), idx(i) { reg(); }
    Trk(const Trk& o) : heap(nullptr), idx(o.idx) { chk(o); heap = new int(*o.heap); reg(); }
    Trk& operator=(const Trk& o) { chk(o); chk(*this); *heap = *o.heap; idx = o.idx; return *this; }
    ~Trk() {
        auto& L = MtLedger::get();
        {
            std::lock_guard<std::mutex> g(L.m);
            if (!L.live.erase(this)) { L.err("destroy of dead object", this); return; }
        }
        delete heap; heap = nullptr;
    }
    int key() const { chk(*this); return *heap; }
    // natural order (ascending key); the sorts under test must use the comparator they are given, never this one
    friend bool operator<(const Trk& a, const Trk& b) { return a.key() < b.key(); }
};

int key_of(const int& x) { return x; }
int key_of(const Pair& x) { return x.key; }
int key_of(const Trk& x) { return x.key(); }
int idx_of(const int&) { return -1; }
int idx_of(const Pair& x) { return x.idx; }
int idx_of(const Trk& x) { return x.idx; }

template <typename T>
struct KeyLess {
    bool greater;
    bool operator()(const T& a, const T& b) const { return greater ? key_of(b) < key_of(a) : key_of(a) < key_of(b); }
};

std::string join(const std::vector<int>& v) {
    std::string s;
    for (size_t i = 0; i < v.size(); ++i) { if (i) s += ','; s += std::to_string(v[i]); }
    return s;
}

template <typename T> T make_elem(int k, int i);
template <> int make_elem<int>(int k, int) { return k; }
template <> Pair make_elem<Pair>(int k, int i) { return Pair(k, i); }
template <> Trk make_elem<Trk>(int k, int i) { return Trk(k, i); }

template <typename C> typename C::value_type* pick_begin(C& v, std::true_type) { return v.empty() ? nullptr : &v[0]; }
template <typename C> typename C::iterator pick_begin(C& v, std::false_type) { return v.begin(); }
// containers may copy / relocate elements while they are filled: start every case with clean writer tags
template <typename C> void reset_tags(C&, int*) {}
template <typename C> void reset_tags(C&, Trk*) {}
template <typename C> void reset_tags(C& v, Pair*) {
    for (auto& x : v) { x.writer = std::this_thread::get_id(); x.writes = 0; }
}
template <char IterK, typename C>
auto begin_of(C& v) -> typename std::conditional<IterK == 'p', typename C::value_type*, typename C::iterator>::type {
    return pick_begin(v, std::integral_constant<bool, IterK == 'p'>());
}
template <typename C> std::string windows_of(const C&, int*) { return "-"; }
template <typename C> std::string windows_of(const C&, Trk*) { return "-"; }
template <typename C> std::string windows_of(const C& v, Pair*) {
    // every position assigned exactly once, by a worker thread; maximal runs of equal writer = windows
    std::vector<int> w;
    const std::thread::id me = std::this_thread::get_id();
    for (size_t i = 0; i < v.size(); ++i) {
        if (v[i].writer == me) {
            if (v[i].writes != 0) return "BADMAIN@" + std::to_string(i);
            continue;
        }
        if (v[i].writes != 1) return "BADWRITES@" + std::to_string(i) + ":" + std::to_string(v[i].writes);
        if (i > 0 && v[i - 1].writer == v[i].writer) ++w.back(); else w.push_back(1);
    }
    return join(w);
}

// stateful comparator without default constructor (cannot be produced by Comparator())
template <typename T>
struct NdcLess {
    const bool* greater;
    explicit NdcLess(const bool* g) : greater(g) {}
    bool operator()(const T& a, const T& b) const { return *greater ? key_of(b) < key_of(a) : key_of(a) < key_of(b); }
};

// One API variant = container / iterator kind, comparator kind, entry point, number of arguments passed.
//   entry  'a' = tlx::parallel_mergesort / tlx::stable_parallel_mergesort, 'b' = tlx::parallel_mergesort_base<Stable>
//   iter   'v' = std::vector<T>::iterator, 'p' = T*, 'd' = std::deque<T>::iterator
//   cmp    'k' = KeyLess (aggregate with state), 'n' = NdcLess (no default constructor), 'l' = lambda closure,
//          '-' = none passed (Comparator() = std::less<T> = the element's operator<)
//   nargs  2 = (begin, end), 3 = + comp, 4 = + num_threads, 5 = + mwmsa; arguments not passed take their defaults
//          (std::thread::hardware_concurrency() threads, MWMSA_DEFAULT = MWMSA_EXACT)
template <bool Stable, char Entry, int NArgs, typename It, typename Cmp>
void call_sort(It b, It e, Cmp cmp, size_t p, tlx::MultiwayMergeSplittingAlgorithm a) {
    if constexpr (Entry == 'b') {
        if constexpr (NArgs == 3) tlx::parallel_mergesort_base<Stable>(b, e, cmp);
        else if constexpr (NArgs == 4) tlx::parallel_mergesort_base<Stable>(b, e, cmp, p);
        else tlx::parallel_mergesort_base<Stable>(b, e, cmp, p, a);
    } else if constexpr (Stable) {
        if constexpr (NArgs == 3) tlx::stable_parallel_mergesort(b, e, cmp);
        else if constexpr (NArgs == 4) tlx::stable_parallel_mergesort(b, e, cmp, p);
        else tlx::stable_parallel_mergesort(b, e, cmp, p, a);
    } else {
        if constexpr (NArgs == 3) tlx::parallel_mergesort(b, e, cmp);
        else if constexpr (NArgs == 4) tlx::parallel_mergesort(b, e, cmp, p);
        else tlx::parallel_mergesort(b, e, cmp, p, a);
    }
}

template <typename T, bool Stable, char Entry, char IterK, char CmpK, int NArgs>
std::string run_case(bool sampling, bool greater, size_t p, size_t os, const std::vector<int>& keys) {
    using C = typename std::conditional<IterK == 'd', std::deque<T>, std::vector<T> >::type;
    tlx::parallel_multiway_merge_oversampling = os;
    auto& L = MtLedger::get();
    size_t live_before; long err_before;
    { std::lock_guard<std::mutex> g(L.m); live_before = L.live.size(); err_before = L.errors; }
    std::string out;
    long leak = 0, errs = 0;
    {
        C v;
        for (size_t i = 0; i < keys.size(); ++i) v.push_back(make_elem<T>(keys[i], static_cast<int>(i)));
        reset_tags(v, static_cast<T*>(nullptr));
        size_t live_in;
        { std::lock_guard<std::mutex> g(L.m); live_in = L.live.size(); }
        tlx::MultiwayMergeSplittingAlgorithm a = sampling ? tlx::MWMSA_SAMPLING : tlx::MWMSA_EXACT;
        auto bg = begin_of<IterK>(v); auto en = bg + static_cast<std::ptrdiff_t>(v.size());
        if constexpr (CmpK == '-') {
            if constexpr (Stable) tlx::stable_parallel_mergesort(bg, en); else tlx::parallel_mergesort(bg, en);
        } else if constexpr (CmpK == 'n') {
            call_sort<Stable, Entry, NArgs>(bg, en, NdcLess<T>(&greater), p, a);
        } else if constexpr (CmpK == 'l') {
            auto lam = [greater](const T& x, const T& y) { return greater ? key_of(y) < key_of(x) : key_of(x) < key_of(y); };
            call_sort<Stable, Entry, NArgs>(bg, en, lam, p, a);
        } else {
            call_sort<Stable, Entry, NArgs>(bg, en, KeyLess<T>{greater}, p, a);
        }
        { std::lock_guard<std::mutex> g(L.m); leak = static_cast<long>(L.live.size()) - static_cast<long>(live_in); }
        std::vector<int> ks, is;
        for (const T& x : v) ks.push_back(key_of(x));
        std::string win = windows_of(v, static_cast<T*>(nullptr));
        if (!Stable) {
            // canonicalise what the property leaves open: order of the indices inside a group of equal keys
            // (only if the keys are in order; otherwise the raw arrangement is shown)
            std::vector<std::pair<int, int> > kv;
            for (const T& x : v) kv.emplace_back(key_of(x), idx_of(x));
            size_t i = 0;
            while (i < kv.size()) {
                size_t j = i;
                while (j < kv.size() && kv[j].first == kv[i].first) ++j;
                std::sort(kv.begin() + i, kv.begin() + j);
                i = j;
            }
            for (auto& x : kv) is.push_back(x.second);
        } else {
            for (const T& x : v) is.push_back(idx_of(x));
        }
        out = "keys=" + join(ks) + " ord=" + (std::is_same<T, int>::value ? std::string("-") : join(is)) + " win=" + win;
    }
    {
        std::lock_guard<std::mutex> g(L.m);
        errs = L.errors - err_before;
        if (L.live.size() != live_before) {
            // forget leaked temporaries so that the next case starts clean
            L.live.clear();
        }
    }
    out += " leak=" + std::to_string(leak) + " err=" + std::to_string(errs);
    if (errs) out += " first_error=" + L.first_error, L.first_error.clear();
    return out;
}

} // namespace

int main(int argc, char** argv) {
    if (argc < 2) { fprintf(stderr, "usage: %s casefile | --hw\n", argv[0]); return 2; }
    if (std::string(argv[1]) == "--hw") { printf("%u\n", std::thread::hardware_concurrency()); return 0; }
    std::ifstream in(argv[1]);
    std::string line;
    while (std::getline(in, line)) {
        if (line.empty()) continue;
        std::istringstream ss(line);
        std::string elem, stab, split, cmp, keystr;
        size_t p, os;
        if (!(ss >> elem >> stab >> split >> cmp >> p >> os >> keystr)) { std::cout << "?" << std::endl; continue; }
        std::vector<int> keys;
        if (keystr != "-") {
            std::istringstream ks(keystr);
            std::string tok;
            while (std::getline(ks, tok, ',')) keys.push_back(atoi(tok.c_str()));
        }
        std::string variant = "avk5";
        ss >> variant;
        bool stable = stab == "S", sampling = split == "X", greater = cmp == "G";
        std::string out = "?";
        const std::string sel = elem + ":" + stab + ":" + variant;
#define V(E, S, T, ST, EN, IT, CM, NA) \
        if (sel == std::string(E) + ":" + S + ":" + std::string(1, EN) + std::string(1, IT) + std::string(1, CM) + #NA) \
            out = run_case<T, ST, EN, IT, CM, NA>(sampling, greater, p, os, keys);
#if !defined(C06_SET) || C06_SET == 0
        // the main path: public entry points, std::vector iterators, all five arguments, three element types
        V("int", "S", int, true, 'a', 'v', 'k', 5) V("int", "U", int, false, 'a', 'v', 'k', 5)
        V("pair", "S", Pair, true, 'a', 'v', 'k', 5) V("pair", "U", Pair, false, 'a', 'v', 'k', 5)
        V("trk", "S", Trk, true, 'a', 'v', 'k', 5) V("trk", "U", Trk, false, 'a', 'v', 'k', 5)
#elif C06_SET == 1
        V("pair", "S", Pair, true, 'a', 'p', 'k', 5) V("pair", "U", Pair, false, 'a', 'd', 'k', 5)
        V("pair", "S", Pair, true, 'a', 'v', 'n', 5) V("pair", "U", Pair, false, 'a', 'v', 'l', 5)
        V("trk", "S", Trk, true, 'a', 'd', 'n', 5) V("int", "U", int, false, 'a', 'v', '-', 2)
#else
        V("pair", "S", Pair, true, 'a', 'v', 'k', 4) V("pair", "U", Pair, false, 'a', 'v', 'k', 3)
        V("pair", "S", Pair, true, 'a', 'v', '-', 2) V("pair", "U", Pair, false, 'b', 'v', 'k', 5)
        V("pair", "S", Pair, true, 'b', 'd', 'l', 4) V("trk", "U", Trk, false, 'b', 'p', 'n', 3)
#endif
#undef V
        std::cout << out << std::endl; // flushed: the last line printed identifies a crashing case
    }
    return 0;
}
