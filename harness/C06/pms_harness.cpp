// C06 correspondence harness: runs tlx::parallel_mergesort / tlx::stable_parallel_mergesort (real std::thread
// workers, compiled from /repo's working tree) on every case of the case file (argv[1]) and prints one canonical
// line per case, in the format of ocaml/C06_driver.ml:
//     keys=<result keys> ord=<original indices | -> win=<non-empty merge windows in position order | -> leak=<n> err=<n>
// case:  <elem:int|pair|trk> <S|U> <E|X> <L|G> <p> <oversampling> <k1,k2,...|-> [<variant, default avk5>]
// (variants: see call_sort below; -DC06_SET=0|1|2 selects which instantiations this executable contains)
//   int  : plain int keys (trivial type)
//   pair : (key, original index) + the id of the thread that assigned the slot last and a per-slot assignment
//          counter: gives the write footprint of the merge phase (one writer per position, contiguous windows; writers are
//          compared with each other only - which OS thread runs which worker is not observed)
//   trk  : (moves poison their source with a MOVED sentinel key; looking at such a key is an error token in the line)
//          (key, original index) where the key lives in a heap block owned by the element and every
//          construction / destruction is entered in a thread-safe ledger (live-instance counter)
// Stable sorts print the arrangement as it is; unstable sorts print the key sequence as it is and the indices
// after canonicalisation (positions of equal keys sorted by index), since the property leaves their order open.
#include <tlx/sort/parallel_mergesort.hpp>

#include <algorithm>
#include <atomic>
#include <cstdio>
#include <chrono>
#include <cstdlib>
#include <unistd.h>
#include <deque>
#include <fstream>
#include <functional>
#include <iostream>
#include <mutex>
#include <set>
#include <sstream>
#include <string>
#include <thread>
#include <vector>

namespace {

// ---------------------------------------------------------------------------------------------- element types
struct Pair {
    int key = 0, idx = 0;
    std::thread::id writer;
    int writes = 0;
    Pair() = default;
    Pair(int k, int i) : key(k), idx(i), writer(std::this_thread::get_id()) {}
    Pair(const Pair& o) : key(o.key), idx(o.idx), writer(std::this_thread::get_id()), writes(0) {}
    Pair& operator=(const Pair& o) {
        key = o.key; idx = o.idx; writer = std::this_thread::get_id(); ++writes;
        return *this;
    }
    // natural order (ascending key); the sorts under test must use the comparator they are given, never this one
    friend bool operator<(const Pair& a, const Pair& b) { return a.key < b.key; }
};

struct MtLedger {
    std::mutex m;
    std::set<const void*> live;
    long errors = 0;
    std::string first_error;
    void err(const char* what, const void* p) {
        ++errors;
        if (first_error.empty()) { char b[160]; snprintf(b, sizeof b, "%s@%p", what, p); first_error = b; }
    }
    static MtLedger& get() { static MtLedger l; return l; }
};

struct Trk {
    int* heap; // owned: the key
    int idx;
    void reg() {
        auto& L = MtLedger::get(); std::lock_guard<std::mutex> g(L.m);
        if (!L.live.insert(this).second) L.err("construct over live object", this);
    }
    static void chk(const Trk& o) {
        auto& L = MtLedger::get(); std::lock_guard<std::mutex> g(L.m);
        if (!L.live.count(&o)) L.err("use of dead object", &o);
    }
    Trk() : heap(new int(0)), idx(0) { reg(); }
    Trk(int k, int i) : heap(new int(k)), idx(i) { reg(); }
    Trk(const Trk& o) : heap(nullptr), idx(o.idx) { chk(o); heap = new int(*o.heap); reg(); }
    Trk& operator=(const Trk& o) { chk(o); chk(*this); *heap = *o.heap; idx = o.idx; return *this; }
    // real move operations that poison the source: a moved-from element keeps a valid heap block holding the MOVED
    // sentinel, so that any later look at its key (a comparator call, a sample drawn from it, its presence in the
    // result) is reported instead of going unnoticed
    static constexpr int MOVED = -777777;
    Trk(Trk&& o) noexcept : heap(nullptr), idx(o.idx) { chk(o); heap = new int(*o.heap); *o.heap = MOVED; o.idx = -9; reg(); }
    Trk& operator=(Trk&& o) noexcept {
        chk(o); chk(*this);
        if (this != &o) { *heap = *o.heap; idx = o.idx; *o.heap = MOVED; o.idx = -9; }
        return *this;
    }
    ~Trk() {
        auto& L = MtLedger::get();
        {
            std::lock_guard<std::mutex> g(L.m);
            if (!L.live.erase(this)) { L.err("destroy of dead object", this); return; }
        }
        delete heap; heap = nullptr;
    }
    int key() const {
        chk(*this);
        if (*heap == MOVED) {
            auto& L = MtLedger::get(); std::lock_guard<std::mutex> g(L.m);
            L.err("comparator-called-on-a-moved-from-element(or-a-copy-of-one)", this);
        }
        return *heap;
    }
    // natural order (ascending key); the sorts under test must use the comparator they are given, never this one
    friend bool operator<(const Trk& a, const Trk& b) { return a.key() < b.key(); }
};

// trivially copyable (key, original index): the element kind for which "optimised" block copies would be legal
struct PodKV { int key; int idx; };
inline bool operator<(const PodKV& a, const PodKV& b) { return a.key < b.key; }
static_assert(std::is_trivially_copyable<PodKV>::value, "PodKV must be trivially copyable");

int key_of(const int& x) { return x; }
int key_of(const PodKV& x) { return x.key; }
int idx_of(const PodKV& x) { return x.idx; }
int key_of(const Pair& x) { return x.key; }
int key_of(const Trk& x) { return x.key(); }
int idx_of(const int&) { return -1; }
int idx_of(const Pair& x) { return x.idx; }
int idx_of(const Trk& x) { return x.idx; }

template <typename T>
struct KeyLess {
    bool greater;
    bool operator()(const T& a, const T& b) const { return greater ? key_of(b) < key_of(a) : key_of(a) < key_of(b); }
};

std::string join(const std::vector<int>& v) {
    std::string s;
    for (size_t i = 0; i < v.size(); ++i) { if (i) s += ','; s += std::to_string(v[i]); }
    return s;
}

template <typename T> T make_elem(int k, int i);
template <> int make_elem<int>(int k, int) { return k; }
template <> Pair make_elem<Pair>(int k, int i) { return Pair(k, i); }
template <> Trk make_elem<Trk>(int k, int i) { return Trk(k, i); }
template <> PodKV make_elem<PodKV>(int k, int i) { return PodKV{k, i}; }

// iterator kinds over a container holding G guard cells, the n elements, G guard cells:
//   'v' std::vector<T>::iterator, 'p' T*, 'd' std::deque<T>::iterator (blocks: not contiguous),
//   'r' std::vector<T>::reverse_iterator (v.rbegin() ...: descending addresses), 'q' std::reverse_iterator<T*>
template <char IterK, typename C> struct RangeOf;
template <typename C> struct RangeOf<'v', C> { using It = typename C::iterator;
    static It begin(C& v, size_t g, size_t) { return v.begin() + static_cast<std::ptrdiff_t>(g); } };
template <typename C> struct RangeOf<'d', C> { using It = typename C::iterator;
    static It begin(C& v, size_t g, size_t) { return v.begin() + static_cast<std::ptrdiff_t>(g); } };
template <typename C> struct RangeOf<'p', C> { using It = typename C::value_type*;
    static It begin(C& v, size_t g, size_t) { return v.empty() ? nullptr : &v[0] + g; } };
template <typename C> struct RangeOf<'r', C> { using It = typename C::reverse_iterator;
    static It begin(C& v, size_t g, size_t) { return v.rbegin() + static_cast<std::ptrdiff_t>(g); } };
template <typename C> struct RangeOf<'q', C> { using It = std::reverse_iterator<typename C::value_type*>;
    static It begin(C& v, size_t g, size_t n) { return It(v.empty() ? nullptr : &v[0] + g + n); } };

// start every case with clean writer tags (filling the container assigns / copies elements)
template <typename It> void reset_tags(It, size_t, int*) {}
template <typename It> void reset_tags(It, size_t, Trk*) {}
template <typename It> void reset_tags(It, size_t, PodKV*) {}
template <typename It> void reset_tags(It b, size_t n, Pair*) {
    for (size_t i = 0; i < n; ++i) { b[i].writer = std::this_thread::get_id(); b[i].writes = 0; }
}
template <typename It> std::string windows_of(It, size_t, int*) { return "-"; }
template <typename It> std::string windows_of(It, size_t, Trk*) { return "-"; }
template <typename It> std::string windows_of(It, size_t, PodKV*) { return "-"; }
template <typename It> std::string windows_of(It v, size_t n, Pair*) {
    // Write footprint of the merge phase: either no position was assigned at all (n <= 1: the sort returns at once), or
    // every position was assigned exactly once; maximal runs of positions assigned by the same thread are the output
    // windows.  Which OS thread plays which worker - in particular whether the calling thread takes part - is not
    // part of the property: writers are only compared with each other.
    bool any = false;
    for (size_t i = 0; i < n; ++i) any = any || v[i].writes != 0;
    if (!any) return "";
    std::vector<int> w;
    for (size_t i = 0; i < n; ++i) {
        if (v[i].writes != 1) return "BADWRITES@" + std::to_string(i) + ":" + std::to_string(v[i].writes);
        if (i > 0 && v[i - 1].writer == v[i].writer) ++w.back(); else w.push_back(1);
    }
    // a thread owns one window: the same writer must not come back after another one
    std::vector<std::thread::id> seen;
    for (size_t i = 0; i < n; ++i) {
        if (i > 0 && v[i - 1].writer == v[i].writer) continue;
        for (const auto& t : seen) if (t == v[i].writer) return "BADWINDOW@" + std::to_string(i);
        seen.push_back(v[i].writer);
    }
    return join(w);
}

// stateful comparator without default constructor (cannot be produced by Comparator())
template <typename T>
struct NdcLess {
    const bool* greater;
    explicit NdcLess(const bool* g) : greater(g) {}
    bool operator()(const T& a, const T& b) const { return *greater ? key_of(b) < key_of(a) : key_of(a) < key_of(b); }
};

// One API variant = container / iterator kind, comparator kind, entry point, number of arguments passed.
//   entry  'a' = tlx::parallel_mergesort / tlx::stable_parallel_mergesort, 'b' = tlx::parallel_mergesort_base<Stable>
//   iter   'v' = std::vector<T>::iterator, 'p' = T*, 'd' = std::deque<T>::iterator, 'r' = std::vector<T>::reverse_iterator,
//          'q' = std::reverse_iterator<T*>
//   cmp    'k' = KeyLess (aggregate with state), 'n' = NdcLess (no default constructor), 'l' = lambda closure,
//          '-' = none passed (Comparator() = std::less<T> = the element's operator<)
//   nargs  2 = (begin, end), 3 = + comp, 4 = + num_threads, 5 = + mwmsa; arguments not passed take their defaults
//          (std::thread::hardware_concurrency() threads, MWMSA_DEFAULT = MWMSA_EXACT)
template <bool Stable, char Entry, int NArgs, typename It, typename Cmp>
void call_sort(It b, It e, Cmp cmp, size_t p, tlx::MultiwayMergeSplittingAlgorithm a) {
    if constexpr (Entry == 'b') {
        if constexpr (NArgs == 3) tlx::parallel_mergesort_base<Stable>(b, e, cmp);
        else if constexpr (NArgs == 4) tlx::parallel_mergesort_base<Stable>(b, e, cmp, p);
        else tlx::parallel_mergesort_base<Stable>(b, e, cmp, p, a);
    } else if constexpr (Stable) {
        if constexpr (NArgs == 3) tlx::stable_parallel_mergesort(b, e, cmp);
        else if constexpr (NArgs == 4) tlx::stable_parallel_mergesort(b, e, cmp, p);
        else tlx::stable_parallel_mergesort(b, e, cmp, p, a);
    } else {
        if constexpr (NArgs == 3) tlx::parallel_mergesort(b, e, cmp);
        else if constexpr (NArgs == 4) tlx::parallel_mergesort(b, e, cmp, p);
        else tlx::parallel_mergesort(b, e, cmp, p, a);
    }
}

template <typename T, bool Stable, char Entry, char IterK, char CmpK, int NArgs>
std::string run_case(bool sampling, bool greater, size_t p, size_t os, const std::vector<int>& keys) {
    using C = typename std::conditional<IterK == 'd', std::deque<T>, std::vector<T> >::type;
    tlx::parallel_multiway_merge_oversampling = os;
    auto& L = MtLedger::get();
    size_t live_before; long err_before;
    { std::lock_guard<std::mutex> g(L.m); live_before = L.live.size(); err_before = L.errors; }
    std::string out, tail;
    long leak = 0, errs = 0;
    {
        // guard cells around the range for the non-default iterator kinds and the trivially copyable element type
        constexpr size_t G = (IterK == 'r' || IterK == 'q' || IterK == 'd' || std::is_same<T, PodKV>::value) ? 3 : 0;
        const size_t n = keys.size();
        C v;
        for (size_t i = 0; i < n + 2 * G; ++i) v.push_back(make_elem<T>(900000 + static_cast<int>(i), -7));
        auto bg = RangeOf<IterK, C>::begin(v, G, n); auto en = bg + static_cast<std::ptrdiff_t>(n);
        for (size_t i = 0; i < n; ++i) bg[i] = make_elem<T>(keys[i], static_cast<int>(i));
        reset_tags(bg, n, static_cast<T*>(nullptr));
        size_t live_in;
        { std::lock_guard<std::mutex> g(L.m); live_in = L.live.size(); }
        tlx::MultiwayMergeSplittingAlgorithm a = sampling ? tlx::MWMSA_SAMPLING : tlx::MWMSA_EXACT;
        if constexpr (CmpK == '-') {
            if constexpr (Stable) tlx::stable_parallel_mergesort(bg, en); else tlx::parallel_mergesort(bg, en);
        } else if constexpr (CmpK == 'n') {
            call_sort<Stable, Entry, NArgs>(bg, en, NdcLess<T>(&greater), p, a);
        } else if constexpr (CmpK == 'l') {
            auto lam = [greater](const T& x, const T& y) { return greater ? key_of(y) < key_of(x) : key_of(x) < key_of(y); };
            call_sort<Stable, Entry, NArgs>(bg, en, lam, p, a);
        } else {
            call_sort<Stable, Entry, NArgs>(bg, en, KeyLess<T>{greater}, p, a);
        }
        { std::lock_guard<std::mutex> g(L.m); leak = static_cast<long>(L.live.size()) - static_cast<long>(live_in); }
        std::vector<int> ks, is;
        for (size_t i = 0; i < n; ++i) ks.push_back(key_of(bg[i]));
        std::string win = windows_of(bg, n, static_cast<T*>(nullptr));
        std::string guard;
        for (size_t i = 0; i < n + 2 * G; ++i) {
            if (i >= G && i < G + n) { if (IterK == 'r' || IterK == 'q') continue; }
            // (for the reversed kinds the range occupies the same middle cells; v[] is in memory order)
            if (i >= G && i < G + n) continue;
            if (key_of(v[i]) != 900000 + static_cast<int>(i) || idx_of(v[i]) != (std::is_same<T, int>::value ? -1 : -7)) {
                guard = " GUARD-OVERWRITTEN@" + std::to_string(i); break;
            }
        }
        if (!Stable) {
            // canonicalise what the property leaves open: order of the indices inside a group of equal keys
            // (only if the keys are in order; otherwise the raw arrangement is shown)
            std::vector<std::pair<int, int> > kv;
            for (size_t q = 0; q < n; ++q) kv.emplace_back(key_of(bg[q]), idx_of(bg[q]));
            size_t i = 0;
            while (i < kv.size()) {
                size_t j = i;
                while (j < kv.size() && kv[j].first == kv[i].first) ++j;
                std::sort(kv.begin() + i, kv.begin() + j);
                i = j;
            }
            for (auto& x : kv) is.push_back(x.second);
        } else {
            for (size_t q = 0; q < n; ++q) is.push_back(idx_of(bg[q]));
        }
        out = "keys=" + join(ks) + " ord=" + (std::is_same<T, int>::value ? std::string("-") : join(is)) + " win=" + win;
        tail = guard;
    }
    {
        std::lock_guard<std::mutex> g(L.m);
        errs = L.errors - err_before;
        if (L.live.size() != live_before) {
            // forget leaked temporaries so that the next case starts clean
            L.live.clear();
        }
    }
    out += " leak=" + std::to_string(leak) + " err=" + std::to_string(errs);
    if (errs) out += " first_error=" + L.first_error, L.first_error.clear();
    return out + tail;
}

// A case that produces no result within the limit (a deadlock in the sort: the main thread sits in join()) is reported
// on stdout with its case line and the process ends: the check turns this into a violation with that input.
std::mutex g_wd_m;
std::string g_wd_case;
std::chrono::steady_clock::time_point g_wd_deadline;
bool g_wd_armed = false;
void watchdog(int limit_s) {
    for (;;) {
        std::this_thread::sleep_for(std::chrono::milliseconds(200));
        std::lock_guard<std::mutex> g(g_wd_m);
        if (g_wd_armed && std::chrono::steady_clock::now() > g_wd_deadline) {
            printf("C06-WATCHDOG no result after %d s: %s\n", limit_s, g_wd_case.c_str());
            fflush(stdout);
            _exit(3);
        }
    }
}

} // namespace

int main(int argc, char** argv) {
    if (argc < 2) { fprintf(stderr, "usage: %s casefile | --hw\n", argv[0]); return 2; }
    if (std::string(argv[1]) == "--hw") { printf("%u\n", std::thread::hardware_concurrency()); return 0; }
    const int limit_s = getenv("C06_CASE_TIMEOUT") ? atoi(getenv("C06_CASE_TIMEOUT")) : 20;
    std::thread(watchdog, limit_s).detach();
    std::ifstream in(argv[1]);
    std::string line;
    while (std::getline(in, line)) {
        if (line.empty()) continue;
        std::istringstream ss(line);
        std::string elem, stab, split, cmp, keystr;
        size_t p, os;
        if (!(ss >> elem >> stab >> split >> cmp >> p >> os >> keystr)) { std::cout << "?" << std::endl; continue; }
        std::vector<int> keys;
        if (keystr != "-") {
            std::istringstream ks(keystr);
            std::string tok;
            while (std::getline(ks, tok, ',')) keys.push_back(atoi(tok.c_str()));
        }
        { std::lock_guard<std::mutex> g(g_wd_m); g_wd_case = line; g_wd_armed = true;
          g_wd_deadline = std::chrono::steady_clock::now() + std::chrono::seconds(limit_s); }
        std::string variant = "avk5";
        ss >> variant;
        bool stable = stab == "S", sampling = split == "X", greater = cmp == "G";
        std::string out = "?";
        const std::string sel = elem + ":" + stab + ":" + variant;
#define V(E, S, T, ST, EN, IT, CM, NA) \
        if (sel == std::string(E) + ":" + S + ":" + std::string(1, EN) + std::string(1, IT) + std::string(1, CM) + #NA) \
            out = run_case<T, ST, EN, IT, CM, NA>(sampling, greater, p, os, keys);
#if !defined(C06_SET) || C06_SET == 0
        // the main path: public entry points, std::vector iterators, all five arguments, three element types
        V("int", "S", int, true, 'a', 'v', 'k', 5) V("int", "U", int, false, 'a', 'v', 'k', 5)
        V("pair", "S", Pair, true, 'a', 'v', 'k', 5) V("pair", "U", Pair, false, 'a', 'v', 'k', 5)
        V("trk", "S", Trk, true, 'a', 'v', 'k', 5) V("trk", "U", Trk, false, 'a', 'v', 'k', 5)
#elif C06_SET == 1
        V("pair", "S", Pair, true, 'a', 'p', 'k', 5) V("pair", "U", Pair, false, 'a', 'd', 'k', 5)
        V("pair", "S", Pair, true, 'a', 'v', 'n', 5) V("pair", "U", Pair, false, 'a', 'v', 'l', 5)
        V("trk", "S", Trk, true, 'a', 'd', 'n', 5) V("int", "U", int, false, 'a', 'v', '-', 2)
#elif C06_SET == 3
        // iterator kinds that are not contiguous-ascending, trivially copyable and non-trivial element types
        V("pod", "S", PodKV, true, 'a', 'r', 'k', 5) V("pod", "U", PodKV, false, 'a', 'q', 'k', 5)
        V("pod", "S", PodKV, true, 'a', 'd', 'k', 5) V("pod", "U", PodKV, false, 'a', 'v', 'k', 5)
        V("int", "U", int, false, 'a', 'd', 'k', 5) V("int", "S", int, true, 'a', 'r', 'k', 5)
        V("pair", "U", Pair, false, 'a', 'r', 'k', 5) V("trk", "S", Trk, true, 'a', 'q', 'k', 5)
#else
        V("pair", "S", Pair, true, 'a', 'v', 'k', 4) V("pair", "U", Pair, false, 'a', 'v', 'k', 3)
        V("pair", "S", Pair, true, 'a', 'v', '-', 2) V("pair", "U", Pair, false, 'b', 'v', 'k', 5)
        V("pair", "S", Pair, true, 'b', 'd', 'l', 4) V("trk", "U", Trk, false, 'b', 'p', 'n', 3)
#endif
#undef V
        { std::lock_guard<std::mutex> g(g_wd_m); g_wd_armed = false; }
        std::cout << out << std::endl; // flushed: the last line printed identifies a crashing case
    }
    return 0;
}
