// C10 trace-correspondence harness: runs the REAL tlx::ThreadPool (tlx/thread_pool.cpp compiled with
// -include harness/sched/verif_sched.hpp) under the deterministic scheduler, one scenario per input line,
// one child process per batch of scenarios (a new child after each DEADLOCK/crash), and prints ONE line per scenario:
//   OK <event trace>
//   DEADLOCK why=<..> STATE THREADS <id>:<finished>:<kind>:<notified>,... CHOICES <c,c,..> TRACE <event trace>
//   (the component state at a rest state -- queue length, counters -- is derived from the trace by the driver, not read from the object)
//   CRASH status=<n> <tail of the child's output>
// Scenario line:  W=<workers> J=<id>:<jop>.<jop>;<id>:... C=<cop>.<cop>;<cop>... M=<cop>.<cop> sp=<0|1> st=<0|1> seed=<n> [ch=<c,c,...>]
//   jop: e<j> enqueue job j | t terminate() | x throw std::runtime_error at the end of the body (after the effect) |
//        w<j> rendezvous: block (shim mutex / condition variable of the harness, not the pool's) until the body of job j has ended, then note WD j |
//        c<j> the closure's captured RAII token enqueues job j from its destructor | F / B (first op) the job is enqueued as a
//        plain function pointer / a bound member function instead of a capturing lambda (then there is no closure token);
//   cop: e<j> | L loop_until_empty | T loop_until_terminate | X terminate() | D done() | S size() | I idle() | H has_idle() | R thread(i) audit
//   optional: init=<n> pool constructed with an InitThread hook (user event IT p, then n yields); dflt=1 default-size constructor
//   "-" = empty list.  Thread ids: 0 main, 1..W workers, W+1.. clients (in the order of C).
// Program of the main thread: construct pool(W); spawn the clients; run M; join the clients; destroy the pool.
// User events: JS/JE job body start/end (scheduling points), ENQ/LE/LT/TERM call markers and LER (return of
// loop_until_empty; argument = number of job bodies whose effect is visible to the caller) as notes; CD j = the closure of
// job j (its captured token) was destroyed; IT p = InitThread hook of worker p; SZ/DONE/IDLE/HAS/THR = observed size()/done()/idle()/
// has_idle()/thread(i) results; LDONE v = done() read right after a loop_until_empty return; DTOR = the destructor is about to run.  The pool's "EXCEPTION: ..." line on std::cerr is discarded.
#include <cstdio>
#include <cstdlib>
#include <cstring>
#include <fstream>
#include <iostream>
#include <memory>
#include <new>
#include <stdexcept>
#include <sstream>
#include <string>
#include <vector>
#include <poll.h>
#include <signal.h>
#include <sys/wait.h>
#include <unistd.h>

#include <tlx/thread_pool.hpp>

// No private member of ThreadPool is named here.  Shim object ids are assigned in order of first use, so the pool's mutex,
// its two condition variables and its four atomics get schedule-dependent names; the driver identifies them by ROLE from the
// trace.  Only the harness' own rendezvous mutex / condition variable are pre-registered (ids m0 / c0 in the raw trace).
struct Op { char k; int j; };
struct Scenario {
    int W = 1; std::vector<std::vector<Op>> jobs; std::vector<std::vector<Op>> clients; std::vector<Op> mainops;
    int sp = 0, st = 0; unsigned long long seed = 1; std::vector<int> choices; bool has_choices = false;
    int init = -1; int dflt = 0;
};

static std::vector<std::string> split(const std::string& s, char c) {
    std::vector<std::string> out; size_t p = 0;
    while (true) { size_t q = s.find(c, p); if (q == std::string::npos) { out.push_back(s.substr(p)); break; } out.push_back(s.substr(p, q - p)); p = q + 1; }
    return out;
}
static std::vector<Op> parse_ops(const std::string& s) {
    std::vector<Op> v; if (s == "-" || s.empty()) return v;
    for (auto& t : split(s, '.')) { if (t.empty()) continue; Op o; o.k = t[0]; o.j = t.size() > 1 ? atoi(t.c_str() + 1) : 0; v.push_back(o); }
    return v;
}
static bool parse(const std::string& line, Scenario& sc) {
    std::istringstream in(line); std::string tok;
    while (in >> tok) {
        size_t e = tok.find('='); if (e == std::string::npos) return false;
        std::string k = tok.substr(0, e), v = tok.substr(e + 1);
        if (k == "W") sc.W = atoi(v.c_str());
        else if (k == "J") { if (v != "-") for (auto& js : split(v, ';')) { size_t c = js.find(':'); if (c == std::string::npos) return false;
                size_t id = static_cast<size_t>(atoi(js.substr(0, c).c_str())); if (sc.jobs.size() <= id) sc.jobs.resize(id + 1); sc.jobs[id] = parse_ops(js.substr(c + 1)); } }
        else if (k == "C") { if (v != "-") for (auto& cs : split(v, ';')) sc.clients.push_back(parse_ops(cs)); }
        else if (k == "M") sc.mainops = parse_ops(v);
        else if (k == "sp") sc.sp = atoi(v.c_str());
        else if (k == "st") sc.st = atoi(v.c_str());
        else if (k == "seed") sc.seed = strtoull(v.c_str(), nullptr, 10);
        else if (k == "init") sc.init = atoi(v.c_str());
        else if (k == "dflt") sc.dflt = atoi(v.c_str());
        else if (k == "ch") { sc.has_choices = true; for (auto& c : split(v, ',')) if (!c.empty()) sc.choices.push_back(atoi(c.c_str())); }
        else return false;
    }
    return sc.W >= 0 && sc.W <= 16;
}

// ---- the run (inside the child) ---------------------------------------------------------------------------
alignas(tlx::ThreadPool) static unsigned char pool_buf[sizeof(tlx::ThreadPool)];
static tlx::ThreadPool* g_pool = nullptr;
static bool g_pool_alive = false;   // false while ~ThreadPool runs: a closure destroyed with the queue must not enqueue into it
static Scenario* g_sc = nullptr;
static int g_ran[4096];        // plain (non-atomic) memory written by the job bodies: the "effects" of the jobs
static int g_started[4096];

static void run_job(int j);
static void do_enqueue(int j);
static char job_kind(int j) {   // 'L' capturing lambda (default), 'F' function pointer, 'B' bound member
    if (j >= 0 && static_cast<size_t>(j) < g_sc->jobs.size() && !g_sc->jobs[static_cast<size_t>(j)].empty()) {
        char k = g_sc->jobs[static_cast<size_t>(j)][0].k; if (k == 'F' || k == 'B') return k;
    }
    return 'L';
}
// RAII token captured by every lambda job: its destructor runs when the job's closure is destroyed
struct Token {
    int j; explicit Token(int jj) : j(jj) {}
    Token(const Token&) = delete; Token& operator=(const Token&) = delete;
    ~Token() {
        verif::Sched& s = verif::Sched::get();
        if (!s.active()) return;
        s.note("CD", j);
        if (g_pool_alive && static_cast<size_t>(j) < g_sc->jobs.size())
            for (const Op& o : g_sc->jobs[static_cast<size_t>(j)]) if (o.k == 'c') do_enqueue(o.j);   // continuation from the destructor
    }
};
template <int J> static void fp_job() { run_job(J); }
typedef void (*FP)();
static FP fp_table[8] = { fp_job<0>, fp_job<1>, fp_job<2>, fp_job<3>, fp_job<4>, fp_job<5>, fp_job<6>, fp_job<7> };
struct Bound { int j; void run() { run_job(j); } };
static Bound bound_objs[4096];
static void do_enqueue(int j) {
    verif::Sched::get().note("ENQ", j);
    char k = job_kind(j);
    if (k == 'F' && j >= 0 && j < 8) g_pool->enqueue(tlx::ThreadPool::Job(fp_table[j]));
    else if (k == 'B') { bound_objs[j & 4095].j = j; g_pool->enqueue(tlx::ThreadPool::Job::make<Bound, &Bound::run>(&bound_objs[j & 4095])); }
    else { auto tok = std::make_shared<Token>(j); g_pool->enqueue([tok]() { run_job(tok->j); }); }
}
static void do_terminate() { verif::Sched::get().note("TERM"); g_pool->terminate(); }
// rendezvous between job bodies: completion flags guarded by a shim mutex / condition variable of the harness (ids m1, c2)
static verif::mutex* g_rm = nullptr; static verif::condition_variable* g_rcv = nullptr;
static bool g_flag[4096]; static bool g_waited[4096];
static void run_job(int j) {
    verif::Sched& s = verif::Sched::get();
    s.user("JS", j); g_started[j & 4095]++;
    bool thr = false;
    if (static_cast<size_t>(j) < g_sc->jobs.size())
        for (const Op& o : g_sc->jobs[static_cast<size_t>(j)]) {
            if (o.k == 'e') do_enqueue(o.j);
            else if (o.k == 't') do_terminate();
            else if (o.k == 'x') thr = true;
            else if (o.k == 'w') {
                { std::unique_lock<verif::mutex> lk(*g_rm); while (!g_flag[o.j & 4095]) g_rcv->wait(lk); }
                s.note("WD", o.j);
            }
        }
    s.user("JE", j); g_ran[j & 4095]++;   // the effect becomes visible atomically with the JE event
    if (g_waited[j & 4095]) { std::unique_lock<verif::mutex> lk(*g_rm); g_flag[j & 4095] = true; g_rcv->notify_all(); }   // after JE
    if (thr) throw std::runtime_error("job " + std::to_string(j));   // the pool catches std::exception and goes on
}
static void run_cops(const std::vector<Op>& ops) {
    verif::Sched& s = verif::Sched::get();
    for (const Op& o : ops) {
        switch (o.k) {
        case 'e': do_enqueue(o.j); break;
        case 'L': {
            s.note("LE"); g_pool->loop_until_empty();
            long sum = 0; for (int i = 0; i < 4096; ++i) sum += g_ran[i];      // what the caller sees at the return
            s.note("LER", sum);
            { size_t d = g_pool->done(); s.note("LDONE", static_cast<long long>(d)); }    // completed-job count through the public API
            break; }
        case 'T': s.note("LT"); g_pool->loop_until_terminate(); break;
        case 'X': do_terminate(); break;
        case 'D': { size_t d = g_pool->done(); s.note("DONE", static_cast<long long>(d)); break; }
        case 'S': s.note("SZ", static_cast<long long>(g_pool->size())); break;
        case 'I': { size_t v = g_pool->idle(); s.note("IDLE", static_cast<long long>(v)); break; }
        case 'H': { bool b = g_pool->has_idle(); s.note("HAS", b ? 1 : 0); break; }
        case 'R': { bool ok = true;
            for (size_t i = 0; i < g_pool->size(); ++i) { auto& t = g_pool->thread(i); ok = ok && t.joinable() && t.get_id() == static_cast<int>(i) + 1; }
            s.note("THR", ok ? 1 : 0); break; }
        default: break;
        }
    }
}

static int child_main(Scenario& sc) {
    g_sc = &sc;
    verif::Sched& s = verif::Sched::get();
    verif::Sched::hw_concurrency() = static_cast<unsigned>(sc.W);
    s.begin(sc.seed, sc.st, sc.sp != 0, 30000);
    if (sc.has_choices) s.set_replay(sc.choices);
    static verif::mutex rm; static verif::condition_variable rcv; g_rm = &rm; g_rcv = &rcv;
    s.objid(&rm, 'm'); s.objid(&rcv, 'c');                                   // raw ids m0, c0 (the pool's objects follow)
    memset(g_flag, 0, sizeof(g_flag)); memset(g_waited, 0, sizeof(g_waited));
    for (auto& ops : sc.jobs) for (const Op& o : ops) if (o.k == 'w') g_waited[o.j & 4095] = true;
    static std::ostringstream cerr_sink; cerr_sink.str(""); std::cerr.rdbuf(cerr_sink.rdbuf());   // "EXCEPTION: ..." of the pool
    if (sc.init >= 0) {
        int n = sc.init;
        g_pool = new (pool_buf) tlx::ThreadPool(static_cast<size_t>(sc.W), [n](size_t p) {
            verif::Sched::get().user("IT", static_cast<long long>(p));
            for (int i = 0; i < n; ++i) verif::this_thread::yield();
        });
    } else if (sc.dflt) g_pool = new (pool_buf) tlx::ThreadPool();          // hardware_concurrency() through the shim = W
    else g_pool = new (pool_buf) tlx::ThreadPool(static_cast<size_t>(sc.W));
    g_pool_alive = true;
    {
        std::vector<verif::thread> cl;
        for (size_t c = 0; c < sc.clients.size(); ++c) cl.emplace_back([&sc, c]() { run_cops(sc.clients[c]); });
        run_cops(sc.mainops);
        for (auto& t : cl) t.join();
    }
    g_pool_alive = false;
    s.note("DTOR");
    g_pool->~ThreadPool();
    std::string trace = s.end();
    printf("OK %s\n", trace.c_str());
    fflush(stdout);
    return 0;
}

// ---- parent: one child per batch of scenarios (a new child after every DEADLOCK / crash) ---------------------
static std::string one_line(std::string s) { for (char& c : s) if (c == '\n' || c == '\r') c = ' '; return s; }
static std::string field_after(const std::string& out, const std::string& key) {   // text of the line starting with key
    size_t p = 0;
    while (p < out.size()) {
        size_t q = out.find('\n', p); if (q == std::string::npos) q = out.size();
        if (out.compare(p, key.size(), key) == 0) return out.substr(p + key.size(), q - p - key.size());
        p = q + 1;
    }
    return "";
}
static void report(const std::string& out, bool clean_exit, int status, bool timed_out) {
    if (out.compare(0, 3, "OK ") == 0 && (clean_exit || out.find('\n') != std::string::npos)) {
        printf("%s\n", one_line(out.substr(0, out.find('\n'))).c_str());
    } else if (!timed_out && WIFEXITED(status) && WEXITSTATUS(status) == 3 && out.compare(0, 8, "DEADLOCK") == 0) {
        std::string first = out.substr(0, out.find('\n'));           // DEADLOCK seed=.. strategy=.. why=...
        size_t w = first.find("why="); std::string why = w == std::string::npos ? "?" : first.substr(w + 4);
        for (char& c : why) if (c == ' ') c = '_';
        std::string threads; size_t p = 0;
        while (p < out.size()) {
            size_t q = out.find('\n', p); if (q == std::string::npos) q = out.size();
            int id, fin, kind, notif;
            if (sscanf(out.substr(p, q - p).c_str(), "THREAD %d finished=%d kind=%d notified=%d", &id, &fin, &kind, &notif) == 4) {
                if (!threads.empty()) threads += ",";
                threads += std::to_string(id) + ":" + std::to_string(fin) + ":" + std::to_string(kind) + ":" + std::to_string(notif);
            }
            p = q + 1;
        }
        printf("DEADLOCK why=%s STATE %s THREADS %s CHOICES %s TRACE %s\n", why.c_str(), field_after(out, "STATE ").c_str(), threads.c_str(),
               field_after(out, "CHOICES ").c_str(), field_after(out, "TRACE ").c_str());
    } else {
        std::string tail = out.size() > 1500 ? out.substr(out.size() - 1500) : out;
        printf("CRASH status=%d timeout=%d %s\n", status, timed_out ? 1 : 0, one_line(tail).c_str());
    }
}

int main(int argc, char** argv) {
    if (argc < 2) { fprintf(stderr, "usage: %s casefile\n", argv[0]); return 2; }
    std::ifstream f(argv[1]); std::string line; std::vector<std::string> lines;
    while (std::getline(f, line)) if (!line.empty()) lines.push_back(line);
    signal(SIGPIPE, SIG_IGN);
    size_t next = 0;
    const std::string MARK = "\x01" "CASE\n";
    int hangs = 0;
    while (next < lines.size()) {
        if (hangs >= 2) {   // do not wait again and again: report the rest as not run
            for (; next < lines.size(); ++next) printf("CRASH status=0 timeout=1 (not run: two scenarios before this one hung)\n");
            break;
        }
        int fd[2]; if (pipe(fd) != 0) { perror("pipe"); return 2; }
        fflush(stdout);
        pid_t pid = fork();
        if (pid == 0) {
            close(fd[0]); dup2(fd[1], 1); dup2(fd[1], 2); close(fd[1]);
            for (size_t k = next; k < lines.size(); ++k) {
                fputs(MARK.c_str(), stdout); fflush(stdout);
                Scenario sc;
                if (!parse(lines[k], sc)) { printf("BADCASE\n"); fflush(stdout); _exit(4); }
                memset(g_ran, 0, sizeof(g_ran)); memset(g_started, 0, sizeof(g_started));
                child_main(sc);
            }
            fflush(stdout); _exit(0);
        }
        close(fd[1]);
        std::string out; char buf[65536]; bool timed_out = false; size_t done_cases = 0;
        auto flush_complete = [&](bool final, int status) {
            // out = MARK case MARK case ... ; every case but the last is complete
            while (true) {
                if (out.compare(0, MARK.size(), MARK) != 0) { if (final && !out.empty()) { report(out, false, status, timed_out); ++done_cases; out.clear(); } return; }
                size_t nx = out.find(MARK, MARK.size());
                if (nx == std::string::npos) {
                    if (!final) return;
                    report(out.substr(MARK.size()), WIFEXITED(status) && WEXITSTATUS(status) == 0, status, timed_out); ++done_cases; out.clear(); return;
                }
                report(out.substr(MARK.size(), nx - MARK.size()), true, 0, false); ++done_cases;
                out.erase(0, nx);
            }
        };
        while (true) {
            struct pollfd pfd = { fd[0], POLLIN, 0 };
            int pr = poll(&pfd, 1, 20000);      // a scenario runs for milliseconds (step bound 30000): 20 s without output = the child hangs
            if (pr <= 0) { timed_out = true; kill(pid, SIGKILL); break; }
            ssize_t n = read(fd[0], buf, sizeof(buf)); if (n <= 0) break; out.append(buf, static_cast<size_t>(n));
            flush_complete(false, 0);
        }
        close(fd[0]);
        int status = 0; waitpid(pid, &status, 0);
        if (timed_out) ++hangs;
        flush_complete(true, status);
        if (done_cases == 0) { printf("CRASH status=%d timeout=%d (child produced nothing)\n", status, timed_out ? 1 : 0); done_cases = 1; }
        next += done_cases;
        fflush(stdout);
    }
    return 0;
}
