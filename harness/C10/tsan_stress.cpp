// C10 real-thread stress program for ThreadSanitizer (no scheduler shim): compiled with -fsanitize=thread together with
// /repo/tlx/thread_pool.cpp.  The property promises that the jobs' effects are visible to the caller when loop_until_empty
// returns, i.e. a happens-before edge from every finished job to that return (and from a parent job to the jobs it
// enqueues).  Under the shim everything is sequentially consistent, so a weakened synchronisation is invisible there; here
// jobs write PLAIN (non-atomic) vector slots, children read what their parent wrote, and the callers read everything after
// loop_until_empty / loop_until_terminate / the destructor.  A missing edge is a data race TSan reports; a wrong value is
// reported by the program itself.
//
// usage: tsan_stress <rounds> <seed> [<only-scenario> <only-round>]
// stdout: one line per round  "R <scenario> <round> <threads> ok"  or  "BAD <scenario> <round> <threads> <what>"
// stderr: "ROUND <scenario> <round> <threads>" before each round (so that a TSan report can be attributed to its round)
// watchdog: no round finished for 20 s (env C10_WATCHDOG_S) -> "C10-WATCHDOG scenario=.. round=.. seed=.." on stdout, exit status 3
#include <atomic>
#include <chrono>
#include <cstdio>
#include <cstdlib>
#include <cstring>
#include <string>
#include <thread>
#include <vector>
#include <unistd.h>

#include <tlx/thread_pool.hpp>

static unsigned long long rng_state = 1;
static unsigned long long rnd() {
    rng_state += 0x9E3779B97F4A7C15ull; unsigned long long z = rng_state;
    z = (z ^ (z >> 30)) * 0xBF58476D1CE4E5B9ull; z = (z ^ (z >> 27)) * 0x94D049BB133111EBull; return z ^ (z >> 31);
}

static std::vector<long> val;          // plain memory written by the jobs
static long expect_tree(size_t i, long base) { return i == 0 ? base : expect_tree((i - 1) / 2, base) * 3 + static_cast<long>(i); }

// job i of a binary tree: reads what its parent wrote, writes its own slot, enqueues its children
static void tree_job(tlx::ThreadPool* pool, size_t i, size_t n, long base) {
    long v = (i == 0) ? base : val[(i - 1) / 2] * 3 + static_cast<long>(i);
    val[i] = v;
    for (size_t c = 2 * i + 1; c <= 2 * i + 2 && c < n; ++c) pool->enqueue([pool, c, n, base]() { tree_job(pool, c, n, base); });
}
static std::string check_tree(size_t n, long base) {
    for (size_t i = 0; i < n; ++i) {
        long e = expect_tree(i, base);
        if (val[i] != e) return "slot " + std::to_string(i) + " = " + std::to_string(val[i]) + ", expected " + std::to_string(e);
    }
    return "";
}

// scenario 0: several generations of a job tree on one pool, caller checks after each loop_until_empty; then destructor
static std::string sc_tree(size_t threads, size_t n, int gens) {
    tlx::ThreadPool pool(threads);
    size_t total = 0;
    for (int g = 0; g < gens; ++g) {
        long base = 1 + static_cast<long>(g);
        val.assign(n, -1);
        pool.enqueue([&pool, n, base]() { tree_job(&pool, 0, n, base); });
        pool.loop_until_empty();
        std::string r = check_tree(n, base); if (!r.empty()) return "generation " + std::to_string(g) + ": " + r;
        total += n;
        if (pool.done() != total) return "done() = " + std::to_string(pool.done()) + ", expected " + std::to_string(total);
    }
    return "";
}
// scenario 1: a second client thread waits in loop_until_empty concurrently and reads the jobs' effects as well
static std::string sc_two_waiters(size_t threads, size_t n) {
    tlx::ThreadPool pool(threads);
    val.assign(n, -1);
    long base = 7;
    pool.enqueue([&pool, n, base]() { tree_job(&pool, 0, n, base); });
    std::string r2;
    std::thread second([&]() { pool.loop_until_empty(); r2 = check_tree(n, base); });
    pool.loop_until_empty();
    std::string r1 = check_tree(n, base);
    second.join();
    if (!r1.empty()) return "first waiter: " + r1;
    if (!r2.empty()) return "second waiter: " + r2;
    if (pool.done() != n) return "done() = " + std::to_string(pool.done());
    return "";
}
// scenario 2: a chain of jobs, the last one calls terminate(); the caller waits in loop_until_terminate
static void chain_job(tlx::ThreadPool* pool, size_t i, size_t n) {
    val[i] = (i == 0 ? 5 : val[i - 1] + 2);
    if (i + 1 < n) pool->enqueue([pool, i, n]() { chain_job(pool, i + 1, n); });
    else pool->terminate();
}
static std::string sc_chain_terminate(size_t threads, size_t n) {
    tlx::ThreadPool pool(threads);
    val.assign(n, -1);
    pool.enqueue([&pool, n]() { chain_job(&pool, 0, n); });
    pool.loop_until_terminate();
    for (size_t i = 0; i < n; ++i)
        if (val[i] != 5 + 2 * static_cast<long>(i)) return "slot " + std::to_string(i) + " = " + std::to_string(val[i]);
    if (pool.done() != n) return "done() = " + std::to_string(pool.done());
    return "";
}
// scenario 3: independent jobs; a client thread calls terminate() at some point; the values are read after the destructor
static std::string sc_client_terminate(size_t threads, size_t n, bool coin) {
    val.assign(n, 0);
    size_t done = 0;
    {
        tlx::ThreadPool pool(threads);
        for (size_t i = 0; i < n; ++i) pool.enqueue([i]() { val[i] = 100 + static_cast<long>(i); });
        std::thread killer([&pool, coin]() { if (coin) std::this_thread::yield(); pool.terminate(); });
        pool.loop_until_terminate();
        done = pool.done();
        killer.join();
    }
    size_t ran = 0;
    for (size_t i = 0; i < n; ++i) {
        if (val[i] == 100 + static_cast<long>(i)) ++ran;
        else if (val[i] != 0) return "slot " + std::to_string(i) + " = " + std::to_string(val[i]);
    }
    if (ran != done) return std::to_string(ran) + " job effects visible after the destructor, done() was " + std::to_string(done);
    return "";
}
// scenario 4: jobs enqueued from a second thread while the first waits; destructor right after loop_until_empty
static std::string sc_enqueue_from_thread(size_t threads, size_t n) {
    val.assign(n, 0);
    {
        tlx::ThreadPool pool(threads);
        std::thread producer([&pool, n]() { for (size_t i = 0; i < n; ++i) pool.enqueue([i]() { val[i] = 9 * static_cast<long>(i) + 1; }); });
        producer.join();
        pool.loop_until_empty();
        for (size_t i = 0; i < n; ++i) if (val[i] != 9 * static_cast<long>(i) + 1) return "slot " + std::to_string(i) + " = " + std::to_string(val[i]);
        if (pool.done() != n) return "done() = " + std::to_string(pool.done());
    }
    return "";
}

// scenario 5: two pools; jobs of pool A enqueue jobs onto pool B that read what the A-job wrote (the property is per pool:
// A.loop_until_empty() orders A's jobs, then B.loop_until_empty() orders the B-jobs they enqueued)
static std::string sc_two_pools(size_t threads, size_t n) {
    val.assign(2 * n, -1);
    tlx::ThreadPool a(threads), b(1 + threads % 3);
    for (size_t i = 0; i < n; ++i)
        a.enqueue([&b, i, n]() { val[i] = 11 * static_cast<long>(i) + 3; b.enqueue([i, n]() { val[n + i] = val[i] + 1; }); });
    a.loop_until_empty();
    b.loop_until_empty();
    for (size_t i = 0; i < n; ++i) {
        if (val[i] != 11 * static_cast<long>(i) + 3) return "A slot " + std::to_string(i) + " = " + std::to_string(val[i]);
        if (val[n + i] != val[i] + 1) return "B slot " + std::to_string(i) + " = " + std::to_string(val[n + i]);
    }
    if (a.done() != n || b.done() != n) return "done() = " + std::to_string(a.done()) + "/" + std::to_string(b.done());
    return "";
}
// scenario 6: an observer thread polls done()/idle()/has_idle()/size()/thread(i) while the jobs run
static std::string sc_observers(size_t threads, size_t n) {
    tlx::ThreadPool pool(threads);
    val.assign(n, -1);
    std::string obs;
    std::atomic<bool> stop(false);
    std::thread observer([&]() {
        size_t last = 0;
        while (!stop.load()) {
            size_t d = pool.done(), id = pool.idle();
            if (d < last) obs = "done() went backwards: " + std::to_string(last) + " -> " + std::to_string(d);
            if (d > n) obs = "done() = " + std::to_string(d) + " > number of jobs";
            if (id > threads) obs = "idle() = " + std::to_string(id) + " > pool size";
            if (pool.size() != threads) obs = "size() = " + std::to_string(pool.size());
            (void)pool.has_idle(); (void)pool.thread(threads - 1).joinable();
            last = d; std::this_thread::yield();
        }
    });
    pool.enqueue([&pool, n]() { tree_job(&pool, 0, n, 3); });
    pool.loop_until_empty();
    stop.store(true); observer.join();
    std::string r = check_tree(n, 3); if (!r.empty()) return r;
    if (!obs.empty()) return obs;
    if (pool.done() != n) return "done() = " + std::to_string(pool.done());
    return "";
}

int main(int argc, char** argv) {
    int rounds = argc > 1 ? atoi(argv[1]) : 200;
    rng_state = argc > 2 ? strtoull(argv[2], nullptr, 10) : 1;
    int only_sc = argc > 4 ? atoi(argv[3]) : -1, only_round = argc > 4 ? atoi(argv[4]) : -1;
    int bad = 0;
    // watchdog: a round normally takes milliseconds; no progress for WATCHDOG_S seconds = the pool hangs (lost wake-up / deadlock)
    static std::atomic<long> cur_round(-1), cur_sc(-1), cur_threads(0), progress(0); static std::atomic<bool> finished(false);
    const unsigned long long seed0 = rng_state;
    const int watchdog_s = getenv("C10_WATCHDOG_S") ? atoi(getenv("C10_WATCHDOG_S")) : 20;
    std::thread watchdog([&]() {
        long seen = -1; auto since = std::chrono::steady_clock::now();
        while (!finished.load()) {
            std::this_thread::sleep_for(std::chrono::milliseconds(100));
            long p = progress.load();
            if (p != seen) { seen = p; since = std::chrono::steady_clock::now(); continue; }
            if (std::chrono::steady_clock::now() - since > std::chrono::seconds(watchdog_s)) {
                printf("C10-WATCHDOG scenario=%ld round=%ld threads=%ld seed=%llu rounds=%d no progress for %d s\n", cur_sc.load(), cur_round.load(),
                       cur_threads.load(), seed0, rounds, watchdog_s);
                fflush(stdout); _exit(3);
            }
        }
    });
    for (int r = 0; r < rounds; ++r) {
        size_t threads = 1 + static_cast<size_t>(r % 8);
        int sc = static_cast<int>(rnd() % 7);
        size_t n = 1 + static_cast<size_t>(rnd() % 40);
        int gens = 1 + static_cast<int>(rnd() % 3);
        bool coin = (rnd() & 1) != 0;
        if (only_sc >= 0 && !(sc == only_sc && r == only_round)) continue;
        fprintf(stderr, "ROUND %d %d %zu\n", sc, r, threads); fflush(stderr);
        cur_sc = sc; cur_round = r; cur_threads = static_cast<long>(threads); ++progress;
        std::string res;
        switch (sc) {
        case 0: res = sc_tree(threads, n, gens); break;
        case 1: res = sc_two_waiters(threads, n); break;
        case 2: res = sc_chain_terminate(threads, n); break;
        case 3: res = sc_client_terminate(threads, n, coin); break;
        case 4: res = sc_enqueue_from_thread(threads, n); break;
        case 5: res = sc_two_pools(threads, n); break;
        default: res = sc_observers(threads, n); break;
        }
        if (res.empty()) printf("R %d %d %zu ok\n", sc, r, threads);
        else { printf("BAD %d %d %zu %s\n", sc, r, threads, res.c_str()); ++bad; }
        fflush(stdout);
    }
    finished = true; watchdog.join();
    return bad ? 1 : 0;
}
