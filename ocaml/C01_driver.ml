(* C01/C02 driver: replays the case file (argv[1]) on the extracted Coq model of the B+ tree; prints one line per
   case in the format of harness/C01/btree_harness.cpp.  If argv[2] is given it holds, per case, the node
   structures dumped from the real trees after every mutating operation: the extracted invariant checker
   inv_b is evaluated on each of them and the structure is compared with the model's own
   (trailer " ## inv=... struct=agree/total").  Keys and values are OCaml ints (the model is polymorphic in
   K and V); ranks, sizes and counters are the extracted Peano naturals. *)
open C01_model

let rec nat_of_int n = if n <= 0 then O else S (nat_of_int (n - 1))
let rec int_of_nat_acc acc = function O -> acc | S n -> int_of_nat_acc (acc + 1) n
let int_of_nat n = int_of_nat_acc 0 n
let split c s = String.split_on_char c s

type cfg = { kind : string; leaf : int; inner : int; bin : bool; gt : bool }

let parse_cfg s =
  match split ':' s with
  | [k; l; i; b; g] -> { kind = k; leaf = int_of_string l; inner = int_of_string i; bin = (b = "1"); gt = (g = "1") }
  | _ -> failwith ("bad cfg " ^ s)

(* node structure <-> text:  leaf (k,k,k)   inner [k,k|child child ...]   empty tree - *)
let rec dump_node keyf n b =
  match n with
  | Leaf vs ->
    Buffer.add_char b '(';
    List.iteri (fun i v -> if i > 0 then Buffer.add_char b ','; Buffer.add_string b (string_of_int (keyf v))) vs;
    Buffer.add_char b ')'
  | Inner (ks, cs) ->
    Buffer.add_char b '[';
    List.iteri (fun i k -> if i > 0 then Buffer.add_char b ','; Buffer.add_string b (string_of_int k)) ks;
    Buffer.add_char b '|';
    List.iter (fun c -> dump_node keyf c b) cs;
    Buffer.add_char b ']'

let dump_tree keyf t =
  match t with None -> "-" | Some n -> let b = Buffer.create 64 in dump_node keyf n b; Buffer.contents b

exception Parse_error
let parse_dump (s : string) : (int, int) tree =
  if s = "-" then None
  else begin
    let pos = ref 0 in
    let n = String.length s in
    let peek () = if !pos < n then s.[!pos] else raise Parse_error in
    let adv () = incr pos in
    let read_ints stop =
      (* reads "a,b,c" up to one of the stop characters (not consumed) *)
      let acc = ref [] in
      let cur = Buffer.create 8 in
      let flush () = if Buffer.length cur > 0 then (acc := int_of_string (Buffer.contents cur) :: !acc; Buffer.clear cur) in
      while not (List.mem (peek ()) stop) do
        let c = peek () in
        if c = ',' then flush () else Buffer.add_char cur c;
        adv ()
      done;
      flush (); List.rev !acc in
    let rec node () =
      match peek () with
      | '(' -> adv (); let ks = read_ints [')'] in adv (); Leaf ks
      | '[' ->
        adv (); let ks = read_ints ['|'] in adv ();
        let cs = ref [] in
        while peek () <> ']' do cs := node () :: !cs done;
        adv (); Inner (ks, List.rev !cs)
      | _ -> raise Parse_error in
    let r = node () in
    if !pos <> n then raise Parse_error;
    Some r
  end

let mutating = function
  | "I" | "E1" | "EK" | "EI" | "CL" | "AS" | "CC" | "SW" | "B" | "IR" | "CR" | "NC" | "SWt" -> true
  | _ -> false

(* overload variants exercised by the harness (const lookups, insert with hint, insert2, operator[],
   std::swap) have the semantics of the base operation *)
let base_name = function
  | "Fc" -> "F" | "Lc" -> "L" | "Uc" -> "U" | "Rc" -> "R"
  | "Ih" | "I2" | "Ih2" | "Ib" -> "I"
  (* argument-aliasing modes: the model sees the argument's value at call time *)
  | "Ia" | "Iha" | "I2a" | "Iba" -> "I"
  | "E1a" -> "E1" | "EKa" -> "EK"
  | "Fa" -> "F" | "Xa" -> "X" | "Ca" -> "C" | "La" -> "L" | "Ua" -> "U" | "Ra" -> "R"
  | "SWs" -> "SW"
  | n -> n

let run_case (cfgs : string) (toks : string list) (impl_dumps : string list option) : string =
  let c = parse_cfg cfgs in
  let dup = (c.kind = "mset" || c.kind = "mmap" || c.kind = "dms" || c.kind = "ims") in
  let ismap = (c.kind = "map" || c.kind = "mmap") in
  (* the comparator is stateful in the harness (run-time direction): every variable carries its own
     direction, which travels with copy / assignment / swap; each operation is run on the model with the
     order of the variable it operates on (the Coq theorems are per order; whole-container operations do not
     use the order) *)
  let dirs = [| c.gt; c.gt; c.gt |] in
  let ltb_of (g : bool) (a : int) (b : int) = if g then b < a else a < b in
  let ltb (a : int) (b : int) = ltb_of c.gt a b in
  let key (v : int * int) = fst v in
  let veqb (a : int * int) (b : int * int) = (a = b) in
  let vltb (a : int * int) (b : int * int) = (compare a b < 0) in
  let lm = nat_of_int c.leaf and im = nat_of_int c.inner in
  let stepf_g g st o = step (ltb_of g) key 0 lm im dup c.bin veqb vltb st o in
  let equiv a b = not (ltb a b) && not (ltb b a) in
  let n_ i = nat_of_int i in
  let st = ref [None; None; None] in
  let b = Buffer.create 256 in
  let notes = Buffer.create 16 in
  let total_alloc = ref 0 and total_free = ref 0 in
  let own_dumps = ref [] in
  let posstr = function Some r -> string_of_int (int_of_nat r) | None -> "!" in
  let canon_list (l : (int * int) list) =
    (* data sorted within runs of equivalent keys *)
    let rec runs acc cur = function
      | [] -> List.rev (match cur with [] -> acc | _ -> List.rev cur :: acc)
      | x :: r ->
        (match cur with
         | y :: _ when equiv (fst y) (fst x) -> runs acc (x :: cur) r
         | [] -> runs acc [x] r
         | _ -> runs (List.rev cur :: acc) [x] r) in
    List.concat (List.map (fun run -> List.stable_sort (fun p q -> compare (snd p) (snd q)) run) (runs [] [] l)) in
  List.iteri (fun idx tok ->
    let parts = split ',' tok in
    let name = base_name (List.hd parts) in
    let f = Array.of_list (List.map int_of_string (List.tl parts)) in
    let i = f.(0) in
    let cur () = get !st (n_ i) in
    let stepf st o = stepf_g dirs.(i) st o in
    (* translate to a model operation (None = the harness skips the call as well) *)
    let mop : (int, int * int) op option =
      match name with
      | "I" -> Some (OInsert (n_ i, (f.(1), if ismap then f.(2) else 0)))
      | "E1" -> Some (OEraseOne (n_ i, f.(1)))
      | "EK" -> Some (OEraseKey (n_ i, f.(1)))
      | "EI" ->
        let els = t_elems (cur ()) in
        let d = if ismap then f.(2) else 0 in
        let cand = List.filter (fun (_, (k, dd)) -> equiv k f.(1) && dd = d) (List.mapi (fun r v -> (r, v)) els) in
        (match cand with
         | [] -> None
         | _ -> let (r, _) = List.nth cand (f.(3) mod List.length cand) in Some (OEraseIter (n_ i, n_ r)))
      | "F" -> Some (OFind (n_ i, f.(1)))
      | "X" -> Some (OExists (n_ i, f.(1)))
      | "C" -> Some (OCount (n_ i, f.(1)))
      | "L" -> Some (OLower (n_ i, f.(1)))
      | "U" -> Some (OUpper (n_ i, f.(1)))
      | "R" -> Some (ORange (n_ i, f.(1)))
      | "T" -> Some (OIter (n_ i))
      | "CL" -> Some (OClear (n_ i))
      | "AS" -> Some (OAssign (n_ i, n_ f.(1)))
      | "CC" -> Some (OCopyCtor (n_ i, n_ f.(1)))
      | "SW" -> Some (OSwap (n_ i, n_ f.(1)))
      | "CMP" -> Some (OCompare (n_ i, n_ f.(1)))
      | "B" ->
        let rec pairs k = if k + 1 < Array.length f then (f.(k), if ismap then f.(k + 1) else 0) :: pairs (k + 2) else [] in
        Some (OBulk (n_ i, pairs 2))
      | "IR" | "CR" | "NC" | "SWt" -> None
      | _ -> failwith ("bad op " ^ tok) in
    if idx > 0 then Buffer.add_char b ' ';
    let seq_ops : (int, int * int) op list option =
      let rec pairs k = if k + 1 < Array.length f then (f.(k), if ismap then f.(k + 1) else 0) :: pairs (k + 2) else [] in
      match name with
      | "IR" -> Some (List.map (fun v -> OInsert (n_ i, v)) (pairs 2))       (* insert(first, last) *)
      | "CR" -> dirs.(i) <- c.gt;     (* the range constructors take a default-constructed comparator *)
                Some (OClear (n_ i) :: List.map (fun v -> OInsert (n_ i, v)) (pairs 3))   (* ~X(); X(first, last, ...) *)
      | "NC" -> dirs.(i) <- (f.(1) <> 0); Some [OClear (n_ i)]                 (* ~X(); X(comparator state, arena) *)
      | _ -> None in
    let (res, al, fr) =
      if name = "SWt" then begin
        (* BTree::swap: the two trees (and their comparators) change places, no node is touched *)
        let j = f.(1) in
        let a = get !st (n_ i) and bb = get !st (n_ j) in
        st := List.mapi (fun k t -> if k = i then bb else if k = j then a else t) !st;
        let d = dirs.(i) in dirs.(i) <- dirs.(j); dirs.(j) <- d;
        ("-", 0, 0)
      end else
      match seq_ops with
      | Some os ->
        List.fold_left (fun (r, a, fr) o ->
          let s = stepf !st o in
          st := s.s_state;
          if s.s_bad then Buffer.add_string notes (Printf.sprintf " MODEL-BAD@%d" idx);
          (r, a + int_of_nat s.s_allocs, fr + int_of_nat s.s_frees)) ("-", 0, 0) os
      | None ->
      match mop with
      | None -> ("D-", 0, 0)
      | Some o ->
        let before = cur () in
        let s = stepf !st o in
        st := s.s_state;
        if s.s_bad then Buffer.add_string notes (Printf.sprintf " MODEL-BAD@%d" idx);
        let r =
          match name, s.s_out with
          | _, RInvalid -> Buffer.add_string notes (Printf.sprintf " INVALID-HISTORY@%d" idx); "?"
          | "I", RIns (rank, ok) ->
            let els = Array.of_list (t_elems (cur ())) in
            let r = int_of_nat rank in
            let k = f.(1) in
            if r >= Array.length els || not (equiv (fst els.(r)) k) then "I!baditer"
            else begin
              let cnt = ref 0 in
              let j = ref (r - 1) in
              while !j >= 0 && equiv (fst els.(!j)) k do incr cnt; decr j done;
              Printf.sprintf "I%d:%d" (if ok then 1 else 0) (r - !cnt)
            end
          | "E1", RBool x -> if x then "E1" else "E0"
          | "EK", RNat x -> "K" ^ string_of_int (int_of_nat x)
          | "EI", RBool x -> if x then "D1" else "D0"
          | "F", RNat x -> "F" ^ string_of_int (int_of_nat x)
          | "X", RBool x -> if x then "X1" else "X0"
          | "C", RNat x -> "C" ^ string_of_int (int_of_nat x)
          | "L", RPos p -> "L" ^ posstr p
          | "U", RPos p -> "U" ^ posstr p
          | "R", RRange (lo, hi) -> "R" ^ posstr lo ^ "-" ^ posstr hi
          | "T", RList l ->
            let l' = canon_list l in
            "T" ^ string_of_int (List.length l') ^ ":" ^
            String.concat "," (List.map (fun (k, d) -> string_of_int k ^ "." ^ string_of_int d) l')
          | "CMP", RCmp (e, l, g) ->
            if dup && ismap then "Mc"
            else Printf.sprintf "M%d%d%d" (if e then 1 else 0) (if l then 1 else 0) (if g then 1 else 0)
          | _, RUnit -> "-"
          | _, _ -> "?model" in
        ignore before;
        (r, int_of_nat s.s_allocs, int_of_nat s.s_frees) in
    (match name with
     | "AS" | "CC" -> if f.(1) <> i then dirs.(i) <- dirs.(f.(1))
     | "SW" -> let j = f.(1) in let d = dirs.(i) in dirs.(i) <- dirs.(j); dirs.(j) <- d
     | _ -> ());
    total_alloc := !total_alloc + al; total_free := !total_free + fr;
    let t = cur () in
    Buffer.add_string b (Printf.sprintf "%s/%d.%d.%d.%d.%d" res al fr (int_of_nat (t_leaves t)) (int_of_nat (t_inner t)) (int_of_nat (t_size t)));
    if mutating name then own_dumps := (dump_tree fst t, dirs.(i)) :: !own_dumps
  ) toks;
  (* destruction of the three variables frees every remaining node: balance must be exact *)
  let remaining = List.fold_left (fun a t -> a + int_of_nat (t_nodes t)) 0 !st in
  Buffer.add_string b (if !total_alloc - !total_free = remaining then " final=ok" else " final=bad:model alloc balance");
  Buffer.add_buffer b notes;
  (match impl_dumps with
   | None -> ()
   | Some ds ->
     let own = List.rev !own_dumps in
     let lm = nat_of_int c.leaf and im = nat_of_int c.inner in
     let invfail = ref None and agree = ref 0 and total = ref 0 in
     List.iteri (fun k d ->
       incr total;
       let g = (match List.nth_opt own k with Some (o, g) -> (if o = d then incr agree); g | None -> c.gt) in
       let ok = (try inv_b (ltb_of g) (fun x -> x) 0 lm im dup (parse_dump d) with Parse_error -> false) in
       if not ok && !invfail = None then invfail := Some k) ds;
     if List.length ds <> List.length own && !invfail = None then invfail := Some (-1);
     Buffer.add_string b (Printf.sprintf " ## inv=%s struct=%d/%d"
       (match !invfail with None -> "ok" | Some k -> "FAIL@" ^ string_of_int k) !agree !total));
  Buffer.contents b

let () =
  let ic = open_in Sys.argv.(1) in
  let dc = if Array.length Sys.argv > 2 then Some (open_in Sys.argv.(2)) else None in
  (try
    while true do
      let line = input_line ic in
      let dl = match dc with Some d -> (try Some (input_line d) with End_of_file -> Some "") | None -> None in
      match List.filter (fun s -> s <> "") (split ' ' line) with
      | [] -> ()
      | cfg :: toks ->
        let ds = match dl with Some l -> Some (List.filter (fun s -> s <> "") (split ' ' l)) | None -> None in
        print_endline (try run_case cfg toks ds with e -> "DRIVER-ERROR " ^ Printexc.to_string e)
    done
  with End_of_file -> ());
  close_in ic
