(* C13 driver: replays the case file on the extracted Coq models; one output line per case
   (same format as harness/C13/heap_harness.cpp and radix_harness.cpp). *)
open C13_model

let rec nat_of_int n = if n <= 0 then O else S (nat_of_int (n - 1))
let int_of_nat n = let rec go acc = function O -> acc | S m -> go (acc + 1) m in go 0 n
let split c s = String.split_on_char c s
let n_ s = nat_of_int (int_of_string s)

(* N <-> hex strings, built directly on the extracted constructors (no arithmetic) *)
let bits_of_hex s =            (* most significant first *)
  let l = ref [] in
  String.iter (fun ch ->
    let v = int_of_string ("0x" ^ String.make 1 ch) in
    l := !l @ [v land 8 <> 0; v land 4 <> 0; v land 2 <> 0; v land 1 <> 0]) s;
  !l
let n_of_hex s =
  let rec strip = function false :: t -> strip t | l -> l in
  match strip (bits_of_hex s) with
  | [] -> N0
  | _ :: rest -> Npos (List.fold_left (fun p b -> if b then XI p else XO p) XH rest)
let rec bits_of_pos = function XH -> [true] | XO p -> false :: bits_of_pos p | XI p -> true :: bits_of_pos p  (* lsb first *)
let hex_of_n = function
  | N0 -> "0"
  | Npos p ->
    let bits = Array.of_list (bits_of_pos p) in
    let nb = Array.length bits in
    let nd = (nb + 3) / 4 in
    let b = Buffer.create 16 in
    for dgt = nd - 1 downto 0 do
      let v = ref 0 in
      for j = 3 downto 0 do
        let i = dgt * 4 + j in
        v := !v * 2 + (if i < nb && bits.(i) then 1 else 0)
      done;
      Buffer.add_char b "0123456789abcdef".[!v]
    done;
    Buffer.contents b
let n_of_int i = n_of_hex (Printf.sprintf "%x" i)
let int_of_n x = int_of_string ("0x" ^ hex_of_n x)

let parse_kps rest =
  List.filter_map (fun part ->
    match split ':' part with
    | [k; p] -> Some (n_ k, n_ p)
    | _ -> None) (split ';' rest)

(* overload variants of one operation are the same model operation *)
let norm tok =
  let pre p = String.length tok >= String.length p && String.sub tok 0 (String.length p) = p in
  let rest p = String.sub tok (String.length p) (String.length tok - String.length p) in
  if pre "PR," then "P," ^ rest "PR,"
  else if tok = "OX" then "O"
  else if String.length tok >= 3 && tok.[0] = 'B' && tok.[1] <> ',' && tok.[2] = ',' then "B," ^ rest (String.sub tok 0 3)
  else tok
let is_noop tok = tok = "Y" || tok = "Z" || (String.length tok >= 2 && String.sub tok 0 2 = "V,")

let dary_op tok =
  match split ',' tok with
  | ["P"; k; p] -> TPush (n_ k, n_ p)
  | ["O"] -> TPop
  | ["S"; k; p] -> TSet (n_ k, n_ p)
  | ["UA"] -> TUpdateAll
  | "B" :: rest -> TBuild (parse_kps (String.concat "," rest))
  | ["C"] -> TClear
  | _ -> failwith ("bad dary op " ^ tok)

let addr_op tok =
  match split ',' tok with
  | ["P"; k; p] -> APush (n_ k, n_ p)
  | ["R"; k] -> ARemove (n_ k)
  | ["O"] -> APop
  | ["U"; k; p] -> AUpdate (n_ k, n_ p)
  | ["S"; k; p] -> ASet (n_ k, n_ p)
  | ["UA"] -> AUpdateAll
  | "B" :: rest -> ABuild (parse_kps (String.concat "," rest))
  | ["C"] -> AClear
  | _ -> failwith ("bad addr op " ^ tok)

let radix_op tok =
  match split ',' tok with
  | ["P"; k; p] | ["E"; k; p] | ["F"; k; p] | ["H"; k; p] | ["G"; k; p] | ["V"; k; p] | ["U"; k; p] -> RPush (n_of_hex k, n_ p)
  | ["T"] -> RTop
  | ["O"] -> RPop
  | ["W"] -> RSwap
  | ["K"] -> RPeak
  | ["C"] -> RClear
  | _ -> failwith ("bad radix op " ^ tok)

let show_top = function None -> "-" | Some k -> string_of_int (int_of_nat k)
let show_val (k, p) = hex_of_n k ^ "." ^ string_of_int (int_of_nat p)

let () =
  let ic = open_in Sys.argv.(1) in
  (try
    while true do
      let line = input_line ic in
      match List.filter (fun s -> s <> "") (split ' ' line) with
      | "dary" :: d :: rv :: toks ->
        let d = n_ d and rv = (rv = "1" || rv = "5" || rv = "6") in
        let show st = let ((sz, tp), sane) = tobs d rv st in
          Printf.sprintf "%d:%s:%d" (int_of_nat sz) (show_top tp) (if sane then 1 else 0) in
        let size st = List.length (snd st) in
        let st = ref ([], []) and outs = ref [] in
        let emit () = outs := show !st :: !outs in
        List.iter (fun tok ->
          let tok = norm tok in
          if tok = "D" then (while size !st > 0 do st := tstep d rv !st TPop; emit () done)
          else if is_noop tok then emit ()
          else if tok = "PT" || tok = "PTR" then begin
            (* push(top()): the argument is the value of the top at call time *)
            (match !st with
             | (prio, k :: _) -> st := (prio, snd (tstep d rv !st (TPush (k, nth k prio O))))
             | _ -> ());
            emit ()
          end
          else begin
            (match dary_op tok with
             | TPop -> if size !st > 0 then st := tstep d rv !st TPop
             | TPush (k, p) ->
               let (prio, h) = !st in
               if List.mem k h then st := (prio, snd (tstep d rv !st (TPush (k, nth k prio O))))
               else st := tstep d rv !st (TPush (k, p))
             | o -> st := tstep d rv !st o);
            emit ()
          end) toks;
        print_endline (String.concat " " (List.rev !outs))
      | "addr" :: d :: rv :: kt :: nk :: toks ->
        let np = nat_of_int (if kt = "8" then 255 else 300) in   (* see checks/C13.py assumptions *)
        let d = n_ d and rv = (rv = "1" || rv = "5" || rv = "6") and nk = n_ nk in
        let show st = let (((sz, tp), sane), mem) = aobs d np nk rv st in
          Printf.sprintf "%d:%s:%d:%s" (int_of_nat sz) (show_top tp) (if sane then 1 else 0)
            (String.concat "" (List.map (fun b -> if b then "1" else "0") mem)) in
        let size st = List.length (fst (snd st)) in
        let has st k = contains np (snd st) k in
        let st = ref ainit and outs = ref [] in
        let emit () = outs := show !st :: !outs in
        List.iter (fun tok ->
          let tok = norm tok in
          if tok = "D" then (while size !st > 0 do st := astep d np rv !st APop; emit () done)
          else if is_noop tok then emit ()
          else begin
            (match addr_op tok with
             | APop -> if size !st > 0 then st := astep d np rv !st APop
             | APush (k, p) -> if not (has !st k) then st := astep d np rv !st (APush (k, p))
             | ARemove k -> if has !st k then st := astep d np rv !st (ARemove k)
             | o -> st := astep d np rv !st o);
            emit ()
          end) toks;
        print_endline (String.concat " " (List.rev !outs))
      | "radix" :: w :: sg :: rb :: toks ->
        let w = n_of_int (int_of_string w) and rb = n_of_int (int_of_string rb) and sg = sg <> "0" in
        let show op ((vals, num), sz) =
          let body = match op with
            | RPush _ -> "i" ^ (match num with Some x -> string_of_int (int_of_n x) | None -> "?")
            | RTop -> "t" ^ String.concat "," (List.map show_val vals)
            | RPop -> "o"
            | RSwap -> "w" ^ String.concat "," (List.map show_val vals)
            | RPeak -> "k" ^ (match num with Some x -> hex_of_n x | None -> "?")
            | RClear -> "c" in
          body ^ ":" ^ string_of_int (int_of_nat sz) in
        let st = ref (rinit w rb) and outs = ref [] in
        List.iter (fun tok ->
          if tok = "Y" || tok = "Z" || tok = "X" then ()
          else if tok = "A" || tok = "M" || tok = "N" then begin
            (* argument = the value top() returns at call time: top(), then push of that value *)
            let (s1, ((vals, _), _)) = rstep w sg rb !st RTop in
            (match vals with
             | (k, p) :: _ ->
               let op = RPush (k, p) in
               let (s2, o) = rstep w sg rb s1 op in st := s2; outs := show op o :: !outs
             | [] -> outs := "INVALID-HISTORY" :: !outs)
          end else begin
            let op = radix_op tok in
            let (s', o) = rstep w sg rb !st op in st := s'; outs := show op o :: !outs
          end) toks;
        print_endline (String.concat " " (List.rev !outs))
      | "bitarray" :: _ -> print_endline "ok"     (* the model's filled_ IS the specification; see radix_harness.cpp *)
      | _ -> print_endline "?"
    done
  with End_of_file -> ());
  close_in ic
