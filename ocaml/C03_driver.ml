(* C03 driver.  argv[1] = case file (format: harness/C03/sort_harness.cpp), argv[2] = the harness' output for the same
   cases (or "-"), argv[3] = largest n for which the model is always run (larger cases: only on radix-only paths).
   Per case one line:
     chk=<1|0> sp=<1|0> lcpok=<1|0|-> model=<ok|err|skip> mspec=<1|0|-> canon=<1|0|-> exact=<1|0|-> lcp0=<1|0|->
   chk   : the Coq-extracted checker check_sp / check_spl accepts the IMPLEMENTATION's output (sp: permutation+sorted,
           lcpok: lcp array exact)
   mspec : the checker accepts the model's own output;  canon: model and implementation agree on contents per position
           and on lcp[1..];  exact: they agree on the object at every position;  lcp0: lcp[0] untouched on both sides *)
open C03_model

let poison = 777

let nat_of_int k = let r = ref O in for _ = 1 to k do r := S !r done; !r
let rec int_of_nat_acc acc = function O -> acc | S m -> int_of_nat_acc (acc + 1) m
let int_of_nat m = int_of_nat_acc 0 m
let rec pos_of_int k = if k <= 1 then XH else if k land 1 = 0 then XO (pos_of_int (k lsr 1)) else XI (pos_of_int (k lsr 1))
let n_of_int k = if k <= 0 then N0 else Npos (pos_of_int k)
let rec pos_of_i64 (k : int64) =
  if Int64.equal k 1L then XH
  else if Int64.equal (Int64.logand k 1L) 0L then XO (pos_of_i64 (Int64.shift_right_logical k 1))
  else XI (pos_of_i64 (Int64.shift_right_logical k 1))
let n_of_u64_string s = let k = Int64.of_string ("0u" ^ s) in if Int64.equal k 0L then N0 else Npos (pos_of_i64 k)

let hexv c = if c <= '9' then Char.code c - 48 else Char.code c - 87
let unhex h = if h = "-" then "" else String.init (String.length h / 2) (fun i -> Char.chr (hexv h.[2 * i] * 16 + hexv h.[2 * i + 1]))
let bytes_tbl = Array.init 256 n_of_int
let str_of_string s = List.init (String.length s) (fun i -> bytes_tbl.(Char.code s.[i]))
let split c s = String.split_on_char c s

let parse_ints s = if s = "" || s = "-" then [] else List.map int_of_string (split ',' s)

let () =
  let ic = open_in Sys.argv.(1) in
  let oc = if Array.length Sys.argv > 2 && Sys.argv.(2) <> "-" then Some (open_in Sys.argv.(2)) else None in
  let small = if Array.length Sys.argv > 3 then int_of_string Sys.argv.(3) else 300 in
  (try
     while true do
       let line = input_line ic in
       if line <> "" then begin
         let t_case = Unix.gettimeofday () in
         let toks = Array.of_list (List.filter (fun s -> s <> "") (split ' ' line)) in
         let algo = int_of_string toks.(0) and rep = int_of_string toks.(1) and lcp = toks.(3) <> "0" in
         let mem_s = toks.(4) and depth = int_of_string toks.(5) and n0 = int_of_string toks.(6) in
         let raw = Array.init n0 (fun i -> unhex toks.(7 + i)) in
         let ov = int_of_string toks.(2) in
         (* ids.(k): identity of the object at input position k; for suffix sets the suffix index *)
         let text = if rep = 4 && n0 > 0 then raw.(0) else "" in
         let tl = String.length text in
         let ids0 = if rep <> 4 then Array.init n0 (fun i -> i)
           else if ov = 1 then Array.init tl (fun k -> tl - 1 - k)
           else if ov = 2 then Array.init ((tl + 1) / 2) (fun k -> 2 * k)
           else Array.init tl (fun i -> i) in
         let strs = if rep = 4 then Array.map (fun i -> String.sub text i (tl - i)) ids0 else raw in
         let n = Array.length strs in
         let cstrs = Array.map str_of_string strs in
         (* contents by identity *)
         let nid = if rep = 4 then tl else n in
         let by_id = if rep = 4 then Array.init tl (fun i -> str_of_string (String.sub text i (tl - i))) else cstrs in
         let inp = List.init n (fun i -> ((if rep = 2 then N0 else n_of_int ids0.(i)), cstrs.(i))) in
         let maxlen = Array.fold_left (fun a s -> max a (String.length s)) 0 strs in
         (* implementation's output *)
         let impl = match oc with
           | None -> None
           | Some c ->
             let l = (try input_line c with End_of_file -> "") in
             (match split '|' l with
              | [a; b; s] when String.length a >= 4 && String.sub a 0 4 = "ids:" ->
                let ids = parse_ints (String.sub a 4 (String.length a - 4)) in
                let lc = parse_ints (String.sub b 4 (String.length b - 4)) in
                let ss = String.sub s 5 (String.length s - 5) in
                let ss = if ss = "~" || ss = "" then [] else List.map unhex (split ',' ss) in
                Some (ids, lc, ss)
              | _ -> None) in
         let b2s b = if b then "1" else "0" in
         let chk, sp, lcpok, out_opt, lcp_impl =
           match impl with
           | None -> "-", "-", "-", None, []
           | Some (ids, lc, ss) ->
             let badid = List.exists (fun i -> i < 0 || i >= nid) ids in
             if badid || (rep = 2 && List.length ss <> List.length ids && n > 0) then "0", "0", "-", None, lc
             else begin
               let out = if rep = 2 then List.map (fun s -> (N0, str_of_string s)) ss
                 else List.map (fun i -> (n_of_int i, by_id.(i))) ids in
               let lcl = List.map nat_of_int lc in
               let sp = check_sp inp out in
               let lo = if lcp then lcp_check out lcl else true in
               b2s (sp && lo), b2s sp, (if lcp then b2s lo else "-"), Some (out, ids), lc
             end in
         (* the model *)
         (* large inputs: the list-based model is only run where no large multikey-quicksort / insertion-sort call can
            occur: no memory limit, or a limit of at least 1.5 MB (enough for the radix stacks of the generated cases) *)
         let mem_big = String.length mem_s > 7 || (String.length mem_s = 7 && mem_s >= "1500000") in
         let radix_only = (mem_s = "0" || mem_big) && algo <> 6 && algo <> 7 in
         let runm = small >= 0 && (n <= small || radix_only) && maxlen <= 3000 in   (* small < 0: checker only *)      (* char_at is O(depth) in the list model *)
         let model, mspec, canon, exact, lcp0 =
           if not runm then "skip", "-", "-", "-", "-"
           else begin
             let fuel = nat_of_int (n + maxlen + 8) in
             let lcp_in = List.init n (fun _ -> nat_of_int poison) in
             match run_algo (n_of_int algo) (n_of_int rep) lcp fuel (n_of_u64_string mem_s) (nat_of_int depth) inp lcp_in with
             | None -> "err", "-", "-", "-", "-"
             | Some (mout, mlcp) ->
               let ms = if lcp then check_spl inp mout mlcp else check_sp inp mout in
               let mlcpi = List.map int_of_nat mlcp in
               (match out_opt with
                | None -> "ok", b2s ms, "-", "-", "-"
                | Some (out, ids) ->
                  let tl' l = match l with [] -> [] | _ :: t -> t in
                  let canon = List.map snd mout = List.map snd out && ((not lcp) || tl' mlcpi = tl' lcp_impl) in
                  let exact = if rep = 2 then "-" else b2s (List.map fst mout = List.map fst out) in
                  let hd' l = match l with [] -> poison | x :: _ -> x in
                  let lcp0 = if lcp then b2s (hd' mlcpi = poison && hd' lcp_impl = poison) else "-" in
                  ignore ids;
                  "ok", b2s ms, b2s canon, exact, lcp0)
           end in
         Printf.printf "chk=%s sp=%s lcpok=%s model=%s mspec=%s canon=%s exact=%s lcp0=%s t=%.2f\n%!" chk sp lcpok model mspec canon exact lcp0 (Unix.gettimeofday () -. t_case)
       end
     done
   with End_of_file -> ());
  close_in ic
