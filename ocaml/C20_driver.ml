(* C20 driver: evaluates the extracted Coq model (coq/C20/Run.v, Agg.v) on a case file; one output line per case.
   Case kinds:
     exh  <fn1> <type> <lo> <hi>                      all x in [lo, hi]
     exh2 <fn2> <type> <alo> <ahi> <blo> <bhi>        all pairs
     val  <fn1> <type> v1 v2 ...
     val2 <fn2> <type> a:b a:b ...
     valm <fn2> <typeN> <typeK> a:b ...               operands of two different types (div_ceil / round_up)
     prange <start> b0 b1 ...                         byte-range popcount (start offset is for the harness only)
     aggk <op> ...   as agg, with the additional op K,i,c,num/den (x_i = Aggregate(c, v, 0, v, v)); model output only
     agg | aggf | aggi | aggz  <op> ...   ops: A,i,num/den  P,i,j,k  PA,i,j  R,i   (3 variables of Aggregate<double | float |
                                          int | size_t>; all are observed at the end)
   type names: u8 i8 u16 i16 u32 i32 u64 i64 and ull / ll (unsigned long long / long long = u64 / i64 in the model) *)
open C20_model

(* ---------- Z <-> int64 bit patterns / strings *)
let rec pos_of_ubits (u : int64) : positive =
  if Int64.equal u 1L then XH
  else if Int64.equal (Int64.logand u 1L) 0L then XO (pos_of_ubits (Int64.shift_right_logical u 1))
  else XI (pos_of_ubits (Int64.shift_right_logical u 1))

let z_of_string (s : string) : z =
  if s = "0" || s = "-0" then Z0
  else if s.[0] = '-' then Zneg (pos_of_ubits (Int64.neg (Int64.of_string s)))
  else Zpos (pos_of_ubits (Int64.of_string ("0u" ^ s)))

let z_of_int (i : int) : z =
  if i = 0 then Z0 else if i > 0 then Zpos (pos_of_ubits (Int64.of_int i)) else Zneg (pos_of_ubits (Int64.of_int (-i)))

let rec pos_bits = function XH -> 1 | XO p -> 1 + pos_bits p | XI p -> 1 + pos_bits p
let rec ubits_of_pos = function
  | XH -> 1L
  | XO p -> Int64.shift_left (ubits_of_pos p) 1
  | XI p -> Int64.logor (Int64.shift_left (ubits_of_pos p) 1) 1L
let rec pos_binary = function XH -> "1" | XO p -> pos_binary p ^ "0" | XI p -> pos_binary p ^ "1"

let string_of_pos p = if pos_bits p <= 64 then Printf.sprintf "%Lu" (ubits_of_pos p) else "0b" ^ pos_binary p
let string_of_z = function
  | Z0 -> "0"
  | Zpos p -> string_of_pos p
  | Zneg p -> "-" ^ string_of_pos p

let rec nat_of_int n = if n <= 0 then O else S (nat_of_int (n - 1))
let rec int_of_posn = function XH -> 1 | XO p -> 2 * int_of_posn p | XI p -> 2 * int_of_posn p + 1
let int_of_n = function N0 -> 0 | Npos p -> int_of_posn p

(* ---------- tables *)
let ty_of = function
  | "u8" -> { width = z_of_int 8; signed = false } | "i8" -> { width = z_of_int 8; signed = true }
  | "u16" -> { width = z_of_int 16; signed = false } | "i16" -> { width = z_of_int 16; signed = true }
  | "u32" -> { width = z_of_int 32; signed = false } | "i32" -> { width = z_of_int 32; signed = true }
  | "u64" | "ull" -> { width = z_of_int 64; signed = false } | "i64" | "ll" -> { width = z_of_int 64; signed = true }
  | s -> failwith ("bad type " ^ s)

let fn1_of = function
  | "clz_template" -> FClzT | "clz" -> FClz | "ctz_template" -> FCtzT | "ctz" -> FCtz
  | "ffs_template" -> FFfsT | "ffs" -> FFfs
  | "popcount_generic8" -> FPop8 | "popcount_generic16" -> FPop16 | "popcount_generic32" -> FPop32
  | "popcount_generic64" -> FPop64 | "popcount" -> FPop
  | "integer_log2_floor_template" -> FLog2FloorT | "integer_log2_floor" -> FLog2Floor
  | "integer_log2_ceil" -> FLog2Ceil
  | "is_power_of_two_template" -> FIsPow2T | "is_power_of_two" -> FIsPow2T
  | "round_up_to_power_of_two_template" -> FRupT | "round_up_to_power_of_two" -> FRupT
  | "round_down_to_power_of_two_template" -> FRdownT | "round_down_to_power_of_two" -> FRdownT
  | "bswap16_generic" -> FBswap16G | "bswap32_generic" -> FBswap32G | "bswap64_generic" -> FBswap64G
  | "bswap16" | "bswap32" | "bswap64" -> FBswapSpec
  | "sgn" -> FSgn
  | s -> failwith ("bad fn1 " ^ s)

let fn2_of = function
  | "rol_generic" -> FRolG | "rol" -> FRol | "ror_generic" -> FRorG | "ror" -> FRor
  | "div_ceil" -> FDivCeil | "round_up" -> FRoundUp | "abs_diff" -> FAbsDiff
  | s -> failwith ("bad fn2 " ^ s)

let show = function RVal v -> string_of_z v | RNA -> "NA" | RLoop -> "LOOP"

(* ---------- aggregate *)
let q_of_string s =
  match String.split_on_char '/' s with
  | [a; b] -> { qnum = z_of_string a; qden = (match z_of_string b with Zpos p -> p | _ -> failwith "den") }
  | [a] -> { qnum = z_of_string a; qden = XH }
  | _ -> failwith "bad rational"
let qneg q = { qnum = (match q.qnum with Z0 -> Z0 | Zpos p -> Zneg p | Zneg p -> Zpos p); qden = q.qden }
let string_of_q q =
  if q = dbl_max then "MAX" else if q = qneg dbl_max then "-MAX"
  else string_of_z q.qnum ^ "/" ^ string_of_pos q.qden

let agg_op tok =
  let n s = nat_of_int (int_of_string s) in
  match String.split_on_char ',' tok with
  | ["A"; i; v] -> OAdd (n i, q_of_string v)
  | ["P"; i; j; k] -> OPlus (n i, n j, n k)
  | ["PA"; i; j] -> OPlusAssign (n i, n j)
  | ["R"; i] -> OReset (n i)
  | ["K"; i; c; v] -> OConst (n i, (match z_of_string c with Zpos p -> Npos p | _ -> N0), q_of_string v)
  | _ -> failwith ("bad agg op " ^ tok)

let show_agg a =
  let (c, (m, (v1, (v0, (mn, mx))))) = observe a in
  Printf.sprintf "%d %s %s %s %s %s" (int_of_n c) (string_of_q m) (string_of_q v1) (string_of_q v0)
    (string_of_q mn) (string_of_q mx)

let () =
  let ic = open_in Sys.argv.(1) in
  let b = Buffer.create 65536 in
  (try
    while true do
      let line = input_line ic in
      Buffer.clear b;
      (match List.filter (fun s -> s <> "") (String.split_on_char ' ' line) with
      | ["exh"; f; t; lo; hi] ->
        let f = fn1_of f and t = ty_of t in
        for x = int_of_string lo to int_of_string hi do
          Buffer.add_string b (show (eval1 f t (z_of_int x))); Buffer.add_char b ' '
        done
      | ["exh2"; f; t; alo; ahi; blo; bhi] ->
        let f = fn2_of f and t = ty_of t in
        for x = int_of_string alo to int_of_string ahi do
          let zx = z_of_int x in
          for y = int_of_string blo to int_of_string bhi do
            Buffer.add_string b (show (eval2 f t zx (z_of_int y))); Buffer.add_char b ' '
          done
        done
      | "val" :: f :: t :: vs ->
        let f = fn1_of f and t = ty_of t in
        List.iter (fun v -> Buffer.add_string b (show (eval1 f t (z_of_string v))); Buffer.add_char b ' ') vs
      | "val2" :: f :: t :: vs ->
        let f = fn2_of f and t = ty_of t in
        List.iter (fun v ->
          match String.split_on_char ':' v with
          | [x; y] -> Buffer.add_string b (show (eval2 f t (z_of_string x) (z_of_string y))); Buffer.add_char b ' '
          | _ -> failwith "bad pair") vs
      | "valm" :: f :: tn :: tk :: vs ->
        let f = fn2_of f and tn = ty_of tn and tk = ty_of tk in
        List.iter (fun v ->
          match String.split_on_char ':' v with
          | [x; y] -> Buffer.add_string b (show (eval2m f tn tk (z_of_string x) (z_of_string y))); Buffer.add_char b ' '
          | _ -> failwith "bad pair") vs
      | "prange" :: _ :: bs ->
        Buffer.add_string b (show (eval_range (List.map z_of_string bs)))
      | "aggk" :: toks ->
        (* Aggregate<double> histories with constructed operands of huge counts: the model only (the list of values a
           variable stands for is not materialised) *)
        let s = run dbl_max (qneg dbl_max) (nat_of_int 3) (List.map agg_op toks) in
        Buffer.add_string b (String.concat " | " (List.map show_agg s))
      | (("agg" | "aggf" | "aggi" | "aggz") as kind) :: toks ->
        let ops = List.map agg_op toks in
        let zq s = { qnum = z_of_string s; qden = XH } in
        let (hi, lo) = match kind with
          | "agg" -> (dbl_max, qneg dbl_max)
          | "aggf" -> (flt_max, qneg flt_max)
          | "aggi" -> (zq "2147483647", zq "-2147483648")
          | _ -> (zq "18446744073709551615", zq "0") in
        let s = run hi lo (nat_of_int 3) ops in
        let g = ghost (nat_of_int 3) ops in
        (* second opinion from the same model: feeding all values of the ghost list into one empty aggregate (run = feed + representation normalisation) *)
        let s' = List.map (fun l -> List.hd (run hi lo (nat_of_int 1) (List.map (fun v -> OAdd (O, v)) l))) g in
        Buffer.add_string b (String.concat " | " (List.map show_agg s));
        Buffer.add_string b " || ";
        Buffer.add_string b (String.concat " | " (List.map show_agg s'))
      | _ -> Buffer.add_string b "?");
      print_endline (String.trim (Buffer.contents b))
    done
  with End_of_file -> ());
  close_in ic
