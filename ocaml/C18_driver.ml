(* C18 driver: runs the extracted StringView model (coq/C18/SV.v) on the case file of harness/C18/sv_harness.cpp.
   The order of calls inside each block mirrors the harness exactly; results are encoded the same way
   (size_type with npos = -1, bool 0/1, sign of compare, bytes 0..255, strings as length + bytes,
   out_of_range = -2) and folded into the same 62-bit hash.
   Output per block:  B <kind> <h> <s> <ncalls> <hash model> <#find/rfind calls with a non-empty needle that found an occurrence>      (verbose: one "C <idx> | m: v,v,.." line per call) *)
open C18_model

let mask = (1 lsl 62) - 1

let rec pos_of_int i = if i = 1 then XH else if i land 1 = 1 then XI (pos_of_int (i lsr 1)) else XO (pos_of_int (i lsr 1))
let n_of_int i = if i = 0 then N0 else Npos (pos_of_int i)
let rec int_of_pos = function XH -> 1 | XO p -> 2 * int_of_pos p | XI p -> 2 * int_of_pos p + 1
let int_of_n = function N0 -> 0 | Npos p -> int_of_pos p
(* position / count argument: -(d+1) = npos - d (as the harness prints it), otherwise the number itself *)
let arg i = if i = -1 then npos else if i < 0 then N.sub npos (n_of_int (-i - 1)) else n_of_int i
let huge3 = [1 lsl 32; (1 lsl 32) + 1; -2]
let enc_size n = if n = npos then -1 else int_of_n n
let enc_bool b = if b then 1 else 0
let enc_sign = function Z0 -> 0 | Zpos _ -> 1 | Zneg _ -> -1
let enc_str (v : n list) = List.length v :: List.map int_of_n v

let unhex s =
  if s = "-" || s = "~" then [] else
  List.init (String.length s / 2) (fun i -> n_of_int (int_of_string ("0x" ^ String.sub s (2 * i) 2)))
let hex (v : n list) =
  if v = [] then "-" else String.concat "" (List.map (fun b -> Printf.sprintf "%02x" (int_of_n b)) v)

(* ---------------------------------------------------------------- block bookkeeping *)
type block = { kind : char; h : n list; s : n list; lh : string; ls : string; verbose : bool; mutable hm : int; mutable ncalls : int; mutable hits : int }

let call b (vals : int list) =
  let mix x = b.hm <- (b.hm * 1000003 + (x + 3)) land mask in
  mix (List.length vals);
  List.iter mix vals;
  if b.verbose then Printf.printf "C %d | m: %s\n" b.ncalls (String.concat "," (List.map string_of_int vals));
  b.ncalls <- b.ncalls + 1

let finish b = Printf.printf "B %c %s %s %d %d %d\n" b.kind b.lh b.ls b.ncalls b.hm b.hits
(* coverage probe: a substring search (find / rfind, non-empty needle) that found an occurrence *)
let found b x = if x <> npos then b.hits <- b.hits + 1; enc_size x

let positions len = List.init (len + 3) (fun i -> i) @ [-1]
let few_positions len = [0; 1; len; -1]
let counts len = List.init (len + 3) (fun i -> i) @ List.init (len + 4) (fun k -> -(len + 4 - k))   (* .., npos-1, npos *)
let few_counts len = [0; 1; len; -4; -3; -2; -1]
(* a returned view: size, offset of data() from the base, bytes (at most 40) *)
let rec take_at_most k l = if k <= 0 then [] else match l with [] -> [] | x :: t -> x :: take_at_most (k - 1) t
let enc_view (v : n list) off = List.length v :: off :: List.map int_of_n (take_at_most 40 v)
let alpha5 = [0x00; 0x61; 0x62; 0x80; 0xFF]

let res_size = function Ok r -> [r] | _ -> [-2]

(* ---------------------------------------------------------------- block H *)
let block_hay ?(kind = 'H') ?lh ?(ls = "-") h verbose =
  let lh = match lh with Some l -> l | None -> hex h in
  let b = { kind; h; s = []; lh; ls; verbose; hm = 0; ncalls = 0; hits = 0 } in
  let len = List.length h in
  let p = positions len in
  let nn = counts len in
  call b [enc_size (size h); enc_size (size h); enc_bool (size h = N0)];
  List.iter (fun pos -> call b (match at_ h (arg pos) with Ok c -> [int_of_n c] | _ -> [-2])) p;
  for pos = 0 to len - 1 do call b [int_of_n (index h (arg pos))] done;
  if len > 0 then begin call b [int_of_n (front h)]; call b [int_of_n (back h)] end;
  for k = 0 to len do
    call b (enc_view (remove_prefix h (arg k)) k);
    call b (enc_view (remove_suffix h (arg k)) 0)
  done;
  call b (enc_str (to_string h));
  call b (enc_str (to_string h));
  (* entry points beyond the queries (docs/audit/C18.md); iterators and constructors have no model function of their own:
     a view IS its byte list, so they are the identity *)
  call b (enc_str (to_string h));                                           (* explicit operator std::string *)
  call b (len :: List.map int_of_n h);                                      (* begin..end *)
  call b (len :: List.map int_of_n h);                                      (* cbegin..cend *)
  call b (len :: List.rev_map int_of_n h);                                  (* rbegin..rend *)
  call b (len :: List.rev_map int_of_n h);                                  (* crbegin..crend *)
  call b (enc_str h);                                                       (* StringView(const std::string&) *)
  call b (enc_str h);                                                       (* StringView(std::string&&) *)
  call b (enc_str (of_cstr h));                                             (* StringView(const char* ) *)
  call b (enc_view h 0);                                                    (* (const_iterator, const_iterator) *)
  call b (enc_view h 0);                                                    (* (string::const_iterator, size) *)
  call b (enc_view h 0);                                                    (* (string::const_iterator, string::const_iterator) *)
  call b (enc_view h 0);                                                    (* from / to std::string_view *)
  call b [0; 1; 1];                                                         (* StringView((const char* )nullptr) *)
  call b (enc_view h 0 @ [len; 0]);                                         (* copy construction, assignment *)
  call b (enc_view [] 0);                                                   (* clear() *)
  List.iter (fun k ->
    call b (enc_view (remove_prefix h (arg k)) len);                        (* n > size(): clamped *)
    call b (enc_view (remove_suffix h (arg k)) 0)) [len + 1; len + 2; -2; -1];
  call b (enc_str (h @ [n_of_int 0x7C; n_of_int 0x37]));                    (* os << v << '|' << 7 *)
  List.iter (fun pos -> List.iter (fun k ->
    call b (match substr h (arg pos) (arg k) with Ok v -> enc_view v pos | _ -> [-2])) nn) p;
  let buf = List.init (len + 3) (fun _ -> n_of_int 0x2E) in
  List.iter (fun pos -> List.iter (fun k ->
    call b (match copy h buf (arg k) (arg pos) with
            | Ok (r, out) -> enc_size r :: enc_str out
            | _ -> -2 :: enc_str buf)) nn) p;
  List.iter (fun c ->
    let cn = n_of_int c in
    let cv = of_char cn in
    call b [enc_bool (starts_with_char h cn)];
    call b [enc_bool (ends_with_char h cn)];
    List.iter (fun pos ->
      let a = arg pos in
      call b [found b (find h cv a)];
      call b [found b (rfind h cv a)];
      call b [enc_size (find_first_of h cv a)];
      call b [enc_size (find_last_of h cv a)];
      call b [enc_size (find_first_not_of h cv a)];
      call b [enc_size (find_last_not_of h cv a)]) p) alpha5;
  let do_copy k pos =
    call b (match copy h buf (arg k) (arg pos) with
            | Ok (r, out) -> enc_size r :: enc_str out
            | _ -> -2 :: enc_str buf) in
  List.iter (fun g ->
    call b (match at_ h (arg g) with Ok c -> [int_of_n c] | _ -> [-2]);
    call b (match substr h (arg g) (arg 1) with Ok v -> enc_view v g | _ -> [-2]);
    for pos = 0 to len do
      call b (match substr h (arg pos) (arg g) with Ok v -> enc_view v pos | _ -> [-2]);
      do_copy g pos
    done;
    do_copy 1 g;
    call b [enc_size (find h (of_char (n_of_int 0x61)) (arg g))];
    call b [enc_size (rfind h (of_char (n_of_int 0x61)) (arg g))]) huge3;
  finish b

(* ---------------------------------------------------------------- block P *)
let block_pair ?lh ?ls h s verbose =
  let lh = match lh with Some l -> l | None -> hex h and ls = match ls with Some l -> l | None -> hex s in
  let b = { kind = 'P'; h; s; lh; ls; verbose; hm = 0; ncalls = 0; hits = 0 } in
  let len = List.length h in
  let p = positions len and f = few_positions len in
  let cs = of_cstr s in                         (* what a const char* overload sees: bytes before the first NUL *)
  let pn = of_ptr_n s (size s) in               (* (ptr, n) overloads are called with n = |s| *)
  let rel a x = [enc_bool (op_eq a x); enc_bool (op_ne a x); enc_bool (op_lt a x); enc_bool (op_gt a x);
                 enc_bool (op_le a x); enc_bool (op_ge a x)] in
  call b [enc_sign (compare0 h s)];
  call b (rel h s);
  call b (rel h s);
  call b (rel s h);
  call b (rel h cs);
  call b (rel cs h);
  call b [enc_sign (compare0 h cs)];
  call b [enc_bool (starts_with h s)];
  call b [enc_bool (ends_with h s)];
  call b (enc_str s @ (if 1 + List.length s + len + 1 <= 64 then enc_str h else []));     (* swap *)
  call b [1; 1];                                                                            (* std::hash consistent with == *)
  let six x a =
    call b [(if x <> [] then found b else enc_size) (find h x a)];
    call b [(if x <> [] then found b else enc_size) (rfind h x a)];
    call b [enc_size (find_first_of h x a)];
    call b [enc_size (find_last_of h x a)];
    call b [enc_size (find_first_not_of h x a)];
    call b [enc_size (find_last_not_of h x a)] in
  List.iter (fun pos -> six s (arg pos)) p;
  List.iter (fun pos -> six pn (arg pos); six cs (arg pos)) f;
  let n1s = if List.length s <= 1 then counts len else p in
  List.iter (fun pos1 -> List.iter (fun n1 ->
    if pos1 <> -1 && pos1 <= len || n1 = 0 || n1 = -1 || (List.length s <= 1 && len <= 3) then
      call b (match compare3 h (arg pos1) (arg n1) s with Ok z -> [enc_sign z] | _ -> [-2])) n1s) p;
  for k = 0 to List.length s - 1 do
    let pk = of_ptr_n s (arg k) in
    List.iter (fun pos ->
      let a = arg pos in
      call b [enc_size (find h pk a)];
      call b [enc_size (rfind h pk a)];
      call b [enc_size (find_first_of h pk a)];
      call b [enc_size (find_last_of h pk a)];
      call b [enc_size (find_first_not_of h pk a)];
      call b [enc_size (find_last_not_of h pk a)];
      call b (match compare3 h (arg 0) (arg (-1)) pk with Ok z -> [enc_sign z] | _ -> [-2])) [0; -1]
  done;
  List.iter (fun pos1 -> List.iter (fun n1 ->
    call b (match compare3 h (arg pos1) (arg n1) cs with Ok z -> [enc_sign z] | _ -> [-2]);
    call b (match compare3 h (arg pos1) (arg n1) pn with Ok z -> [enc_sign z] | _ -> [-2])) (few_counts len)) f;
  List.iter (fun g ->
    let a = arg g in
    call b [enc_size (find h s a)];
    call b [enc_size (rfind h s a)];
    call b [enc_size (find_first_of h s a)];
    call b [enc_size (find_last_of h s a)];
    call b [enc_size (find_first_not_of h s a)];
    call b [enc_size (find_last_not_of h s a)];
    call b (match compare3 h (arg 0) a s with Ok z -> [enc_sign z] | _ -> [-2])) huge3;
  finish b

(* ---------------------------------------------------------------- block C *)
let block_cmp5 h s verbose =
  let b = { kind = 'C'; h; s; lh = hex h; ls = hex s; verbose; hm = 0; ncalls = 0; hits = 0 } in
  let lh = List.length h and ls = List.length s in
  let p = positions lh and q = positions ls in
  let n1s = counts lh and n2s = counts ls in
  List.iter (fun pos1 -> List.iter (fun n1 -> List.iter (fun pos2 -> List.iter (fun n2 ->
    if (pos1 <> -1 && pos1 <= lh || n1 = 0 || n1 = -1) && (pos2 <> -1 && pos2 <= ls || n2 = 0 || n2 = -1) then
      call b (match compare5 h (arg pos1) (arg n1) s (arg pos2) (arg n2) with Ok z -> [enc_sign z] | _ -> [-2])) n2s) q) n1s) p;
  finish b

(* ---------------------------------------------------------------- blocks M and A: views into one buffer *)
let rec drop k l = if k <= 0 then l else match l with [] -> [] | _ :: t -> drop (k - 1) t
let rec take k l = if k <= 0 then [] else match l with [] -> [] | x :: t -> x :: take (k - 1) t
let sub buf o l = take l (drop o buf)

let block_mid buf o l verbose =
  if o + l > List.length buf then print_endline "? bad mid range"
  else block_hay ~kind:'M' ~lh:(hex buf) ~ls:(Printf.sprintf "%d,%d" o l) (sub buf o l) verbose

let block_alias buf o1 l1 o2 l2 verbose =
  if o1 + l1 > List.length buf || o2 + l2 > List.length buf then print_endline "? bad alias range" else begin
  let h = sub buf o1 l1 and s = sub buf o2 l2 in
  let b = { kind = 'A'; h; s; lh = hex buf; ls = Printf.sprintf "%d,%d,%d,%d" o1 l1 o2 l2; verbose;
            hm = 0; ncalls = 0; hits = 0 } in
  let len = List.length h in
  let p = positions len and f = few_positions len in
  let cs = of_cstr (drop o2 buf) in             (* the C string at buf + o2: up to the first NUL or the terminator *)
  let rel a x = [enc_bool (op_eq a x); enc_bool (op_ne a x); enc_bool (op_lt a x); enc_bool (op_gt a x);
                 enc_bool (op_le a x); enc_bool (op_ge a x)] in
  call b [enc_sign (compare0 h s)];
  call b (rel h s);
  call b (rel h cs);
  call b (rel cs h);
  call b [enc_sign (compare0 h cs)];
  call b [enc_bool (starts_with h s)];
  call b [enc_bool (ends_with h s)];
  List.iter (fun pos ->
    let a = arg pos in
    call b [(if s <> [] then found b else enc_size) (find h s a)];
    call b [(if s <> [] then found b else enc_size) (rfind h s a)];
    call b [enc_size (find_first_of h s a)];
    call b [enc_size (find_last_of h s a)];
    call b [enc_size (find_first_not_of h s a)];
    call b [enc_size (find_last_not_of h s a)]) p;
  List.iter (fun pos ->
    call b [enc_size (find h cs (arg pos))];
    call b [enc_size (rfind h cs (arg pos))]) f;
  List.iter (fun pos1 -> List.iter (fun n1 ->
    call b (match compare3 h (arg pos1) (arg n1) s with Ok z -> [enc_sign z] | _ -> [-2])) (few_counts len)) f;
  List.iter (fun pos1 -> List.iter (fun n1 -> List.iter (fun pos2 -> List.iter (fun n2 ->
    call b (match compare5 h (arg pos1) (arg n1) s (arg pos2) (arg n2) with Ok z -> [enc_sign z] | _ -> [-2]))
    [1; -1]) [0; 1]) [1; -1]) [0; 1];
  List.iter (fun g ->
    call b [enc_size (find h s (arg g))];
    call b [enc_size (rfind h s (arg g))]) huge3;
  finish b end

(* ---------------------------------------------------------------- block G: huge sizes
   The view has sz = 2^31-1 .. 2^32+2^31 zero bytes; it cannot be a byte list. The model is evaluated through the
   locality theorems of coq/C18/Window.v: the size arithmetic by the extracted *_dims functions on sz (as N), the byte
   comparisons on the window of the view that the query looks at (a short list of zeros):
     compare / operators: compare_window, operators_window (|x|+1 bytes);  compare(pos,n,..): compare3/5_factor;
     substr / remove_prefix / remove_suffix / copy / at: *_factor;  starts/ends_with: *_window;
     forward searches from pos: find_shift etc. with o = min(pos, sz);  backward searches: rfind_shift etc. with
     o = sz - 8 (conditional on the occurrence lying in the window; otherwise the driver prints -99); backward
     searches from a small pos: rfind_prefix etc. (the first pos+|s| resp. pos+1 bytes). *)
let zeros k = List.init k (fun _ -> N0)
let g31 = 1 lsl 31 and g32 = 1 lsl 32
let huge_sizes = [g31 - 1; g31; g31 + 1; g32 - 1; g32; g32 + 1; g32 + g31]

let block_huge sz s verbose =
  let b = { kind = 'G'; h = []; s; lh = string_of_int sz; ls = hex s; verbose; hm = 0; ncalls = 0; hits = 0 } in
  let szn = n_of_int sz in
  let ls = List.length s in
  let allzero = List.for_all (fun c -> c = N0) s and haszero = List.exists (fun c -> c = N0) s in
  let win l = zeros (min l (ls + 1)) in                          (* window of a sub-view of l zero bytes, for compare with s *)
  let a' = win sz in
  let rel a x = [enc_bool (op_eq a x); enc_bool (op_ne a x); enc_bool (op_lt a x); enc_bool (op_gt a x);
                 enc_bool (op_le a x); enc_bool (op_ge a x)] in
  let cs = of_cstr s in
  let dims_cmp d (x : n list) = match d with
    | Ok (_, l) -> [enc_sign (compare0 (zeros (min (int_of_n l) (List.length x + 1))) x)]
    | _ -> [-2] in
  call b [sz; sz; 0];
  List.iter (fun pos -> call b (if at_throws szn (arg pos) then [-2] else [int_of_n (nthN (zeros 1) N0)])) [sz - 1; sz; -1];
  call b [int_of_n (nthN (zeros 1) N0)];
  call b [int_of_n (front (zeros 1))];
  call b [int_of_n (back (zeros 1))];
  call b [enc_sign (compare0 a' s)];
  call b [enc_sign (compare0 s a')];
  call b (rel a' s);
  call b (rel s a');
  call b [enc_sign (compare0 (zeros (min sz (List.length cs + 1))) cs)];
  call b [enc_bool (starts_with (zeros ls) s)];
  call b [enc_bool (ends_with (zeros ls) s)];
  call b [enc_bool (starts_with_char (zeros 1) N0)];
  call b [enc_bool (ends_with_char (zeros 1) N0)];
  call b [enc_bool (ends_with_char (zeros 1) (n_of_int 0x61))];
  List.iter (fun pos1 -> List.iter (fun n1 ->
    if (pos1 <> -1 && pos1 <= sz) || n1 = 0 || n1 = -1 then
      call b (dims_cmp (substr_dims szn (arg pos1) (arg n1)) s)) [0; 1; 3; g31; g32 + 1; -2; -1])
    [0; 1; sz - 2; sz - 1; sz; sz + 1; -1];
  call b (dims_cmp (substr_dims szn (arg 0) (arg (-1))) cs);
  call b (dims_cmp (substr_dims szn (arg (sz - 1)) (arg (-1))) (of_ptr_n s (size s)));
  List.iter (fun pos1 -> List.iter (fun n1 -> List.iter (fun pos2 -> List.iter (fun n2 ->
    call b (match substr_dims szn (arg pos1) (arg n1), substr s (arg pos2) (arg n2) with
            | (Ok _ as d), Ok w -> dims_cmp d w
            | _ -> [-2])) [1; -1]) [0; 1]) [g31; -1]) [0; sz - 1];
  List.iter (fun pos -> List.iter (fun k ->
    if (pos <> -1 && pos <= sz) || k = 0 || k = -1 then
      call b (match substr_dims szn (arg pos) (arg k) with Ok (o, l) -> [int_of_n l; int_of_n o] | _ -> [-2]))
      [0; 1; g31; g32; sz - 1; sz; sz + 1; -2; -1]) [0; 1; sz - 1; sz; sz + 1; -1];
  List.iter (fun k ->
    (let (o, l) = remove_prefix_dims szn (arg k) in call b [int_of_n l; int_of_n o]);
    (let (o, l) = remove_suffix_dims szn (arg k) in call b [int_of_n l; int_of_n o])) [0; 1; g31 - 1; sz - 1; sz];
  List.iter (fun (k, pos) ->
    let dots = List.init 4 (fun _ -> 0x2E) in
    call b (match copy_dims szn (arg k) (arg pos) with
            | Ok r -> let r = int_of_n r in r :: List.init 4 (fun i -> if i < r then 0 else 0x2E)
            | _ -> -2 :: dots))
    [(3, 0); (-1, sz - 2); (1, sz - 1); (-1, sz); (1, sz + 1); (g31, sz - 1)];
  List.iter (fun pos ->
    let o = if pos = -1 || pos > sz then sz else pos in
    let h' = zeros (sz - o) and pos' = N.sub (arg pos) (n_of_int o) in
    let back r = if r = npos then -1 else o + int_of_n r in
    call b [back (find h' s pos')];
    call b [back (find_first_of h' s pos')];
    call b [back (find_first_not_of h' s pos')]) [sz - 3; sz - 1; sz; sz + 1; -1];
  List.iter (fun pos ->
    let o = sz - 8 in
    let h' = zeros 8 and pos' = N.sub (arg pos) (n_of_int o) in
    let back r = if r = npos then -99 else o + int_of_n r in
    if allzero then call b [back (rfind h' s pos')];
    if haszero then call b [back (find_last_of h' s pos')];
    if not haszero then call b [back (find_last_not_of h' s pos')]) [-1; sz - 1; sz + 5];
  List.iter (fun pos ->                                          (* rfind_prefix, find_last_(not_)of_prefix *)
    call b [enc_size (rfind (zeros (pos + ls)) s (arg pos))];
    call b [enc_size (find_last_of (zeros (pos + 1)) s (arg pos))];
    call b [enc_size (find_last_not_of (zeros (pos + 1)) s (arg pos))]) [0; 2];
  finish b

(* ---------------------------------------------------------------- enumeration *)
let all_strings alpha maxlen =
  let rec go len level acc =
    if len > maxlen then List.concat (List.rev acc)
    else
      let next = List.concat_map (fun p -> List.map (fun c -> p @ [c]) alpha) level in
      go (len + 1) next (next :: acc) in
  go 1 [[]] [[[]]]

let () =
  let ic = open_in Sys.argv.(1) in
  (try
    while true do
      let line = input_line ic in
      let toks = List.filter (fun s -> s <> "") (String.split_on_char ' ' (String.trim line)) in
      let verbose, toks = match toks with
        | k :: rest when String.length k > 1 && k.[0] = 'v' -> true, String.sub k 1 (String.length k - 1) :: rest
        | _ -> false, toks in
      match toks with
      | [] -> ()
      | k :: _ when k.[0] = '#' -> ()
      | ["hay"; a] -> block_hay ?lh:(if a = "~" then Some "~" else None) (unhex a) verbose
      | ["pair"; a; b] ->
        block_pair ?lh:(if a = "~" then Some "~" else None) ?ls:(if b = "~" then Some "~" else None) (unhex a) (unhex b) verbose
      | "huge" :: a :: rest ->
        let only = match rest with [x] -> int_of_string x | _ -> 0 in
        List.iter (fun sz -> if only = 0 || only = sz then block_huge sz (unhex a) verbose) huge_sizes
      | ["mid"; a; o; l] -> block_mid (unhex a) (int_of_string o) (int_of_string l) verbose
      | ["alias"; a; o1; l1; o2; l2] ->
        block_alias (unhex a) (int_of_string o1) (int_of_string l1) (int_of_string o2) (int_of_string l2) verbose
      | ["aenum"; a; m1; m2; part; parts] ->
        let alpha = unhex a in
        let m1 = int_of_string m1 and m2 = int_of_string m2 in
        let part = int_of_string part and parts = int_of_string parts in
        List.iteri (fun bi buf ->
          let n = List.length buf in
          if n >= m1 && bi mod parts = part then
            for o1 = 0 to n do for l1 = 0 to n - o1 do
              block_mid buf o1 l1 false;
              for o2 = 0 to n do for l2 = 0 to n - o2 do block_alias buf o1 l1 o2 l2 false done done
            done done) (all_strings alpha m2)
      | ["cmp5"; a; b] -> block_cmp5 (unhex a) (unhex b) verbose
      | ["enum"; a; m1; m2; m3; m4; part; parts] ->
        let alpha = unhex a in
        let m1 = int_of_string m1 and m2 = int_of_string m2 and m3 = int_of_string m3 and m4 = int_of_string m4 in
        let part = int_of_string part and parts = int_of_string parts in
        let hs = all_strings alpha m1 and ss = all_strings alpha m2 in
        List.iteri (fun hi h -> if hi mod parts = part then begin
          block_hay h false;
          List.iter (fun s ->
            block_pair h s false;
            if List.length h <= m3 && List.length s <= m4 then block_cmp5 h s false) ss end) hs
      | _ -> print_endline ("? " ^ line)
    done
  with End_of_file -> ());
  close_in ic
