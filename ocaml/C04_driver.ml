(* C04 driver: folds the extracted lstep over protocol event traces. Input: one trace per line,
   tokens "C<p>" (p = -1 root) | "T<s>" | "A<s>" | "D<s>" | "L<s>" | "N<s>" | "X<s>".
   Output per line: "OK <n> dead=<0|1>" or "REJECT <k> <token> NotEnabled|Error". *)
open C04_model
let rec nat_of_int n = if n <= 0 then O else S (nat_of_int (n - 1))
let ev_of tok =
  let k = tok.[0] and v = int_of_string (String.sub tok 1 (String.length tok - 1)) in
  match k with
  | 'C' -> ECreate (if v < 0 then None else Some (nat_of_int v))
  | 'T' -> ETouch (nat_of_int v) | 'A' -> EAdd (nat_of_int v) | 'D' -> EDone (nat_of_int v)
  | 'L' -> EAllDone (nat_of_int v) | 'N' -> ENotify (nat_of_int v) | 'X' -> EDelete (nat_of_int v)
  | _ -> failwith tok
let () =
  let ic = open_in Sys.argv.(1) in
  (try while true do
    let line = input_line ic in
    let toks = List.filter (fun s -> s <> "") (String.split_on_char ' ' line) in
    let rec go st k = function
      | [] -> Printf.printf "OK %d dead=%d\n" k (if all_dead st then 1 else 0)
      | t :: rest ->
        (match lstep st (ev_of t) with
         | Ok st' -> go st' (k + 1) rest
         | NotEnabled -> Printf.printf "REJECT %d %s NotEnabled\n" k t
         | Error -> Printf.printf "REJECT %d %s Error\n" k t) in
    go [] 0 toks
  done with End_of_file -> ()); close_in ic
