(* C14 driver: replays the case file on the extracted Coq model; one output line per case.
   Line formats are documented in checks/C14.py. *)
open C14_model

let rec pos_of_int n = if n = 1 then XH else if n land 1 = 1 then XI (pos_of_int (n lsr 1)) else XO (pos_of_int (n lsr 1))
let n_of_int n = if n = 0 then N0 else Npos (pos_of_int n)
(* values up to 2^64-1 arrive as hex strings *)
let n_of_hex (s : string) : n =
  let r = ref N0 in
  (* build from the most significant digit: r := 16 r + d on the positive representation *)
  let dbl p = match p with N0 -> N0 | Npos q -> Npos (XO q) in
  let dbl1 p = match p with N0 -> Npos XH | Npos q -> Npos (XI q) in
  String.iter (fun c ->
    let d = match c with '0'..'9' -> Char.code c - 48 | 'a'..'f' -> Char.code c - 87 | 'A'..'F' -> Char.code c - 55
                         | _ -> failwith "hex" in
    for b = 3 downto 0 do r := (if (d lsr b) land 1 = 1 then dbl1 !r else dbl !r) done) s;
  !r
let rec pos_to_hexbits p acc = match p with XH -> 1 :: acc | XO q -> pos_to_hexbits q (0 :: acc) | XI q -> pos_to_hexbits q (1 :: acc)
(* N -> lower-case hex, fixed width *)
let hex_of_n (width : int) (x : n) : string =
  let bits = match x with N0 -> [] | Npos p -> pos_to_hexbits p [] in   (* most significant first *)
  let nb = List.length bits in
  let total = width * 4 in
  let bits = if nb < total then List.init (total - nb) (fun _ -> 0) @ bits else bits in
  let a = Array.of_list bits in
  let n = Array.length a in
  let nd = (n + 3) / 4 in
  let b = Buffer.create nd in
  let off = nd * 4 - n in
  for d = 0 to nd - 1 do
    let v = ref 0 in
    for k = 0 to 3 do
      let i = d * 4 + k - off in
      v := !v * 2 + (if i >= 0 then a.(i) else 0)
    done;
    Buffer.add_char b "0123456789abcdef".[!v]
  done;
  Buffer.contents b
let rec int_of_pos = function XH -> 1 | XO q -> 2 * int_of_pos q | XI q -> 2 * int_of_pos q + 1
let int_of_n = function N0 -> 0 | Npos p -> int_of_pos p

let bytes_of_hex (s : string) : n list =
  if s = "-" then [] else
  List.init (String.length s / 2) (fun i -> n_of_int (int_of_string ("0x" ^ String.sub s (2 * i) 2)))
let hex_of_bytes (l : n list) : string =
  let b = Buffer.create 64 in
  List.iter (fun x -> Buffer.add_string b (Printf.sprintf "%02x" (int_of_n x))) l; Buffer.contents b
let string_of_codes (l : n list) : string =
  let b = Buffer.create 64 in List.iter (fun x -> Buffer.add_char b (Char.chr (int_of_n x))) l; Buffer.contents b

let rec take n l = if n = 0 then [] else match l with [] -> [] | x :: r -> x :: take (n - 1) r
let rec drop n l = if n = 0 then l else match l with [] -> [] | _ :: r -> drop (n - 1) r
let rec nat_of_int n = if n <= 0 then O else S (nat_of_int (n - 1))
let rec int_of_nat = function O -> 0 | S n -> 1 + int_of_nat n

let algos = [ ("md5", AMD5); ("sha1", ASHA1); ("sha256", ASHA256); ("sha512", ASHA512) ]
let junk a = List.init (int_of_nat (algo_B a)) (fun i -> n_of_int ((i * 37 + 11) land 255))

let split_chunks (msg : n list) (sizes : int list) : n list list =
  let rec go m = function [] -> [] | s :: r -> take s m :: go (drop s m) r in go msg sizes

let opt f = function Some l -> f l | None -> "FUEL-EXHAUSTED"

let () =
  let ic = open_in Sys.argv.(1) in
  (try
    while true do
      let line = input_line ic in
      match List.filter (fun s -> s <> "") (String.split_on_char ' ' line) with
      | "D" :: mh :: chs :: _ ->
        let msg = bytes_of_hex mh in
        let chunkings = List.map (fun c -> if c = "e" then [] else List.map int_of_string (String.split_on_char ',' c))
                          (String.split_on_char '/' chs) in
        let b = Buffer.create 256 in
        Buffer.add_string b "D";
        List.iter (fun (nm, a) ->
          (* xxx_hex(data) = XXX(data).digest_hex(): one process() call, then hexdump of the digest *)
          let one = digest a (junk a) [msg] in
          Buffer.add_string b (Printf.sprintf " %s:h=%s:H=%s" nm (opt (fun d -> string_of_codes (hexdump hex_lc d)) one)
                                 (opt (fun d -> string_of_codes (hexdump hex_uc d)) one));
          List.iter (fun sizes ->
            let cks = split_chunks msg sizes in
            let d = digest a (junk a) cks in
            Buffer.add_string b (Printf.sprintf ":%s,%s,%s" (opt hex_of_bytes d)
                                   (opt (fun d -> string_of_codes (hexdump hex_lc d)) d)
                                   (opt (fun d -> string_of_codes (hexdump hex_uc d)) d))) chunkings) algos;
        Buffer.add_string b " | spec";
        List.iter (fun (nm, a) -> Buffer.add_string b (" " ^ hex_of_bytes (spec a msg))) algos;
        print_endline (Buffer.contents b)
      | ["S"; mh; k] ->
        let msg = bytes_of_hex mh in
        let n = List.length msg in
        let k = int_of_string k in
        let cnt = if k = 2 then n + 1 else (n + 1) * (n + 2) / 2 in
        let b = Buffer.create 256 in
        Buffer.add_string b (Printf.sprintf "S ok n=%d" cnt);
        List.iter (fun (nm, a) -> Buffer.add_string b (" " ^ opt hex_of_bytes (digest a (junk a) [msg]))) algos;
        Buffer.add_string b " | spec";
        List.iter (fun (nm, a) -> Buffer.add_string b (" " ^ hex_of_bytes (spec a msg))) algos;
        print_endline (Buffer.contents b)
      | ["C"; nm; st; blk] ->
        let a = List.assoc nm algos in
        let w = if nm = "sha512" then 16 else 8 in
        let stl = List.map n_of_hex (String.split_on_char ',' st) in
        let r = compress_raw a stl (bytes_of_hex blk) in
        print_endline ("C " ^ String.concat "," (List.map (hex_of_n w) r))
      | ["P"; kh; mh; _; _] ->
        let key = bytes_of_hex kh and msg = bytes_of_hex mh in
        let p = hex_of_n 16 (siphash_plain key msg) and s = hex_of_n 16 (siphash_sse2 key msg) in
        (* default-key entry points and the value template: the dispatching siphash with key 00..0f *)
        let defkey = List.init 16 n_of_int in
        let d = hex_of_n 16 (siphash_sse2 defkey msg) in
        let tpl = if List.mem (List.length msg) [1; 2; 3; 4; 8; 12; 16; 32] then " tpl=" ^ d else "" in
        let sp = hex_of_n 16 (sip_spec key msg) in
        (* ref= : the harness's C++ reference must equal the extracted SPEC (not the model of the code) *)
        print_endline (Printf.sprintf "P plain=%s sse2=%s disp=%s ref=%s def=%s,%s,%s,%s,%s%s | spec %s" p s s sp d d d d d tpl sp)
      | ["L"; ph; n; chs; _; flag] ->
        if flag <> "1" then print_endline "L skipped" else begin
          let pat = Array.of_list (bytes_of_hex ph) in
          let n = int_of_string n in
          let msg = List.init n (fun i -> pat.(i mod Array.length pat)) in
          let cks = split_chunks msg (List.map int_of_string (String.split_on_char ',' chs)) in
          let b = Buffer.create 256 in
          Buffer.add_string b "L";
          List.iter (fun (nm, a) -> Buffer.add_string b (Printf.sprintf " %s=%s" nm (opt hex_of_bytes (digest a (junk a) cks)))) algos;
          print_endline (Buffer.contents b)
        end
      | "Z" :: _ -> print_endline "Z skipped"
      | _ -> print_endline "?"
    done
  with End_of_file -> ());
  close_in ic
