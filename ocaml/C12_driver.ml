(* C12 driver: replays the case file on the extracted Coq model; one output line per case. *)
open C12_model

let rec nat_of_int n = if n <= 0 then O else S (nat_of_int (n - 1))
let rec int_of_nat = function O -> 0 | S n -> 1 + int_of_nat n
let split c s = String.split_on_char c s
let n s = nat_of_int (int_of_string s)

let seq_op tok =
  match split ',' tok with
  | ["N"; v; x] -> ONew (n v, n x)
  | ["DF"; v] -> ODefault (n v)
  | ["NP"; v] -> ONullptr (n v)
  | ["FR"; v; w] -> OFromRaw (n v, n w)
  | ["CC"; v; w] -> OCopyCtor (n v, n w)
  | ["XCC"; v; w] -> OConvCopyCtor (n v, n w)
  | ["MC"; v; w] -> OMoveCtor (n v, n w)
  | ["XMC"; v; w] -> OConvMoveCtor (n v, n w)
  | ["CA"; v; w] -> OCopyAssign (n v, n w)
  | ["XCA"; v; w] -> OConvCopyAssign (n v, n w)
  | ["MA"; v; w] -> OMoveAssign (n v, n w)
  | ["XMA"; v; w] -> OConvMoveAssign (n v, n w)
  | ["AN"; v; x] -> OAssignNew (n v, n x)
  | ["R"; v] -> OReset (n v)
  | ["SW"; v; w] -> OSwap (n v, n w)
  | ["U"; v] -> OUnify (n v)
  | ["X"; v] -> ODestroy (n v)
  | ["AD"; v; o] -> OAdopt (n v, n o)
  | ["AZ"; v] -> OAssignNull (n v)
  | ["OA"; v; w] -> OObjAssign (n v, n w)
  | _ -> failwith ("bad seq op " ^ tok)

let conc_ev tok =
  match split ',' tok with
  | ["CS"; t] -> EvCopyStart (n t)
  | ["A"; t; o] -> EvFetchAdd (n t, n o)
  | ["S"; t; o] -> EvFetchSub (n t, n o)
  | ["D"; t] -> EvDelete (n t)
  | ["G"; t; u] -> EvGive (n t, n u)
  | ["U"; t] -> EvUse (n t)
  | _ -> EvDelete (nat_of_int 999)   (* an action the model does not have (e.g. a plain store): never enabled *)

let show_var = function
  | VDead -> "-"
  | VNull -> "0"
  | VPtr (o, uc, u, p) -> Printf.sprintf "%d:%d:%d:%d" (int_of_nat o) (int_of_nat uc) (if u then 1 else 0) (int_of_nat p)

let show_obs o =
  String.concat "," (List.map show_var o.ovars) ^ ";" ^
  String.concat "." (List.map (fun d -> string_of_int (int_of_nat d)) o.odestroyed) ^ ";" ^
  String.concat "." (List.map (fun d -> string_of_int (int_of_nat d)) o.oorphaned)

let () =
  let ic = open_in Sys.argv.(1) in
  (try
    while true do
      let line = input_line ic in
      match List.filter (fun s -> s <> "") (split ' ' line) with
      | "seq" :: kinds :: toks ->
        (* one letter per handle variable: M, C (const T), B (base class): default deleter; N: no-operation deleter *)
        let nodel v = let i = int_of_nat v in i < String.length kinds && kinds.[i] = 'N' in
        let ops = List.map seq_op toks in
        let (outs, fin) = run_case nodel (nat_of_int (String.length kinds)) ops in
        let b = Buffer.create 256 in
        let anybad = ref fin.obad in
        List.iter (function
          | Some o -> if o.obad then anybad := true; Buffer.add_string b (show_obs o); Buffer.add_char b ' '
          | None -> Buffer.add_string b "skip ") outs;
        Buffer.add_string b ("F:" ^ show_obs fin);
        Buffer.add_string b (if !anybad then " P=MODEL-LEDGER-BAD" else " P=ok");
        print_endline (Buffer.contents b)
      | "list" :: k :: toks ->
        let lop tok = match split ',' tok with
          | ["NN"; v] -> NNew (n v) | ["CP"; v; w] -> NCopy (n v, n w) | ["RS"; v] -> NReset (n v)
          | ["LK"; v; w] -> NLink (n v, n w) | ["FN"; v; w] -> NFromNext (n v, n w) | ["MN"; v; w] -> NMoveNext (n v, n w)
          | _ -> failwith ("bad list op " ^ tok) in
        let show o =
          String.concat "," (List.map (function None -> "0" | Some (ob, c) -> Printf.sprintf "%d:%d" (int_of_nat ob) (int_of_nat c)) o.no_vars) ^ ";" ^
          String.concat "." (List.map (fun (d, nx) -> Printf.sprintf "%d>%s" (int_of_nat d) (match nx with None -> "-" | Some x -> string_of_int (int_of_nat x))) o.no_nodes) in
        let (outs, fin) = nrun_case (n k) (List.map lop toks) in
        let b = Buffer.create 256 in
        let anybad = ref fin.no_bad in
        List.iter (function
          | Some o -> if o.no_bad then anybad := true; Buffer.add_string b (show o); Buffer.add_char b ' '
          | None -> Buffer.add_string b "skip ") outs;
        Buffer.add_string b ("F:" ^ show fin);
        Buffer.add_string b (if !anybad then " P=MODEL-LEDGER-BAD" else " P=ok");
        print_endline (Buffer.contents b)
      | "trace" :: caseno :: hs :: rest ->
        (* multi-object trace: project onto each object (disjoint counters) and replay each projection on Conc.validate *)
        let rec toks acc = function
          | [] | ";" :: _ -> List.rev acc
          | tok :: tl -> toks (tok :: acc) tl in
        let tl = List.map (fun tok -> split ',' tok) (toks [] rest) in
        let ios s = try int_of_string s with _ -> -1 in
        let nthreads = List.length (split ',' hs) in
        let nobj = List.fold_left (fun m f -> match f with
            | "K" :: _ :: _ :: nw :: _ -> max m (ios nw + 1)
            | _ -> m) 1 tl in
        let impossible = EvDelete (nat_of_int 999) in   (* an action the model does not have: never enabled *)
        let project o =
          List.concat (List.map (fun f -> match f with
            | ["CS"; t; o'] when ios o' = o -> [EvCopyStart (n t)]
            | ["A"; t; old; o'] when ios o' = o -> [EvFetchAdd (n t, n old)]
            | ["S"; t; old; o'] when ios o' = o -> [EvFetchSub (n t, n old)]
            | ["D"; t; o'] when ios o' = o -> [EvDelete (n t)]
            | ["G"; t; u; o'] when ios o' = o -> [EvGive (n t, n u)]
            | ["U"; t; o'] when ios o' = o -> [EvUse (n t)]
            | ["K"; t; orig; _] when ios orig = o -> [EvCloneRead (n t)]
            | ["K"; _; _; _] -> []
            | "L" :: _ -> []                                   (* plain load: no event of the model *)
            | [_; _; _; o'] when ios o' = o || ios o' < 0 -> [impossible]   (* store / unknown RMW / unknown address *)
            | [_; _; o'] when ios o' = o -> [impossible]
            | _ -> []) tl) in
        let creator o = List.fold_left (fun c f -> match f with
            | ["K"; t; _; nw] when ios nw = o -> ios t | _ -> c) (-1) tl in
        let results = List.init nobj (fun o ->
          if o = 0 then validate (List.map n (split ',' hs)) (project 0)
          else begin
            let c = creator o in
            let init = List.init nthreads (fun t -> nat_of_int (if t = c then 1 else 0)) in
            match project o with
            | EvFetchAdd (t, old) :: evs when int_of_nat t = c && int_of_nat old = 0 -> validate init evs   (* the first handle *)
            | _ -> Inl O
          end) in
        let rej = ref None in
        List.iteri (fun o r -> match r with Inl i when !rej = None -> rej := Some (o, int_of_nat i) | _ -> ()) results;
        (match !rej with
         | Some (o, i) -> Printf.printf "trace %s REJECTED@object%d:event%d\n" caseno o i
         | None ->
           let get f = String.concat "." (List.map (fun r -> match r with Inr (((rc, d), b), q) -> f rc d b q | _ -> "?") results) in
           let allb f = List.for_all (fun r -> match r with Inr (((_, _), b), q) -> f b q | _ -> false) results in
           Printf.printf "trace %s accepted objects=%d events=%d rc=%s destroyed=%s bad=%d quiescent=%d\n" caseno nobj (List.length tl)
             (get (fun rc _ _ _ -> string_of_int (int_of_nat rc))) (get (fun _ d _ _ -> string_of_int (int_of_nat d)))
             (if allb (fun b _ -> not b) then 0 else 1) (if allb (fun _ q -> q) then 1 else 0))
      | _ -> print_endline "?"
    done
  with End_of_file -> ());
  close_in ic
