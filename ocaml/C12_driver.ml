(* C12 driver: replays the case file on the extracted Coq model; one output line per case. *)
open C12_model

let rec nat_of_int n = if n <= 0 then O else S (nat_of_int (n - 1))
let rec int_of_nat = function O -> 0 | S n -> 1 + int_of_nat n
let split c s = String.split_on_char c s
let n s = nat_of_int (int_of_string s)

let seq_op tok =
  match split ',' tok with
  | ["N"; v; x] -> ONew (n v, n x)
  | ["DF"; v] -> ODefault (n v)
  | ["NP"; v] -> ONullptr (n v)
  | ["FR"; v; w] -> OFromRaw (n v, n w)
  | ["CC"; v; w] -> OCopyCtor (n v, n w)
  | ["XCC"; v; w] -> OConvCopyCtor (n v, n w)
  | ["MC"; v; w] -> OMoveCtor (n v, n w)
  | ["XMC"; v; w] -> OConvMoveCtor (n v, n w)
  | ["CA"; v; w] -> OCopyAssign (n v, n w)
  | ["XCA"; v; w] -> OConvCopyAssign (n v, n w)
  | ["MA"; v; w] -> OMoveAssign (n v, n w)
  | ["XMA"; v; w] -> OConvMoveAssign (n v, n w)
  | ["AN"; v; x] -> OAssignNew (n v, n x)
  | ["R"; v] -> OReset (n v)
  | ["SW"; v; w] -> OSwap (n v, n w)
  | ["U"; v] -> OUnify (n v)
  | ["X"; v] -> ODestroy (n v)
  | _ -> failwith ("bad seq op " ^ tok)

let conc_ev tok =
  match split ',' tok with
  | ["CS"; t] -> EvCopyStart (n t)
  | ["A"; t; o] -> EvFetchAdd (n t, n o)
  | ["S"; t; o] -> EvFetchSub (n t, n o)
  | ["D"; t] -> EvDelete (n t)
  | ["G"; t; u] -> EvGive (n t, n u)
  | ["U"; t] -> EvUse (n t)
  | _ -> EvDelete (nat_of_int 999)   (* an action the model does not have (e.g. a plain store): never enabled *)

let show_var = function
  | VDead -> "-"
  | VNull -> "0"
  | VPtr (o, uc, u, p) -> Printf.sprintf "%d:%d:%d:%d" (int_of_nat o) (int_of_nat uc) (if u then 1 else 0) (int_of_nat p)

let show_obs o =
  String.concat "," (List.map show_var o.ovars) ^ ";" ^
  String.concat "." (List.map (fun d -> string_of_int (int_of_nat d)) o.odestroyed) ^ ";" ^
  String.concat "." (List.map (fun d -> string_of_int (int_of_nat d)) o.oorphaned)

let () =
  let ic = open_in Sys.argv.(1) in
  (try
    while true do
      let line = input_line ic in
      match List.filter (fun s -> s <> "") (split ' ' line) with
      | "seq" :: kinds :: toks ->
        (* one letter per handle variable: M default deleter, C default deleter on const T, N no-operation deleter *)
        let nodel v = let i = int_of_nat v in i < String.length kinds && kinds.[i] = 'N' in
        let ops = List.map seq_op toks in
        let (outs, fin) = run_case nodel (nat_of_int (String.length kinds)) ops in
        let b = Buffer.create 256 in
        let anybad = ref fin.obad in
        List.iter (function
          | Some o -> if o.obad then anybad := true; Buffer.add_string b (show_obs o); Buffer.add_char b ' '
          | None -> Buffer.add_string b "skip ") outs;
        Buffer.add_string b ("F:" ^ show_obs fin);
        Buffer.add_string b (if !anybad then " P=MODEL-LEDGER-BAD" else " P=ok");
        print_endline (Buffer.contents b)
      | "trace" :: caseno :: hs :: rest ->
        let rec evs acc = function
          | [] | ";" :: _ -> List.rev acc
          | tok :: tl when String.length tok > 0 && tok.[0] = 'L' -> evs acc tl   (* plain load: no event of the model *)
          | tok :: tl -> evs (conc_ev tok :: acc) tl in
        let events = evs [] rest in
        let hsl = List.map n (split ',' hs) in
        (match validate hsl events with
         | Inl i -> Printf.printf "trace %s REJECTED@%d\n" caseno (int_of_nat i)
         | Inr (((rc, d), b), q) ->
           Printf.printf "trace %s accepted events=%d rc=%d destroyed=%d bad=%d quiescent=%d\n" caseno (List.length events)
             (int_of_nat rc) (int_of_nat d) (if b then 1 else 0) (if q then 1 else 0))
      | _ -> print_endline "?"
    done
  with End_of_file -> ());
  close_in ic
