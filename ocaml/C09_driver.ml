(* C09 driver.  argv[1] = case file, optional argv[2] = the implementation's output for the same cases.
   Case line:  <P|C><G|U|V><S|N>[:<elem>:<cmp>:<via>[:<store>[:<extra>]]] <sentinel> [o=<i>,<i>,...] [m=<n>,...] <seq> <seq> ...   with <seq> = "-" (empty) or "k,k,k".
   <elem>, <via> and <store> (element size, direct class / switch alias / moved, where the caller keeps the keys) do not
   exist in the model; <cmp> = gt | rk- selects
   the instances with the comparator reversed (coq/C09/Instances.v), lt | rk+ | df the ones with N.ltb.
   V = unguarded class driven outside its key precondition (keys may exceed the sentinel; the caller consults the tree
   only while some current key beats the sentinel): model = run_gN, checker = check_gN.
   Output line: "<model trace>" and, when argv[2] is given, " ; chk=<ok|BAD|PARSE>" = verdict of the
   Coq-extracted trace checker on the implementation's reported sequence of min_source() values. *)
open C09_model

let rec pos_of_int n = if n <= 1 then XH else if n land 1 = 0 then XO (pos_of_int (n lsr 1)) else XI (pos_of_int (n lsr 1))
let n_of_int n = if n <= 0 then N0 else Npos (pos_of_int n)
let rec int_of_pos = function XH -> 1 | XO p -> 2 * int_of_pos p | XI p -> 2 * int_of_pos p + 1
let int_of_n = function N0 -> 0 | Npos p -> int_of_pos p

let inv = int_of_n invalid_
let show_src n = let i = int_of_n n in if i = inv then "-" else string_of_int i
let parse_src s = if s = "-" then invalid_ else n_of_int (int_of_string s)

let parse_seq s = if s = "-" then [] else List.map (fun x -> n_of_int (int_of_string x)) (String.split_on_char ',' s)

let parse_variant s =
  { v_ptr = (s.[0] = 'P'); v_guarded = (s.[1] = 'G'); v_stable = (s.[2] = 'S') }

let () =
  let ic = open_in Sys.argv.(1) in
  let impl = if Array.length Sys.argv > 2 then Some (open_in Sys.argv.(2)) else None in
  (try
    while true do
      let line = input_line ic in
      let il = match impl with
        | Some c -> (try Some (input_line c) with End_of_file -> Some "<missing>")
        | None -> None in
      match List.filter (fun s -> s <> "") (String.split_on_char ' ' line) with
      | head :: sent :: seqs when String.length head >= 3 && (String.length head = 3 || head.[3] = ':') ->
        let parts = String.split_on_char ':' head in
        let vs = List.hd parts in
        let rev = (match parts with _ :: _ :: c :: _ -> c = "gt" || c = "st-" || c = "rk-" | _ -> false) in
        let v = parse_variant vs in
        (* m=... (move points) is a C++-only dimension: the model treats a move as the identity *)
        let seqs = List.filter (fun t -> not (String.length t >= 2 && String.sub t 0 2 = "m=")) seqs in
        let (order, seqs) = (match seqs with
          | o :: rest when String.length o >= 2 && String.sub o 0 2 = "o=" ->
            (List.map (fun x -> n_of_int (int_of_string x)) (String.split_on_char ',' (String.sub o 2 (String.length o - 2))), rest)
          | _ -> (List.mapi (fun i _ -> n_of_int i) seqs, seqs)) in
        let seqs = List.map parse_seq seqs in
        let general = (vs.[1] = 'V' || vs.[1] = 'W') in   (* W: judged by the check script itself, see harness *)
        let sentn = n_of_int (int_of_string sent) in
        (* the model registers the players in the order of the case (BuildOrder.lt_build_order) *)
        let run sq = if general then run_goN rev v sentn order sq else run_oN rev v sentn order sq in
        let chk sq t = if general then (if rev then check_gNgt v sentn sq t else check_gN v sentn sq t)
                       else (if rev then check_Ngt v sq t else check_N v sq t) in
        (* extra bit 8: the tree object is used twice; second use: player i gets the sequence of player i+1 (cyclically).
           The model makes two fresh runs. *)
        let extra = (match parts with [_; _; _; _; _; e] -> (try int_of_string e with _ -> 0) | _ -> 0) in
        let reuse = extra land 8 <> 0 in
        let seqs2 = (match seqs with [] -> [] | h :: t -> t @ [h]) in
        let show tr = String.concat " " (List.map show_src tr) in
        let b = Buffer.create 64 in
        Buffer.add_string b (show (run seqs));
        if reuse then Buffer.add_string b (" | " ^ show (run seqs2));
        (match il with
         | None -> ()
         | Some l ->
           let verdict =
             try
               let parse_tr x = List.map parse_src (List.filter (fun s -> s <> "") (String.split_on_char ' ' x)) in
               (match String.split_on_char '|' l with
                | [t1] when not reuse -> if chk seqs (parse_tr t1) then "ok" else "BAD"
                | [t1; t2] when reuse -> if chk seqs (parse_tr t1) && chk seqs2 (parse_tr t2) then "ok" else "BAD"
                | _ -> "BAD")
             with _ -> "PARSE" in
           Buffer.add_string b (" ; chk=" ^ verdict));
        print_endline (Buffer.contents b)
      | _ -> print_endline "?"
    done
  with End_of_file -> ());
  close_in ic
