(* C19 driver: replays the case file on the extracted Coq model; one output line per case.
   The part of a line after " | " is model-only information (reference / spec values, hypothesis flags). *)
open C19_model

let rec pos_of_int i = if i = 1 then XH else if i land 1 = 0 then XO (pos_of_int (i lsr 1)) else XI (pos_of_int (i lsr 1))
let n_of_int i = if i = 0 then N0 else Npos (pos_of_int i)
let rec int_of_pos = function XH -> 1 | XO p -> 2 * int_of_pos p | XI p -> 2 * int_of_pos p + 1
let int_of_n = function N0 -> 0 | Npos p -> int_of_pos p
let int_of_z = function Z0 -> 0 | Zpos p -> int_of_pos p | Zneg p -> - (int_of_pos p)
let rec nat_of_int n = if n <= 0 then O else S (nat_of_int (n - 1))
let rec int_of_nat = function O -> 0 | S n -> 1 + int_of_nat n

let bytes_of_hex h =
  if h = "-" then [] else begin
    let n = String.length h / 2 in
    List.init n (fun i -> n_of_int (int_of_string ("0x" ^ String.sub h (2 * i) 2)))
  end
let hex_of_bytes l =
  if l = [] then "-" else String.concat "" (List.map (fun b -> Printf.sprintf "%02x" (int_of_n b)) l)
let hex_opt = function None -> "EXC" | Some l -> hex_of_bytes l
let show_list l = Printf.sprintf "%d:%s" (List.length l) (String.concat "," (List.map hex_of_bytes l))
let show_list_opt = function None -> "EXC" | Some l -> show_list l
let b2s b = if b then "1" else "0"
let limit_of s = if s = "npos" then npos else n_of_int (int_of_string s)
let byte_of s = match bytes_of_hex s with [b] -> b | _ -> failwith "byte expected"

let rec take k l = if k = 0 then ([], l) else match l with x :: r -> let (a, b) = take (k - 1) r in (x :: a, b) | [] -> failwith "short"
let parts_of toks = match toks with
  | n :: rest -> let (p, _) = take (int_of_string n) rest in List.map bytes_of_hex p
  | [] -> failwith "parts"

let run toks =
  match toks with
  | ["b64"; s; lb] ->
    let s = bytes_of_hex s in
    let e = base64_encode s (n_of_int (int_of_string lb)) in
    Printf.sprintf "enc=%s decs=%s decn=%s | rfc=%s" (hex_of_bytes e) (hex_opt (base64_decode e true))
      (hex_opt (base64_decode e false)) (hex_of_bytes (rfc4648_base64 s))
  | ["b64d"; s; strict] -> "out=" ^ hex_opt (base64_decode (bytes_of_hex s) (strict = "1"))
  | ["hex"; s] ->
    let s = bytes_of_hex s in
    let u = hexdump s and l = hexdump_lc s in
    Printf.sprintf "uc=%s lc=%s puc=%s plc=%s | rfcuc=%s rfclc=%s" (hex_of_bytes u) (hex_of_bytes l)
      (hex_opt (parse_hexdump u)) (hex_opt (parse_hexdump l))
      (hex_of_bytes (rfc4648_base16 rfc_base16_alphabet s)) (hex_of_bytes (rfc4648_base16 lc_base16_alphabet s))
  | ["phex"; s] -> "out=" ^ hex_opt (parse_hexdump (bytes_of_hex s))
  | ["splc"; sep; s; lim] -> show_list (split_char (byte_of sep) (bytes_of_hex s) (limit_of lim))
  | ["spls"; sep; s; lim] -> show_list (split_str (bytes_of_hex sep) (bytes_of_hex s) (limit_of lim))
  | ["splcm"; sep; s; mn; lim] -> show_list (split_char_min (byte_of sep) (bytes_of_hex s) (n_of_int (int_of_string mn)) (limit_of lim))
  | ["splsm"; sep; s; mn; lim] -> show_list (split_str_min (bytes_of_hex sep) (bytes_of_hex s) (n_of_int (int_of_string mn)) (limit_of lim))
  | "joinc" :: sep :: rest ->
    let parts = parts_of rest in
    let c = byte_of sep in
    let j = join_char c parts in
    Printf.sprintf "j=%s s=%s | clean=%s" (hex_of_bytes j) (show_list (split_char c j npos)) (b2s (cleanb [c] parts))
  | "joins" :: sep :: rest ->
    let parts = parts_of rest in
    let sp = bytes_of_hex sep in
    let j = join sp parts in
    Printf.sprintf "j=%s s=%s | clean=%s" (hex_of_bytes j) (show_list (split_str sp j npos)) (b2s (cleanb sp parts))
  | "jq" :: sep :: q :: e :: rest ->
    let parts = parts_of rest in
    let j = join_quoted parts (byte_of sep) (byte_of q) (byte_of e) in
    Printf.sprintf "j=%s s=%s" (hex_of_bytes j) (show_list_opt (split_quoted j (byte_of sep) (byte_of q) (byte_of e)))
  | ["sq"; sep; q; e; s] -> show_list_opt (split_quoted (bytes_of_hex s) (byte_of sep) (byte_of q) (byte_of e))
  | ["rep1"; s; nd; ins] -> hex_of_bytes (replace_first (bytes_of_hex s) (bytes_of_hex nd) (bytes_of_hex ins))
  | ["repa"; s; nd; ins] -> hex_of_bytes (replace_all (bytes_of_hex s) (bytes_of_hex nd) (bytes_of_hex ins))
  | ["rep1c"; s; a; b] -> hex_of_bytes (replace_first_char (bytes_of_hex s) (byte_of a) (byte_of b))
  | ["repac"; s; a; b] -> hex_of_bytes (replace_all_char (bytes_of_hex s) (byte_of a) (byte_of b))
  | ["trim"; s; d] ->
    let s = bytes_of_hex s and d = bytes_of_hex d in
    let ti = trim_inplace s d and tc = trim_copy s d and l = trim_left s d and r = trim_right s d in
    let ok = ti = trim_spec s d && tc = trim_spec s d && l = trim_left_spec s d && r = trim_right_spec s d in
    Printf.sprintf "ti=%s tc=%s l=%s r=%s%s" (hex_of_bytes ti) (hex_of_bytes tc) (hex_of_bytes l) (hex_of_bytes r)
      (if ok then "" else " | MODEL-DIFFERS-FROM-SPEC")
  | ["sw"; s; m] ->
    let s = bytes_of_hex s and m = bytes_of_hex m in
    Printf.sprintf "sw=%s swi=%s ew=%s ewi=%s c=%s" (b2s (starts_with s m)) (b2s (starts_with_icase s m))
      (b2s (ends_with s m)) (b2s (ends_with_icase s m)) (b2s (contains s m))
  | ["case"; s] -> let s = bytes_of_hex s in Printf.sprintf "lo=%s up=%s" (hex_of_bytes (to_lower s)) (hex_of_bytes (to_upper s))
  | ["cmp"; a; b] ->
    let a = bytes_of_hex a and b = bytes_of_hex b in
    let r = compare_icase a b in
    Printf.sprintf "%d eq=%s lt=%s%s" (int_of_z r) (b2s (equal_icase a b)) (b2s (less_icase a b))
      (if r = strcmp_sign (to_lower a) (to_lower b) then "" else " | MODEL-DIFFERS-FROM-SPEC")
  | ["era"; s; d] ->
    let s = bytes_of_hex s and d = bytes_of_hex d in
    Printf.sprintf "c=%s i=%s" (hex_of_bytes (erase_all s d)) (hex_of_bytes (erase_all_inplace s d))
  | ["pad"; s; len; c] -> hex_of_bytes (pad (bytes_of_hex s) (nat_of_int (int_of_string len)) (byte_of c))
  | ["huge"; n; h; t; m; d; padlen] ->
    (* spec-level case kind: the byte string has n bytes = head, zeros, tail.  The extracted functions take byte lists, so
       they are evaluated on the two END WINDOWS (head followed by zeros / zeros followed by tail, longer than every other
       argument); that the answer for the whole string is the same follows from C19_starts_ends_contains (prefix / suffix
       characterisation) and from the definitions of compare/equal/less_icase, trim_left/right and pad, which consume
       their argument from one end and stop inside the window.  Sizes are added back arithmetically. *)
    let n = int_of_string n and h = bytes_of_hex h and t = bytes_of_hex t and m = bytes_of_hex m and d = bytes_of_hex d in
    let padlen = int_of_string padlen in
    let zeros k = List.init k (fun _ -> N0) in
    let k = List.length m + padlen + 2 in
    let front = h @ zeros k and back = zeros k @ t in
    let front1 = List.tl front in
    let z = int_of_z in
    let tl = trim_left (h @ [N0]) d and tr = trim_right (N0 :: t) d in
    let rl = List.length h + 1 - List.length tl and rr = List.length t + 1 - List.length tr in
    Printf.sprintf "sw=%s swi=%s ew=%s ewi=%s rsw=%s rswi=%s rew=%s rewi=%s cmp=%d eq=%s lt=%s rcmp=%d req=%s rlt=%s scmp=%d,%d seq=%s slt=%s,%s tl=%d:%d tr=0:%d t=%d:%d pad=%s"
      (b2s (starts_with front m)) (b2s (starts_with_icase front m)) (b2s (ends_with back m)) (b2s (ends_with_icase back m))
      (b2s (starts_with m front)) (b2s (starts_with_icase m front)) (b2s (ends_with m back)) (b2s (ends_with_icase m back))
      (z (compare_icase front m)) (b2s (equal_icase front m)) (b2s (less_icase front m))
      (z (compare_icase m front)) (b2s (equal_icase m front)) (b2s (less_icase m front))
      (z (compare_icase front front1)) (z (compare_icase front1 front)) (b2s (equal_icase front front1))
      (b2s (less_icase front front1)) (b2s (less_icase front1 front))
      rl (n - rl) (n - rr) rl (n - rl - rr) (hex_of_bytes (pad front (nat_of_int padlen) (n_of_int 46)))
  | ["lev"; a; b] ->
    let a = bytes_of_hex a and b = bytes_of_hex b in
    let d = levenshtein a b and di = levenshtein_icase a b in
    let ok = List.length a + List.length b > 14 ||
             (d = lev_spec (fun x y -> x = y) a b && di = lev_spec icase_eq a b) in
    Printf.sprintf "d=%d di=%d%s" (int_of_nat d) (int_of_nat di) (if ok then "" else " | MODEL-DIFFERS-FROM-SPEC")
  | _ -> "?"

let () =
  let ic = open_in Sys.argv.(1) in
  (try
    while true do
      let line = input_line ic in
      let toks = List.filter (fun s -> s <> "") (String.split_on_char ' ' line) in
      print_endline (try run toks with e -> "DRIVER-ERROR " ^ Printexc.to_string e)
    done
  with End_of_file -> ());
  close_in ic
