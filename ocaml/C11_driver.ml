(* C11 driver: trace correspondence.  argv[1] = case file, argv[2] = output of harness/C11/sync_harness on it.
   For every case the event trace logged by the REAL code under the scheduler shim is folded through the
   extracted transition system (Sem.lstep / BarMutex.bstep / BarSpin.sstep): every event must be accepted
   (atomic values, notify_one's choice and the returned values are part of the events), and the direct property
   checker (sem_check0 / bar_check0) is evaluated on the same trace.  One output line per case:
     OK final=<v> alldone=<0|1> check=<0|1> events=<k>
     DEADLOCK quiescent=<0|1> final=<v> blocked=<t:idx,..> stranded=<t,..> check=<0|1> events=<k>
     REJECT at=<index> token=<tok> why=<..> check=<0|1>
     SKIP <why>                                                                                         *)
open C11_model

let nat_of_int n = let rec go acc k = if k <= 0 then acc else go (S acc) (k - 1) in go O n
let int_of_nat n = let rec go acc = function O -> acc | S m -> go (acc + 1) m in go 0 n
let split c s = String.split_on_char c s
let words s = List.filter (fun x -> x <> "") (split ' ' s)
exception Bad of string
(* the model's naturals are unary: arguments beyond 10^6 (the overflow family of the check) are judged by the check's own
   big-integer checker, not by the model *)
let n_of s = if String.length s > 6 then raise (Bad "bignum") else nat_of_int (int_of_string s)


let atom a =
  if String.length a >= 2 && a.[0] = 'a' then nat_of_int (int_of_string (String.sub a 1 (String.length a - 1)))
  else raise (Bad "atomic id")


(* a shim token -> (model thread, op) ; None = thread-management token of the main thread *)
let parse_token tok : (nat * op) option =
  match split ':' tok with
  | tid :: rest ->
    let t = int_of_string tid in
    if t = 0 then (match rest with
      | ["SP"; _] | ["J"; _] -> None
      | _ -> raise (Bad "main thread event"))
    else begin
      let mt = nat_of_int (t - 1) in
      let o = match rest with
        | ["L"; "m0"] -> OLock
        | ["U"; "m0"] -> OUnlock
        | ["WB"; "c0"; "m0"] -> OWaitB
        | ["WE"; "c0"; "m0"] -> OWaitE false
        | ["WE"; "c0"; "m0"; "spurious"] -> OWaitE true
        | ["N1"; "c0"; "-"] -> ONotifyOne None
        | ["N1"; "c0"; w] -> let w = int_of_string w in
            if w < 1 then raise (Bad "woken id") else ONotifyOne (Some (nat_of_int (w - 1)))
        | ["NA"; "c0"] -> ONotifyAll
        | ["AL"; a; v] -> OLoad (atom a, n_of v)
        | ["AS"; a; v] -> OStore (atom a, n_of v)
        | ["AR"; a; o; n] -> ORmw (atom a, n_of o, n_of n)
        | ["Y"] -> OYield
        | ["US"; "ret"; _; v] -> ORet (n_of v)
        | ["US"; "in"; g; _] -> OIn (n_of g)
        | ["US"; "out"; g; _] -> OOut (n_of g)
        | ["US"; "act"; g; _] -> OAct (n_of g)
        | ["END"] -> OEnd
        | _ -> raise (Bad "unknown token") in
      Some (mt, o)
    end
  | _ -> raise (Bad "malformed token")
let parse_call tok =
  match split ',' tok with
  | ["S"] -> CSignal
  | ["SN"; n] -> CSignalN (n_of n)
  | ["W"; d; s] -> CWait (n_of d, n_of s)
  | ["T"; d; s] -> CTry (n_of d, n_of s)
  (* default arguments of the C++ signatures: wait(size_t delta = 1, size_t slack = 0), try_acquire likewise *)
  | ["W1"; d] -> CWait (n_of d, O)
  | ["W0"] -> CWait (S O, O)
  | ["T1"; d] -> CTry (n_of d, O)
  | ["T0"] -> CTry (S O, O)
  | _ -> raise (Bad ("call " ^ tok))

(* split the words after the header at "|" *)
let blocks ws =
  let rec go cur acc = function
    | [] -> List.rev (List.rev cur :: acc)
    | "|" :: r -> go [] (List.rev cur :: acc) r
    | w :: r -> go (w :: cur) acc r in
  match go [] [] ws with _ :: bs -> bs | [] -> []

(* key=value tokens of the case header (before the first "|") *)
let header_opt ws key =
  let rec go = function
    | [] | "|" :: _ -> None
    | w :: r ->
      let k = key ^ "=" in
      let lk = String.length k in
      if String.length w >= lk && String.sub w 0 lk = k then Some (String.sub w lk (String.length w - lk)) else go r in
  go ws

type 'a folded = Accepted of 'a * int | Rejected of int * string * string

(* returns the verdict of the fold and ALL component events of the trace (also those after a rejection, so that
   the direct property checker can still be evaluated on the complete real trace) *)
let fold_trace ?(obs = fun _ _ _ -> false) step s0 toks =
  (* tid:US:val:k:v = the racing observer Semaphore::value(): not an event of the transition system; the value read is
     checked against the model state at that point by [obs] *)
  let observation tok = match split ':' tok with
    | [tid; "US"; "val"; _; v] -> (try Some (int_of_string tid - 1, int_of_string v) with Failure _ -> None)
    | _ -> None in
  let parsed = List.map (fun tok -> (tok, (match observation tok with
      | Some _ -> Ok None
      | None -> (try Ok (parse_token tok) with Bad w -> Error w | Failure w -> Error w)))) toks in
  let evs = List.concat_map (fun (_, p) -> match p with Ok (Some e) -> [e] | _ -> []) parsed in
  let rec go s i = function
    | [] -> Accepted (s, i)
    | (tok, Error w) :: _ -> Rejected (i, tok, w)
    | (tok, Ok None) :: r when observation tok <> None ->
      (match observation tok with
       | Some (t, v) when obs s t v -> go s (i + 1) r
       | _ -> Rejected (i, tok, "value()_observer_read_a_value_the_model_excludes"))
    | (_, Ok None) :: r -> go s (i + 1) r
    | (tok, Ok (Some e)) :: r ->
      (match step s e with
       | Some s' -> go s' (i + 1) r
       | None -> Rejected (i, tok, "event_not_enabled_in_the_model")) in
  (go s0 0 parsed, evs)

let ints l = String.concat "," (List.map string_of_int l)
let b2i b = if b then 1 else 0
let range n = List.init n (fun i -> i)

(* harness line: OK final=.. TRACE toks | DEADLOCK why=.. STATE .. CHOICES .. TRACE toks *)
let trace_of hw =
  let rec go = function [] -> [] | "TRACE" :: r -> r | _ :: r -> go r in go hw

(* what a racing value() must read: all other threads are parked immediately before their next shim call, so the owner
   of the mutex (if it has just locked or re-locked) has already executed its non-atomic update of value_ *)
let sem_obs (s : state) _t v =
  let base = int_of_nat s.value in
  let expect = match s.owner with
    | Some u ->
      let th = s.thr u in
      (match th.pc, th.prog with
       | Locked, CSignal :: _ -> base + 1
       | Locked, CSignalN n :: _ -> base + int_of_nat n
       | Locked, (CWait (d, sl) | CTry (d, sl)) :: _ ->
         let d = int_of_nat d and sl = int_of_nat sl in if d + sl <= base then base - d else base
       | _ -> base)
    | None -> base in
  v = expect

let handle case_line harness_line =
  let cw = words case_line and hw = words harness_line in
  let deadlock = (match hw with "DEADLOCK" :: _ -> true | _ -> false) in
  (match hw with
   | ("OK" | "DEADLOCK") :: _ -> ()
   | _ -> raise (Bad "harness line is neither OK nor DEADLOCK"));
  let toks = trace_of hw in
  match cw with
  | "sem" :: initial :: _strategy :: spur :: _seed :: rest ->
    let progs = List.map (fun b -> List.map parse_call (List.filter (fun c -> c <> "V") b)) (blocks rest) in
    let n = List.length progs in
    let spur = spur <> "0" in
    let s0 = init (n_of initial) progs in
    let (res, evs) = fold_trace ~obs:sem_obs (lstep false spur) s0 toks in
    (match res with
     | Rejected (i, tok, w) -> Printf.sprintf "REJECT at=%d token=%s why=%s check=%d" i tok w (b2i (sem_check0 (n_of initial) progs evs))
     | Accepted (s, k) ->
       let chk = sem_check0 (n_of initial) progs evs in
       let fin = int_of_nat (value s) in
       if deadlock then begin
         let blocked = List.filter (fun t -> asleepb s (nat_of_int t)) (range n) in
         let bl = String.concat "," (List.map (fun t ->
             let total = List.length (List.nth progs t) in
             Printf.sprintf "%d:%d" (t + 1) (total - int_of_nat (remaining s (nat_of_int t)))) blocked) in
         Printf.sprintf "DEADLOCK quiescent=%d final=%d blocked=%s stranded=%s check=%d events=%d"
           (b2i (quiescentb spur (nat_of_int n) s)) fin bl
           (ints (List.map (fun t -> int_of_nat t + 1) (stranded_list (nat_of_int n) s))) (b2i chk) k
       end else
         Printf.sprintf "OK final=%d alldone=%d check=%d events=%d" fin
           (b2i (List.for_all (fun t -> doneb s (nat_of_int t)) (range n))) (b2i chk) k)
  | ("bm" | "bs" as kind) :: yield :: _strategy :: spur :: seed :: rest ->
    let silbits = (match header_opt rest "sil" with Some b -> b | None -> "") in
    let sil g = let g = int_of_nat g in g < String.length silbits && silbits.[g] = '1' in
    let ymode = int_of_string yield and seed = int_of_string seed in
    let yfun t g = ymode = 1 || (ymode = 2 && (int_of_nat t + int_of_nat g + seed) mod 2 = 1) in
    let gens = (match blocks rest with [g] -> List.map int_of_string g | _ -> raise (Bad "gens")) in
    let n = List.length gens in
    let spur = spur <> "0" in
    let ngens = List.map nat_of_int gens in
    if kind = "bm" then begin
      let s0 = binit (nat_of_int n) sil ngens in
      let (res, evs) = fold_trace (bstep spur) s0 toks in
      match res with
      | Rejected (i, tok, w) -> Printf.sprintf "REJECT at=%d token=%s why=%s check=%d" i tok w (b2i (bar_check0 false (nat_of_int n) sil evs))
      | Accepted (s, k) ->
        let chk = bar_check0 false (nat_of_int n) sil evs in
        let fin = int_of_nat (stp s) in
        if deadlock then
          let blocked = List.filter (fun t -> bsleepb s (nat_of_int t)) (range n) in
          Printf.sprintf "DEADLOCK quiescent=%d final=%d blocked=%s stranded= check=%d events=%d"
            (b2i (bquiescentb spur (nat_of_int n) s)) fin
            (String.concat "," (List.map (fun t -> Printf.sprintf "%d:%d" (t + 1) (int_of_nat (bgen s (nat_of_int t)))) blocked))
            (b2i chk) k
        else
          Printf.sprintf "OK final=%d alldone=%d check=%d events=%d" fin
            (b2i (List.for_all (fun t -> bdoneb s (nat_of_int t) && int_of_nat (bgen s (nat_of_int t)) = List.nth gens t) (range n)))
            (b2i chk) k
    end else begin
      let s0 = sinit (nat_of_int n) yfun sil ngens in
      let (res, evs) = fold_trace sstep s0 toks in
      match res with
      | Rejected (i, tok, w) -> Printf.sprintf "REJECT at=%d token=%s why=%s check=%d" i tok w (b2i (bar_check0 true (nat_of_int n) sil evs))
      | Accepted (s, k) ->
        let chk = bar_check0 true (nat_of_int n) sil evs in
        let fin = int_of_nat (sstp s) in
        if deadlock then
          let blocked = List.filter (fun t -> sspinb s (nat_of_int t)) (range n) in
          Printf.sprintf "DEADLOCK quiescent=0 final=%d blocked=%s stranded= check=%d events=%d" fin
            (String.concat "," (List.map (fun t -> Printf.sprintf "%d:%d" (t + 1) (int_of_nat (sgenof s (nat_of_int t)))) blocked))
            (b2i chk) k
        else
          Printf.sprintf "OK final=%d alldone=%d check=%d events=%d" fin
            (b2i (List.for_all (fun t -> sdoneb s (nat_of_int t) && int_of_nat (sgenof s (nat_of_int t)) = List.nth gens t) (range n)))
            (b2i chk) k
    end
  | _ -> raise (Bad "case line")

let read_lines f =
  let ic = open_in f in
  let rec go acc = match input_line ic with
    | l -> go (if String.trim l = "" then acc else l :: acc)
    | exception End_of_file -> close_in ic; List.rev acc in
  go []

let () =
  let cases = read_lines Sys.argv.(1) and outs = Array.of_list (read_lines Sys.argv.(2)) in
  List.iteri (fun i c ->
      if i >= Array.length outs then print_endline "SKIP no harness output"
      else
        print_endline (try handle c outs.(i) with
            | Bad w -> "SKIP " ^ w
            | Failure w -> "SKIP failure " ^ w
            | Not_found -> "SKIP not_found")) cases
