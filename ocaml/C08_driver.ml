(* C08 driver: runs the extracted Coq model of multisequence_partition / multisequence_selection on a case file
   and prints one line per tuple of sequences in exactly the format of harness/C08/msp_harness.cpp:
       <cmp> <seq>|<seq>|... => <rank>:<off_0>,<off_1>,...:<value>:<offset> ...
   Every model answer is also compared with the extracted specification (split_spec / select_spec) and run
   through the extracted checkers; a disagreement appends " MODEL-DIFFERS-FROM-SPEC".
   With "--judge" the file contains *implementation* output lines: each rank entry is decided by the extracted
   checkers check_split / check_select alone (the verdict on the implementation's observable result). *)
open C08_model

let rec pos_of_int n = if n = 1 then XH else if n land 1 = 1 then XI (pos_of_int (n lsr 1)) else XO (pos_of_int (n lsr 1))
let z_of_int n = if n = 0 then Z0 else if n > 0 then Zpos (pos_of_int n) else Zneg (pos_of_int (-n))
let rec int_of_pos = function XH -> 1 | XO p -> 2 * int_of_pos p | XI p -> 2 * int_of_pos p + 1
let int_of_z = function Z0 -> 0 | Zpos p -> int_of_pos p | Zneg p -> - (int_of_pos p)
let rec nat_of_int n = if n <= 0 then O else S (nat_of_int (n - 1))
let rec int_of_nat = function O -> 0 | S n -> 1 + int_of_nat n

(* 64-bit values for the `pad` lines *)
let rec pos_of_int64 (n : int64) = if n = 1L then XH else if Int64.logand n 1L = 1L then XI (pos_of_int64 (Int64.shift_right_logical n 1)) else XO (pos_of_int64 (Int64.shift_right_logical n 1))
let z_of_int64 n = if n = 0L then Z0 else if n > 0L then Zpos (pos_of_int64 n) else Zneg (pos_of_int64 (Int64.neg n))
let rec int64_of_pos = function XH -> 1L | XO p -> Int64.mul 2L (int64_of_pos p) | XI p -> Int64.add (Int64.mul 2L (int64_of_pos p)) 1L
let int64_of_z = function Z0 -> 0L | Zpos p -> int64_of_pos p | Zneg p -> Int64.neg (int64_of_pos p)

(* the model's padded length  l = rup2 (x + 1) - 1  (MSP.core), shown for every overload in whose range it lies *)
let run_pad (x : int64) =
  let l = Int64.to_string (int64_of_z (Z.sub (rup2 (Z.add (z_of_int64 x) (z_of_int 1))) (z_of_int 1))) in
  let x1 = Int64.add x 1L in
  let sh k = Int64.shift_left 1L k in
  let f name ok = " " ^ name ^ ":" ^ (if ok then l else "-") in
  print_endline ("pad " ^ Int64.to_string x ^ " =>" ^ f "int" (x1 <= sh 30) ^ f "uint" (x1 <= sh 31) ^ f "long" (x1 <= sh 62)
                 ^ f "ulong" true ^ f "llong" (x1 <= sh 62) ^ f "ullong" true)

let four = z_of_int 4
let ltb_of = function
  | "L" -> (fun x y -> Z.ltb x y)
  | "G" -> (fun x y -> Z.ltb y x)
  | _ -> (fun x y -> Z.ltb (Z.div x four) (Z.div y four))
let show_val c v = if c = "Q" then (int_of_z v) / 4 else int_of_z v
let unshow_val c v = if c = "Q" then z_of_int (v * 4) else z_of_int v

let parse_seq s = List.map int_of_string (List.filter (fun x -> x <> "") (String.split_on_char ',' s))
let parse_seqs s = if s = "-" then [] else List.map parse_seq (String.split_on_char '|' s)   (* "-" = no sequence (m = 0) *)
let show_seqs seqs = if seqs = [] then "-" else String.concat "|" (List.map (fun s -> String.concat "," (List.map string_of_int s)) seqs)

let bad = ref 0
(* coverage statistics (printed as a final "#STATS" line): rank entries evaluated, and how many of them belong to a
   tuple not seen before in this run and are non-trivial: m >= 2, 0 < rank < N and some element left of the split
   is equivalent to some element right of it (the case in which the tie rule decides the answer) *)
let n_entries = ref 0
let n_nontrivial = ref 0
let n_ties_dup = ref 0
let seen : (string, unit) Hashtbl.t = Hashtbl.create 100000
let cur_is_new = ref true
let key_of c x = if c = "Q" then x / 4 else x
let tie_across c (seqs : int array array) (offs : int list) =
  let offs = Array.of_list offs in
  let m = Array.length seqs in
  let r = ref false in
  if Array.length offs = m then
    for i = 0 to m - 1 do
      if offs.(i) > 0 && offs.(i) <= Array.length seqs.(i) then
        for j = 0 to m - 1 do
          if offs.(j) >= 0 && offs.(j) < Array.length seqs.(j) &&
             key_of c seqs.(i).(offs.(i) - 1) = key_of c seqs.(j).(offs.(j)) then r := true
        done
    done;
  !r

(* one rank on the model; returns the text of the entry *)
let run_rank c ltb (aseqs : int array array) (zseqs : z list list) (rank : int) : string =
  let b = Buffer.create 64 in
  incr n_entries;
  Buffer.add_string b (Printf.sprintf " %d:" rank);
  let zr = z_of_int rank and nr = nat_of_int rank in
  let differs = ref false in
  (match partition ltb zseqs zr with
   | None -> Buffer.add_string b "UB"; differs := true
   | Some offs ->
     Buffer.add_string b (String.concat "," (List.map (fun o -> string_of_int (int_of_z o)) offs));
     let cs = List.map (fun o -> nat_of_int (int_of_z o)) offs in
     let ntot = Array.fold_left (fun a s -> a + Array.length s) 0 aseqs in
     if Array.length aseqs >= 2 && rank > 0 && rank < ntot && tie_across c aseqs (List.map int_of_z offs) then
       (if !cur_is_new then incr n_nontrivial else incr n_ties_dup);
     if List.exists (fun o -> int_of_z o < 0) offs then differs := true;
     if cs <> split_spec ltb zseqs nr then differs := true;
     if not (check_split ltb zseqs nr cs) then differs := true);
  (match selection ltb zseqs zr with
   | SelThrow ->
     Buffer.add_string b ":throw";
     (match select_spec ltb zseqs nr with None -> () | Some _ -> differs := true)
   | SelUB -> Buffer.add_string b ":UB"; differs := true
   | SelOk (v, off) ->
     Buffer.add_string b (Printf.sprintf ":%d:%d" (show_val c v) (int_of_z off));
     if int_of_z off < 0 then differs := true;
     let noff = nat_of_int (int_of_z off) in
     if not (check_select ltb zseqs nr v noff) then differs := true;
     (match select_spec ltb zseqs nr with
      | None -> differs := true
      | Some (sv, soff) -> if ltb v sv || ltb sv v || soff <> noff then differs := true));
  if !differs then (incr bad; Buffer.add_string b "!MODEL-DIFFERS-FROM-SPEC");
  Buffer.contents b

let run_tuple c (seqs : int list list) (only_rank : int) =
  let ltb = ltb_of c in
  let zseqs = List.map (List.map z_of_int) seqs in
  let n = List.fold_left (fun a s -> a + List.length s) 0 seqs in
  let aseqs = Array.of_list (List.map Array.of_list seqs) in
  let b = Buffer.create 256 in
  Buffer.add_string b c; Buffer.add_char b ' '; Buffer.add_string b (show_seqs seqs); Buffer.add_string b " =>";
  let key = Buffer.contents b ^ string_of_int only_rank in
  cur_is_new := not (Hashtbl.mem seen key || Hashtbl.mem seen (Buffer.contents b ^ "-1"));
  if !cur_is_new then Hashtbl.add seen key ();
  if only_rank >= 0 then Buffer.add_string b (run_rank c ltb aseqs zseqs only_rank)
  else for r = 0 to n do Buffer.add_string b (run_rank c ltb aseqs zseqs r) done;
  print_endline (Buffer.contents b)

(* `sel` line: multisequence_selection only (no data, or rank outside [0, N)): model + specification *)
let run_sel c (seqs : int list list) (rank : int) =
  let ltb = ltb_of c in
  let zseqs = List.map (List.map z_of_int) seqs in
  let n = List.fold_left (fun a s -> a + List.length s) 0 seqs in
  incr n_entries;
  let differs = ref false in
  let txt = match selection ltb zseqs (z_of_int rank) with
    | SelThrow -> if rank >= 0 && rank < n then differs := true; "throw"
    | SelUB -> differs := true; "UB"
    | SelOk (v, off) ->
      if rank < 0 || rank >= n || not (check_select ltb zseqs (nat_of_int rank) v (nat_of_int (int_of_z off))) then differs := true;
      Printf.sprintf "%d:%d" (show_val c v) (int_of_z off) in
  if !differs then incr bad;
  print_endline (Printf.sprintf "S%s %s => %d:%s%s" c (show_seqs seqs) rank txt (if !differs then "!MODEL-DIFFERS-FROM-SPEC" else ""))

(* all non-decreasing sequences over 0..keys-1 of a given length, lexicographically *)
let rec gen_sorted len keys from : int list list =
  if len = 0 then [[]]
  else List.concat (List.init (max 0 (keys - from)) (fun d ->
         let k = from + d in List.map (fun t -> k :: t) (gen_sorted (len - 1) keys k)))

let run_exh ?(part = 0) ?(nparts = 1) c m lo hi keys =
  let pool = List.concat (List.init (hi - lo + 1) (fun d -> gen_sorted (lo + d) keys 0)) in
  let pool = if c = "G" then List.map List.rev pool
    else if c = "Q" then List.map (fun s -> let sz = List.length s in List.mapi (fun k x -> x * 4 + ((k * 7 + sz) mod 4)) s) pool
    else pool in
  let pool = Array.of_list pool in
  let np = Array.length pool in
  let idx = Array.make m 0 in
  let continue = ref true in
  while !continue do
    if idx.(0) mod nparts = part then run_tuple c (Array.to_list (Array.map (fun i -> pool.(i)) idx)) (-1);
    let k = ref (m - 1) in
    let carry = ref true in
    while !carry && !k >= 0 do
      idx.(!k) <- idx.(!k) + 1;
      if idx.(!k) = np then (idx.(!k) <- 0; decr k) else carry := false
    done;
    if !carry then continue := false
  done

(* judge one implementation output line *)
let judge line =
  match String.split_on_char ' ' line with
  | c :: s :: "=>" :: entries when String.length c = 2 && c.[0] = 'S' ->
    (* selection-only line: must throw exactly outside [0, N) / without data, else pass check_select *)
    let c = String.sub c 1 1 in
    let ltb = ltb_of c in
    let seqs = parse_seqs s in
    let zseqs = List.map (List.map z_of_int) seqs in
    let n = List.fold_left (fun a s -> a + List.length s) 0 seqs in
    let verdicts = List.filter_map (fun e ->
      if e = "" || e.[0] = '#' then None else
      if String.contains e '!' then Some (Printf.sprintf "rank=%s:input-sequences-modified" (List.hd (String.split_on_char ':' e))) else
      (try match String.split_on_char ':' e with
        | [r; "throw"] -> let rank = int_of_string r in if rank >= 0 && rank < n then Some ("rank=" ^ r ^ ":selection") else None
        | [r; v; off] ->
          let rank = int_of_string r and off = int_of_string off in
          if rank < 0 || rank >= n || off < 0 ||
             not (check_select ltb zseqs (nat_of_int rank) (unshow_val c (int_of_string v)) (nat_of_int off))
          then Some ("rank=" ^ r ^ ":selection") else None
        | _ -> Some ("unparsable:" ^ e)
      with _ -> Some ("unparsable:" ^ e))) entries in
    if verdicts = [] then print_endline "ok" else print_endline ("bad " ^ String.concat " " verdicts)
  | c :: s :: "=>" :: entries ->
    let ltb = ltb_of c in
    let seqs = parse_seqs s in
    let zseqs = List.map (List.map z_of_int) seqs in
    let n = List.fold_left (fun a s -> a + List.length s) 0 seqs in
    let verdicts = List.filter_map (fun e ->
      if e = "" || e.[0] = '#' then None else      (* "#v=<variant>" tokens name the template variant that disagreed *)
      if String.contains e '!' then               (* "!INPUT-MODIFIED": a call changed the caller's sequences *)
        Some (Printf.sprintf "rank=%s:input-sequences-modified" (List.hd (String.split_on_char ':' e))) else
      match String.split_on_char ':' e with
      | r :: offs :: rest ->
        (try
          let rank = int_of_string r in
          let offs = List.map int_of_string (List.filter (fun x -> x <> "") (String.split_on_char ',' offs)) in
          let pbad = List.exists (fun o -> o < 0) offs ||
                     not (check_split ltb zseqs (nat_of_int rank) (List.map nat_of_int offs)) in
          let sbad = match rest with
            | ["throw"] -> rank < n            (* must throw exactly when the rank is outside [0, N) *)
            | [v; off] ->
              let off = int_of_string off in
              off < 0 || rank >= n ||
              not (check_select ltb zseqs (nat_of_int rank) (unshow_val c (int_of_string v)) (nat_of_int off))
            | _ -> true in
          if pbad || sbad then Some (Printf.sprintf "rank=%d:%s%s" rank (if pbad then "partition" else "") (if sbad then "selection" else ""))
          else None
        with _ -> Some ("unparsable:" ^ e))
      | _ -> Some ("unparsable:" ^ e)) entries in
    if verdicts = [] then print_endline "ok" else print_endline ("bad " ^ String.concat " " verdicts)
  | _ -> print_endline "bad unparsable-line"

let () =
  let jmode = Array.length Sys.argv > 2 && Sys.argv.(2) = "--judge" in
  let ic = open_in Sys.argv.(1) in
  (try
    while true do
      let line = input_line ic in
      if jmode then judge line else
      match List.filter (fun s -> s <> "") (String.split_on_char ' ' line) with
      | ["one"; c; r; s] -> run_tuple c (parse_seqs s) (int_of_string r)
      | ["all"; c; s] -> run_tuple c (parse_seqs s) (-1)
      | ["rot"; c; s] -> run_tuple c (parse_seqs s) (-1)
      | ["pad"; x] -> run_pad (Int64.of_string x)
      | ["sel"; c; r; s] -> run_sel c (parse_seqs s) (int_of_string r)
      | ["sel"; c; r] -> run_sel c [[]] (int_of_string r)
      | ["narrow"; c; _; r; s] -> run_tuple c (parse_seqs s) (int_of_string r)   (* RankType is not part of the model *)
      | ["exh"; c; m; lo; hi; keys; part; nparts] ->
        run_exh ~part:(int_of_string part) ~nparts:(int_of_string nparts) c (int_of_string m) (int_of_string lo) (int_of_string hi) (int_of_string keys)
      | ["exh"; c; m; lo; hi; keys] -> run_exh c (int_of_string m) (int_of_string lo) (int_of_string hi) (int_of_string keys)
      | [] -> ()
      | _ -> print_endline "?"
    done
  with End_of_file -> ());
  close_in ic;
  if not jmode then
    print_endline (Printf.sprintf "#STATS entries=%d nontrivial_distinct=%d nontrivial_in_repeated_tuples=%d model_spec_disagreements=%d"
                     !n_entries !n_nontrivial !n_ties_dup !bad);
  if !bad > 0 then prerr_endline (Printf.sprintf "model/spec disagreements: %d" !bad)
