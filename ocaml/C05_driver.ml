(* C05 driver: runs the extracted model of multiway_merge_base on every case of the case file, once with C09's
   loser-tree model (copy classes for element types I/T, pointer classes for B) - this is the line printed - and once
   with the reference tournament (flag REF-DIFFERS when the two disagree on what the property fixes); one output line per case, same format as harness/C05/mwm_harness.cpp.
   case:  <etype I|T|B> <stable 0|1> <sentinels 0|1> <alg 0..3> <len> <k> <seq_0> ... <seq_k-1> [<sentinel_0> ... <sentinel_k-1>]
          seq_i = "_" (empty) or comma separated keys. *)
open C05_model

let rec nat_of_int n = if n <= 0 then O else S (nat_of_int (n - 1))
let rec int_of_nat = function O -> 0 | S n -> 1 + int_of_nat n

let alg_of = function
  | 0 -> MWMA_LOSER_TREE | 1 -> MWMA_LOSER_TREE_COMBINED | 2 -> MWMA_LOSER_TREE_SENTINEL | _ -> MWMA_BUBBLE

let ltb (a, _, _) (b, _, _) = a < b

let parse_seq i tok =
  if tok = "_" then []
  else List.mapi (fun p s -> (int_of_string s, i, p)) (String.split_on_char ',' tok)

let show_elem etype (k, s, p) =
  if etype = "I" then string_of_int k else Printf.sprintf "%d:%d:%d" k s p

let () =
  let ic = open_in Sys.argv.(1) in
  (try
     while true do
       let line = input_line ic in
       match List.filter (fun s -> s <> "") (String.split_on_char ' ' line) with
       | etype :: stable :: sent :: alg :: len :: k :: rest ->
         let stable = stable = "1" and sent = sent = "1" in
         let k = int_of_string k and len = int_of_string len in
         let rec take n l = if n = 0 then ([], l) else match l with x :: r -> let (a, b) = take (n - 1) r in (x :: a, b) | [] -> failwith "short case" in
         let (seqtoks, rest) = take k rest in
         let seqs = List.mapi parse_seq seqtoks in
         let sents = if sent then List.mapi (fun i s -> (int_of_string s, i, -1)) (fst (take k rest)) else [] in
         let a = alg_of (int_of_string alg) and n = nat_of_int len in
         let reference = ref_mwm ltb stable sent a seqs sents n in
         (match c9_obs ltb (0, -7, -7) (etype = "B" || etype = "M" || etype = "S") stable sent a seqs sents n with
          | None -> print_endline "MODEL-ERROR"
          | Some ((out, ret), cur) ->
            let b = Buffer.create 256 in
            Buffer.add_string b "out=";
            Buffer.add_string b (String.concat "," (List.map (show_elem etype) out));
            Buffer.add_string b (Printf.sprintf " ret=%d cur=" (int_of_nat ret));
            Buffer.add_string b (String.concat "," (List.map (fun c -> string_of_int (int_of_nat c)) cur));
            (* self-check of the model against the specification (stable variants and k <= 4, which are always stable) *)
            if stable || k <= 4 then begin
              let (spec, _) = msteps ltb (nat_of_int len) seqs in
              if spec <> out then Buffer.add_string b " MODEL-DIFFERS-FROM-SPEC"
            end;
            (match reference with
             | None -> Buffer.add_string b " MODEL-REF-ERROR"
             | Some ((rout, rret), rcur) ->
               let keys l = List.map (fun (k, _, _) -> k) l in
               if (stable && (rout <> out || rcur <> cur)) || keys rout <> keys out || rret <> ret
               then Buffer.add_string b " MODEL-REF-DIFFERS");
            print_endline (Buffer.contents b))
       | [] -> ()
       | _ -> print_endline "?"
     done
   with End_of_file -> ());
  close_in ic
