(* C17 driver: replays the case file on the extracted Coq models (Lru.lrun, Splay.srun); one line per case,
   same canonical text (and, for exh lines, the same rolling hash) as harness/C17/c17_harness.cpp. *)
open C17_model

let rec nat_of_int n = if n <= 0 then O else S (nat_of_int (n - 1))
let rec int_of_nat = function O -> 0 | S n -> 1 + int_of_nat n
let split c s = String.split_on_char c s
let n s = nat_of_int (int_of_string s)

let lru_op ismap tok =
  match split ',' tok with
  | ["P"; k; v] -> LPut (n k, if ismap then n v else O)
  | ["P"; k] -> LPut (n k, O)
  | ["T"; k] -> LTouch (n k)
  | ["TI"; k] -> LTouchIf (n k)
  | ["G"; k] -> LGet (n k)
  | ["GT"; k] -> LGetTouch (n k)
  | ["E"; k] -> LErase (n k)
  | ["EI"; k] -> LEraseIf (n k)
  | ["X"; k] -> LExists (n k)
  | ["S"] -> LSize
  | ["O"] -> LPop
  | ["C"] -> LClear
  | _ -> failwith ("bad lru op " ^ tok)

let splay_op tok =
  match split ',' tok with
  | ["I"; k] -> SInsert (n k)
  | ["E"; k] -> SErase (n k)
  | ["X"; k] -> SExists (n k)
  | ["F"; k] -> SFind (n k)
  | ["C"] -> SClear
  | ["T"] -> STraverse
  | _ -> failwith ("bad splay op " ^ tok)

(* sink: text buffer + rolling hash over the same integer stream as the C++ Sink *)
type sink = { text : bool; b : Buffer.t; mutable h : int }
let mask = (1 lsl 62) - 1
let num sk x = sk.h <- (sk.h * 1000003 + (x + 7)) land mask
let res sk c a bb =
  if sk.text then begin
    Buffer.add_char sk.b c;
    if a >= 0 then Buffer.add_string sk.b (string_of_int a);
    if bb >= 0 then (Buffer.add_char sk.b ':'; Buffer.add_string sk.b (string_of_int bb))
  end;
  num sk (Char.code c); num sk a; num sk bb
let sep sk c = if sk.text then Buffer.add_char sk.b c; num sk (Char.code c)
let key sk k first = if sk.text then (if not first then Buffer.add_char sk.b '.'; Buffer.add_string sk.b (string_of_int k)); num sk k
let kv sk k v first =
  if sk.text then (if not first then Buffer.add_char sk.b ','; Buffer.add_string sk.b (string_of_int k ^ ":" ^ string_of_int v));
  num sk k; num sk v
let word sk w = if sk.text then Buffer.add_string sk.b w; String.iter (fun c -> num sk (Char.code c)) w
let new_sink text = { text; b = Buffer.create 64; h = 0 }

(* returns (valid, note) *)
let run_lru ops sk =
  let valid = lvalid [] ops in
  let (s, outs) = lrun lru_init ops in
  let (_, souts) = lref_run [] ops in
  List.iteri (fun i (r, _) ->
    if i > 0 then sep sk ' ';
    match r with
    | RUnit -> res sk 'u' (-1) (-1)
    | RErr -> res sk '!' (-1) (-1)
    | RBool b -> res sk 'b' (if b then 1 else 0) (-1)
    | RVal v -> res sk 'v' (int_of_nat v) (-1)
    | RSize z -> res sk 's' (int_of_nat z) (-1)
    | RPop (k, v) -> res sk 'p' (int_of_nat k) (int_of_nat v)
    | RPre -> res sk '?' (-1) (-1)) outs;
  sep sk '|';
  List.iteri (fun i (k, v) -> kv sk (int_of_nat k) (int_of_nat v) (i = 0)) (List.rev s.lst);
  sep sk '|';
  word sk (if s.bad then "MODELBAD" else "ok");
  (valid, (if valid && outs <> souts then " MODEL-DIFFERS-FROM-SPEC" else ""))

let run_splay dup ops sk =
  let (s, outs) = srun dup st_init ops in
  let (_, routs) = rrun dup [] ops in
  List.iteri (fun i ((r, z), ks) ->
    if i > 0 then sep sk ' ';
    (match r with
     | SBool b -> res sk 'b' (if b then 1 else 0) (-1)
     | SFound None -> res sk 'f' (-1) (-1); sep sk '-'
     | SFound (Some k) -> res sk 'f' (int_of_nat k) (-1)
     | SUnit -> res sk 'u' (-1) (-1)
     | SKeys _ -> res sk 't' (-1) (-1));
    sep sk '/'; num sk (int_of_nat z); if sk.text then Buffer.add_string sk.b (string_of_int (int_of_nat z));
    sep sk '/';
    List.iteri (fun j k -> key sk (int_of_nat k) (j = 0)) ks) outs;
  sep sk '|';
  word sk (if ledger_ok (destroy s) then "ok" else "bad");
  (true, (if abs_out ops outs <> routs then " MODEL-DIFFERS-FROM-SPEC" else ""))

let run_kind kind toks sk =
  match kind with
  | "lrumap" -> run_lru (List.map (lru_op true) toks) sk
  | "lruset" -> run_lru (List.map (lru_op false) toks) sk
  | "splayset" -> run_splay false (List.map splay_op toks) sk
  | "splaymulti" -> run_splay true (List.map splay_op toks) sk
  | _ -> word sk "?"; (true, "")

let alphabet kind nk =
  let ks = List.init nk string_of_int in
  let with_keys nm = List.map (fun k -> nm ^ "," ^ k) ks in
  match kind with
  | "lrumap" ->
    List.concat_map (fun k -> ["P," ^ k ^ ",1"; "P," ^ k ^ ",2"]) ks
    @ List.concat_map with_keys ["T"; "TI"; "G"; "GT"; "E"; "EI"; "X"] @ ["S"; "O"; "C"]
  | "lruset" -> List.concat_map with_keys ["P"; "T"; "TI"; "E"; "EI"; "X"] @ ["S"; "O"; "C"]
  | _ -> List.concat_map with_keys ["I"; "E"; "X"; "F"] @ ["C"; "T"]

let () =
  let ic = open_in Sys.argv.(1) in
  (try
    while true do
      let line = input_line ic in
      match List.filter (fun s -> s <> "") (split ' ' line) with
      | [("exh" | "exhv") as mode; kind; nk; len] ->
        let verbose = mode = "exhv" in
        let al = Array.of_list (alphabet kind (int_of_string nk)) in
        let len = int_of_string len in
        let ix = Array.make len 0 in
        let total = ref 0 and hh = ref 0 and differs = ref false in
        let continue = ref true in
        while !continue do
          let toks = Array.to_list (Array.map (fun i -> al.(i)) ix) in
          let sk = new_sink verbose in
          let (valid, note) = run_kind kind toks sk in
          if valid then begin
            incr total; hh := (!hh * 1000003 + sk.h) land mask;
            if note <> "" then differs := true;
            if verbose then print_endline (kind ^ " " ^ String.concat " " toks ^ " => " ^ Buffer.contents sk.b ^ note)
          end;
          let p = ref (len - 1) in
          let carry = ref true in
          while !carry && !p >= 0 do
            ix.(!p) <- ix.(!p) + 1;
            if ix.(!p) = Array.length al then (ix.(!p) <- 0; decr p) else carry := false
          done;
          if !p < 0 then continue := false
        done;
        Printf.printf "exh count=%d hash=%d fail=-%s\n" !total !hh (if !differs then " MODEL-DIFFERS-FROM-SPEC" else "")
      | kind :: toks ->
        let sk = new_sink true in
        let (valid, note) = run_kind kind toks sk in
        print_endline (Buffer.contents sk.b ^ (if valid then "" else " INVALID-HISTORY") ^ note)
      | [] -> print_endline "?"
    done
  with End_of_file -> ());
  close_in ic
