(* C17 driver: replays the case file on the extracted Coq models (Lru.lrun, Splay.srun); one line per case,
   same canonical text (and, for exh lines, the same rolling hash) as harness/C17/c17_harness.cpp. *)
open C17_model

let rec nat_of_int n = if n <= 0 then O else S (nat_of_int (n - 1))
let rec int_of_nat = function O -> 0 | S n -> 1 + int_of_nat n
let split c s = String.split_on_char c s
let n s = nat_of_int (int_of_string s)

let lru_op ismap tok =
  match split ',' tok with
  | ["P"; k; v] -> LPut (n k, if ismap then n v else O)
  | ["P"; k] -> LPut (n k, O)
  | ["T"; k] -> LTouch (n k)
  | ["TI"; k] -> LTouchIf (n k)
  | ["G"; k] -> LGet (n k)
  | ["GT"; k] -> LGetTouch (n k)
  | ["E"; k] -> LErase (n k)
  | ["EI"; k] -> LEraseIf (n k)
  | ["X"; k] -> LExists (n k)
  | ["S"] -> LSize
  | ["O"] -> LPop
  | ["C"] -> LClear
  | _ -> failwith ("bad lru op " ^ tok)

(* LruCacheSet's own model (C17/LruSet.v); get / get_touch do not exist there *)
let kset_op tok =
  match split ',' tok with
  | ["P"; k] | ["P"; k; _] -> Some (KPut (n k))
  | ["T"; k] -> Some (KTouch (n k))
  | ["TI"; k] -> Some (KTouchIf (n k))
  | ["E"; k] -> Some (KErase (n k))
  | ["EI"; k] -> Some (KEraseIf (n k))
  | ["X"; k] -> Some (KExists (n k))
  | ["S"] -> Some KSize
  | ["O"] -> Some KPop
  | ["C"] -> Some KClear
  | _ -> None

let splay_op tok =
  match split ',' tok with
  | ["I"; k] -> SInsert (n k)
  | ["E"; k] -> SErase (n k)
  | ["X"; k] -> SExists (n k)
  | ["F"; k] -> SFind (n k)
  | ["C"] -> SClear
  | ["T"] -> STraverse
  | _ -> failwith ("bad splay op " ^ tok)

(* sink: text buffer + rolling hash over the same integer stream as the C++ Sink *)
type sink = { text : bool; b : Buffer.t; mutable h : int }
let mask = (1 lsl 62) - 1
let num sk x = sk.h <- (sk.h * 1000003 + (x + 7)) land mask
let res sk c a bb =
  if sk.text then begin
    Buffer.add_char sk.b c;
    if a >= 0 then Buffer.add_string sk.b (string_of_int a);
    if bb >= 0 then (Buffer.add_char sk.b ':'; Buffer.add_string sk.b (string_of_int bb))
  end;
  num sk (Char.code c); num sk a; num sk bb
let sep sk c = if sk.text then Buffer.add_char sk.b c; num sk (Char.code c)
let key sk k first = if sk.text then (if not first then Buffer.add_char sk.b '.'; Buffer.add_string sk.b (string_of_int k)); num sk k
let kv sk k v first =
  if sk.text then (if not first then Buffer.add_char sk.b ','; Buffer.add_string sk.b (string_of_int k ^ ":" ^ string_of_int v));
  num sk k; num sk v
let word sk w = if sk.text then Buffer.add_string sk.b w; String.iter (fun c -> num sk (Char.code c)) w
let new_sink text = { text; b = Buffer.create 64; h = 0 }

(* A token is one harness call.  Two tokens are compound on the model side:
     PG,k,j  = put(k, get(j))           -> model history  [LGet j; LPut k v]  (no put when get throws)
     EN,k    = n = find(k); erase(n)    -> model history  [SFind k; SErase k] (no erase when the found key is not k)
     @OP,j,.. (cache) = OP with the key argument a reference to the stored value of j, obtained by get(j)
                        -> model history [LGet j; OP v ..]; prints ~ when get(j) throws
     @OP,j (tree)     = OP with the key argument a reference to the key of the node find(j) returns
                        -> model history [SFind j; OP x]; prints ~ when the tree is empty
     MV (cache)       = move the cache into a temporary and back: no model operation, prints u
     H,k / EH (tree)  = H: find(k), remember k when the found node has key k; EH: erase-by-node-pointer of the remembered
                        node = [SErase k]; the remembered node is forgotten after a successful erase of k or a clear
                        (it may have been freed); EH without a remembered node prints ~
   The argument value is taken at call time, so the model operation is the plain one.
   so the run is done token by token on the extracted lrun / srun (both take the start state). *)
let lru_show sk i r =
  if i > 0 then sep sk ' ';
  match r with
  | None -> res sk '~' (-1) (-1)
  | Some r -> match r with
  | RUnit -> res sk 'u' (-1) (-1)
  | RErr -> res sk '!' (-1) (-1)
  | RBool b -> res sk 'b' (if b then 1 else 0) (-1)
  | RVal v -> res sk 'v' (int_of_nat v) (-1)
  | RSize z -> res sk 's' (int_of_nat z) (-1)
  | RPop (k, v) -> res sk 'p' (int_of_nat k) (int_of_nat v)
  | RPre -> res sk '?' (-1) (-1)

let lstep1 s o = match lrun s [o] with (s1, [(r, _)]) -> (s1, r) | _ -> failwith "lrun"
let rstep1 l o = match lref_run l [o] with (l1, [(r, _)]) -> (l1, r) | _ -> failwith "lref_run"
let kstep1 s o = match krun s [o] with (s1, [(r, _)]) -> (s1, r) | _ -> failwith "krun"

(* returns (valid, note) *)
let run_lru ismap toks sk =
  let s = ref lru_init and l = ref [] and valid = ref true and differs = ref false in
  (* for LruCacheSet the class's own model runs alongside: kset_is_map_with_unit says the two agree on every
     history, so a difference here means the extracted code and the theorem have come apart *)
  let ks = ref (if ismap then None else Some kset_init) in
  let rec do_tok tok =
      if tok.[0] = '@' then begin
        match split ',' (String.sub tok 1 (String.length tok - 1)) with
        | nm :: j :: rest ->
          let (s1, g) = lstep1 !s (LGet (n j)) and (l1, g') = rstep1 !l (LGet (n j)) in
          s := s1; l := l1;
          (match g, g' with
           | RVal _, RVal _ ->
             (* the reference returned by get(j) is the stored value: read it from the recency lists *)
             let v = snd (List.find (fun (k, _) -> k = n j) !s.lst) in
             let v' = snd (List.find (fun (k, _) -> k = n j) !l) in
             if v <> v' then differs := true;
             do_tok (String.concat "," (nm :: string_of_int (int_of_nat v) :: rest))
           | RErr, RErr -> (None, None)
           | _ -> differs := true; (None, None))
        | _ -> failwith ("bad alias token " ^ tok)
      end else
      match split ',' tok with
      | ["MV"] -> (Some RUnit, Some RUnit)
      | ["PG"; k; j] ->
        let (s1, g) = lstep1 !s (LGet (n j)) and (l1, g') = rstep1 !l (LGet (n j)) in
        s := s1; l := l1;
        let put st step v = let (st1, _) = step st (LPut (n k, v)) in st1 in
        (Some (match g with RVal v -> s := put !s lstep1 v; RUnit | x -> x),
         Some (match g' with RVal v -> l := put !l rstep1 v; RUnit | x -> x))
      | _ ->
        let o = lru_op ismap tok in
        if not (lvalid !l [o]) then valid := false;
        let (s1, r) = lstep1 !s o and (l1, rr) = rstep1 !l o in
        (match !ks, kset_op tok with
         | Some k0, Some ko ->
           let (k1, kr) = kstep1 k0 ko in
           ks := Some k1;
           if kr <> r || List.map (fun k -> (k, O)) k1.klst <> s1.lst || k1.kidx <> s1.idx || k1.kbad <> s1.bad
           then differs := true
         | Some _, None -> differs := true   (* an operation LruCacheSet does not have *)
         | None, _ -> ());
        s := s1; l := l1; (Some r, Some rr) in
  List.iteri (fun i tok ->
    let (r, rr) = do_tok tok in
    if r <> rr || !s.lst <> !l then differs := true;
    lru_show sk i r) toks;
  sep sk '|';
  List.iteri (fun i (k, v) -> kv sk (int_of_nat k) (int_of_nat v) (i = 0)) (List.rev !s.lst);
  sep sk '|';
  word sk (if !s.bad then "MODELBAD" else "ok");
  (!valid, (if !valid && !differs then " MODEL-DIFFERS-FROM-SPEC" else ""))

let sstep1 dup s o = match srun dup s [o] with (s1, [out]) -> (s1, out) | _ -> failwith "srun"
let rrun1 dup l o = match rrun dup l [o] with (l1, [out]) -> (l1, out) | _ -> failwith "rrun"

let run_splay dup toks sk =
  let s = ref st_init and l = ref [] and differs = ref false and held = ref None in
  let forget k = if !held = Some k then held := None in
  let plain o =
    let (s1, out) = sstep1 dup !s o and (l1, rout) = rrun1 dup !l o in
    s := s1; l := l1;
    if abs_out [o] [out] <> [rout] then differs := true;
    (match o, out with
     | SErase k, ((SBool true, _), _) -> forget k
     | SClear, _ -> held := None
     | _ -> ());
    out in
  let rec do_tok tok =
      if tok.[0] = '@' then begin
        match split ',' (String.sub tok 1 (String.length tok - 1)) with
        | [nm; j] ->
          let (s1, ((f, z1), ks1)) = sstep1 dup !s (SFind (n j)) and (l1, _) = rrun1 dup !l (SFind (n j)) in
          s := s1; l := l1;
          (match f with
           | SFound (Some x) -> do_tok (nm ^ "," ^ string_of_int (int_of_nat x))
           | _ -> if !l <> [] then differs := true; ((None, z1), ks1))
        | _ -> failwith ("bad alias token " ^ tok)
      end else
      let ((r, z), ks) =
      match split ',' tok with
      | ["EN"; k] ->
        let (s1, ((f, z1), ks1)) = sstep1 dup !s (SFind (n k)) and (l1, _) = rrun1 dup !l (SFind (n k)) in
        s := s1; l := l1;
        (match f with
         | SFound (Some x) when x = n k ->
           plain (SErase (n k))
         | _ -> if List.mem (n k) !l then differs := true; ((SBool false, z1), ks1))
      | ["H"; k] ->
        let out = plain (SFind (n k)) in
        (match out with ((SFound (Some x), _), _) when x = n k -> held := Some x | _ -> ());
        out
      | ["EH"] ->
        (match !held with
         | Some k -> let out = plain (SErase k) in held := None; out
         | None -> ((SUnit, !s.sz), keys !s.root))
      | _ -> plain (splay_op tok) in
      (((if tok = "EH" && r = SUnit then None else Some r), z), ks) in
  List.iteri (fun i tok ->
    if i > 0 then sep sk ' ';
    let ((r, z), ks) = do_tok tok in
    (match r with
     | None -> res sk '~' (-1) (-1)
     | Some r -> match r with
     | SBool b -> res sk 'b' (if b then 1 else 0) (-1)
     | SFound None -> res sk 'f' (-1) (-1); sep sk '-'
     | SFound (Some k) -> res sk 'f' (int_of_nat k) (-1)
     | SUnit -> res sk 'u' (-1) (-1)
     | SKeys _ -> res sk 't' (-1) (-1));
    sep sk '/'; num sk (int_of_nat z); if sk.text then Buffer.add_string sk.b (string_of_int (int_of_nat z));
    sep sk '/';
    List.iteri (fun j k -> key sk (int_of_nat k) (j = 0)) ks) toks;
  sep sk '|';
  word sk (if ledger_ok (destroy !s) then "ok" else "bad");
  (true, (if !differs then " MODEL-DIFFERS-FROM-SPEC" else ""))

(* kind[:variant] -- the variant only selects the C++ instantiation; the model is the same *)
let base_kind kindv = List.hd (split ':' kindv)

let run_kind kindv toks sk =
  match base_kind kindv with
  | "lrumap" -> run_lru true toks sk
  | "lruset" -> run_lru false toks sk
  | "splayset" -> run_splay false toks sk
  | "splaymulti" -> run_splay true toks sk
  | _ -> word sk "?"; (true, "")

let alphabet kindv nk =
  let kind = base_kind kindv in
  let ks = List.init nk string_of_int in
  let with_keys nm = List.map (fun k -> nm ^ "," ^ k) ks in
  match kind with
  | "lrumap" ->
    List.concat_map (fun k -> ["P," ^ k ^ ",1"; "P," ^ k ^ ",2"]) ks
    @ List.concat_map with_keys ["T"; "TI"; "G"; "GT"; "E"; "EI"; "X"] @ ["S"; "O"; "C"]
  | "lruset" -> List.concat_map with_keys ["P"; "T"; "TI"; "E"; "EI"; "X"] @ ["S"; "O"; "C"]
  | _ -> List.concat_map with_keys ["I"; "E"; "X"; "F"] @ ["C"; "T"]

let () =
  let ic = open_in Sys.argv.(1) in
  (try
    while true do
      let line = input_line ic in
      match List.filter (fun s -> s <> "") (split ' ' line) with
      | [("exh" | "exhv") as mode; kind; nk; len] ->
        let verbose = mode = "exhv" in
        let al = Array.of_list (alphabet kind (int_of_string nk)) in
        let len = int_of_string len in
        let ix = Array.make len 0 in
        let total = ref 0 and hh = ref 0 and differs = ref false in
        let continue = ref true in
        while !continue do
          let toks = Array.to_list (Array.map (fun i -> al.(i)) ix) in
          let sk = new_sink verbose in
          let (valid, note) = run_kind kind toks sk in
          if valid then begin
            incr total; hh := (!hh * 1000003 + sk.h) land mask;
            if note <> "" then differs := true;
            if verbose then print_endline (kind ^ " " ^ String.concat " " toks ^ " => " ^ Buffer.contents sk.b ^ note)
          end;
          let p = ref (len - 1) in
          let carry = ref true in
          while !carry && !p >= 0 do
            ix.(!p) <- ix.(!p) + 1;
            if ix.(!p) = Array.length al then (ix.(!p) <- 0; decr p) else carry := false
          done;
          if !p < 0 then continue := false
        done;
        Printf.printf "exh count=%d hash=%d fail=-%s\n" !total !hh (if !differs then " MODEL-DIFFERS-FROM-SPEC" else "")
      | kind :: toks ->
        let sk = new_sink true in
        let (valid, note) = run_kind kind toks sk in
        print_endline (Buffer.contents sk.b ^ (if valid then "" else " INVALID-HISTORY") ^ note)
      | [] -> print_endline "?"
    done
  with End_of_file -> ());
  close_in ic
