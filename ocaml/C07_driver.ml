(* C07 driver: runs the extracted model (C07/PMWM.v, run_model) on every case of the case file and prints
   one line per case in the format of harness/C07/pmwm_harness.cpp (without the fp field). *)
open C07_model

let rec nat_of_int n = if n <= 0 then O else S (nat_of_int (n - 1))
let rec int_of_nat = function O -> 0 | S n -> 1 + int_of_nat n

let () =
  let ic = open_in Sys.argv.(1) in
  (try
    while true do
      let line = input_line ic in
      if line <> "" && line.[0] <> '#' then begin
        let toks = Array.of_list (List.filter (fun s -> s <> "") (String.split_on_char ' ' line)) in
        let pos = ref 0 in
        let next () = let v = int_of_string toks.(!pos) in incr pos; v in
        let entry = next () in let split = next () in let p = next () in let os = next () in
        let _mwma = next () in let fseq = next () in let fpar = next () in let mink = next () in
        let minn = next () in let size = next () in let k = next () in
        let seqs = List.init k (fun s ->
          let len = next () in
          List.init len (fun i -> let key = next () in (nat_of_int key, (nat_of_int s, nat_of_int i)))) in
        let stable = (entry = 1 || entry = 3) in
        (* the *_sentinels entry points: one sentinel element behind every sequence, greater than all real keys *)
        let maxkey = List.fold_left (fun m l -> List.fold_left (fun m (key, _) -> max m (int_of_nat key)) m l) 0 seqs in
        let sentinels = if entry >= 2 then Some (List.init k (fun s -> (nat_of_int (maxkey + 1), (nat_of_int s, O)))) else None in
        match run_model (fseq <> 0) (fpar <> 0) (nat_of_int mink) (nat_of_int minn) stable sentinels (split = 0)
                seqs (nat_of_int size) (nat_of_int p) (nat_of_int os) with
        | None -> print_endline "UB"
        | Some r ->
          let cnt = Array.make (size + 1) 0 in
          let out = Array.make (size + 1) "-7:-7:-7" in
          let oob = ref 0 in
          let wins = ref [] in
          List.iter (fun t ->
            let tp = int_of_nat t.tpos and tl = int_of_nat t.tlen in
            if tl > 0 then wins := (tp, tl) :: !wins;
            List.iteri (fun j (key, (s, i)) ->
              if j < tl then begin
                let q = tp + j in
                if q < 0 || q >= size then incr oob
                else begin
                  cnt.(q) <- cnt.(q) + 1;
                  out.(q) <- Printf.sprintf "%d:%d:%d" (int_of_nat key) (int_of_nat s) (int_of_nat i)
                end
              end) t.tout;
            (* a thread announcing more elements than its merge produced leaves holes *)
            ()) r.p_threads;
          let wins = List.sort compare !wins in
          let verdict =
            if !oob <> 0 then Printf.sprintf "oob%d" !oob
            else begin
              let v = ref "ok" in
              (try for i = 0 to size - 1 do
                 if cnt.(i) > 1 then (v := Printf.sprintf "multi@%d" i; raise Exit);
                 if cnt.(i) = 0 then (v := Printf.sprintf "missing@%d" i; raise Exit)
               done with Exit -> ());
              !v
            end in
          Printf.printf "ret=%d cur=%s out=%s win=%s w=%s\n" (int_of_nat r.p_ret)
            (String.concat "," (List.map (fun c -> string_of_int (int_of_nat c)) r.p_cursors))
            (String.concat "," (Array.to_list (Array.sub out 0 size)))
            (String.concat "," (List.map (fun (a, b) -> Printf.sprintf "%d+%d" a b) wins))
            verdict
      end
    done
  with End_of_file -> ());
  close_in ic
