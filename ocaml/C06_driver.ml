(* C06 driver: runs the extracted model of parallel_mergesort on every case of the case file (argv[1]);
   one canonical output line per case (same format as harness/C06/pms_harness.cpp).
   case:  <elem:int|pair|trk> <S|U> <E|X> <L|G> <p> <oversampling> <k1,k2,...|-> [<api variant, ignored here>]  *)
open C06_model

let rec nat_of_int n = if n <= 0 then O else S (nat_of_int (n - 1))
let rec int_of_nat = function O -> 0 | S n -> 1 + int_of_nat n

let rec pos_of_int n = if n <= 1 then XH else if n land 1 = 0 then XO (pos_of_int (n lsr 1)) else XI (pos_of_int (n lsr 1))
let n_of_int n = if n <= 0 then N0 else Npos (pos_of_int n)
let rec int_of_pos = function XH -> 1 | XO p -> 2 * int_of_pos p | XI p -> 2 * int_of_pos p + 1
let int_of_n = function N0 -> 0 | Npos p -> int_of_pos p

let join l = String.concat "," (List.map string_of_int l)

let () =
  let ic = open_in Sys.argv.(1) in
  (try
    while true do
      let line = input_line ic in
      match List.filter (fun s -> s <> "") (String.split_on_char ' ' line) with
      | elem :: stab :: split :: cmp :: p :: os :: keys :: _ ->
        let keys = if keys = "-" then [] else List.map int_of_string (String.split_on_char ',' keys) in
        let rev = (cmp = "G") and sampling = (split = "X") in
        let input = index_input (List.map n_of_int keys) in
        let r = pms_ref rev sampling (nat_of_int (int_of_string os)) (nat_of_int (int_of_string p)) input in
        let arr = List.map (fun (k, i) -> (int_of_n k, int_of_nat i)) r.res_array in
        let b = Buffer.create 256 in
        Buffer.add_string b ("keys=" ^ join (List.map fst arr));
        Buffer.add_string b (" ord=" ^ (if elem = "int" then "-" else join (List.map snd arr)));
        let wins = List.filter (fun l -> l > 0) (List.map (fun (_, l) -> int_of_nat l) r.res_windows) in
        Buffer.add_string b (" win=" ^ (if elem = "pair" then join wins else "-"));
        let leak = int_of_nat (temporaries_live_after true (nat_of_int (List.length keys)) (nat_of_int (int_of_string p))) in
        Buffer.add_string b (Printf.sprintf " leak=%d err=0" leak);
        if not r.res_ok then Buffer.add_string b " MODEL-NOT-OK";
        if r.res_array <> stable_sort_ref rev input then Buffer.add_string b " MODEL-DIFFERS-FROM-SPEC";
        ignore stab;
        print_endline (Buffer.contents b)
      | [] -> ()
      | _ -> print_endline "?"
    done
  with End_of_file -> ());
  close_in ic
