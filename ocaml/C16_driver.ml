(* C16 driver: replays the case file on the extracted Coq model; one output line per case. *)
open C16_model

let rec nat_of_int n = if n <= 0 then O else S (nat_of_int (n - 1))
let rec int_of_nat = function O -> 0 | S n -> 1 + int_of_nat n
let split c s = String.split_on_char c s

let ring_op tok =
  match split ',' tok with
  | ["A"; i; m] -> OAlloc (nat_of_int (int_of_string i), nat_of_int (int_of_string m))
  | ["D"; i] -> ODealloc (nat_of_int (int_of_string i))
  | ["PB"; i; v] -> OPushBack (nat_of_int (int_of_string i), nat_of_int (int_of_string v))
  | ["PF"; i; v] -> OPushFront (nat_of_int (int_of_string i), nat_of_int (int_of_string v))
  | ["PoF"; i] -> OPopFront (nat_of_int (int_of_string i))
  | ["PoB"; i] -> OPopBack (nat_of_int (int_of_string i))
  | ["CL"; i] -> OClear (nat_of_int (int_of_string i))
  | ["CA"; i; j] -> OCopyAssign (nat_of_int (int_of_string i), nat_of_int (int_of_string j))
  | ["MA"; i; j] -> OMoveAssign (nat_of_int (int_of_string i), nat_of_int (int_of_string j))
  | ["CC"; i; j] -> OCopyCtor (nat_of_int (int_of_string i), nat_of_int (int_of_string j))
  | ["MC"; i; j] -> OMoveCtor (nat_of_int (int_of_string i), nat_of_int (int_of_string j))
  | ["Q"; i] -> OQuery (nat_of_int (int_of_string i))
  | _ -> failwith ("bad ring op " ^ tok)

let svec_op tok =
  let n s = nat_of_int (int_of_string s) in
  match split ',' tok with
  | ["M"; i; k] -> VMake (n i, n k)
  | ["R"; i; k] -> VResize (n i, n k)
  | ["S"; i; k; x] -> VSet (n i, n k, n x)
  | ["X"; i] -> VDestroy (n i)
  | ["MA"; i; j] -> VMoveAssign (n i, n j)
  | ["MC"; i; j] -> VMoveCtor (n i, n j)
  | ["SW"; i; j] -> VSwap (n i, n j)
  | ["Q"; i] -> VQuery (n i)
  | _ -> failwith ("bad svec op " ^ tok)

let show_opt = function None -> "-" | Some v -> string_of_int (int_of_nat v)
let show_elems l = String.concat "." (List.map (fun o -> match o with Some v -> string_of_int (int_of_nat v) | None -> "RAW") l)

let show_out ((((sz, emp), cont), fr), bk) =
  Printf.sprintf "Q:%d:%d:%s:%s:%s " (int_of_nat sz) (if emp then 1 else 0) (show_elems cont) (show_opt fr) (show_opt bk)

let () =
  let ic = open_in Sys.argv.(1) in
  (try
    while true do
      let line = input_line ic in
      match List.filter (fun s -> s <> "") (split ' ' line) with
      | "ring" :: toks ->
        (* "MT,i" (move_to) is a query followed by clear; its reported live count is the one after the clear *)
        let mt_vars = ref [] in
        let toks = List.concat_map (fun t -> match split ',' t with
          | ["MT"; i] -> mt_vars := int_of_string i :: !mt_vars; ["MTQ," ^ i; "CL," ^ i]
          (* "SL,i,j,a,m,v1.v2..." : save buffer j (max_size m, contents v1, v2, ...) and load it into buffer i (a = 1: i has storage):
             load() = [deallocate the old storage]; allocate(m); push_back every element *)
          | "SL" :: i :: _j :: a :: m :: rest ->
            let vs = match rest with [""] | [] -> [] | [l] -> List.filter (fun x -> x <> "") (split '.' l) | _ -> [] in
            (if a = "1" then ["D," ^ i] else []) @ ["A," ^ i ^ "," ^ m] @ List.map (fun v -> "PB," ^ i ^ "," ^ v) vs
          | _ -> [t]) toks in
        let ops = List.map (fun t -> match split ',' t with ["MTQ"; i] -> OQuery (nat_of_int (int_of_string i)) | _ -> ring_op t) toks in
        let is_mtq = List.map (fun t -> match split ',' t with ["MTQ"; _] -> true | _ -> false) toks in
        let specinit = [SNone; SNone; SNone] in
        let v = valid specinit ops in
        let (s, outs) = run init_state ops in
        let (_, souts) = srun specinit ops in
        let b = Buffer.create 64 in
        (* stepwise replay to report the number of live element objects at every query *)
        let st = ref init_state in
        let pending = ref None in
        List.iter2 (fun o mtq -> let (s', out) = step !st o in st := s';
                    (match !pending with Some q -> Buffer.add_string b (show_out q); Buffer.add_string b (Printf.sprintf "live=%d " (int_of_nat (live_slots s'))); pending := None | None -> ());
                    match out with
                    | Some q -> if mtq then pending := Some q
                                else (Buffer.add_string b (show_out q); Buffer.add_string b (Printf.sprintf "live=%d " (int_of_nat (live_slots s'))))
                    | None -> ()) ops is_mtq;
        ignore outs;
        Buffer.add_string b (if final_bad s then "final=bad" else "final=ok");
        if not v then Buffer.add_string b " INVALID-HISTORY";
        if outs <> souts then Buffer.add_string b " MODEL-DIFFERS-FROM-SPEC";
        print_endline (Buffer.contents b)
      | "svec" :: toks ->
        (* "F,i,x,n" = fill(x) on a vector of n elements = n element assignments; "F0,i,n" = fill() with value_type() *)
        let rec upto k n = if k >= n then [] else k :: upto (k + 1) n in
        let toks = List.concat_map (fun t -> match split ',' t with
          | ["F"; i; x; n] -> List.map (fun k -> Printf.sprintf "S,%s,%d,%s" i k x) (upto 0 (int_of_string n))
          | ["F0"; i; n] -> List.map (fun k -> Printf.sprintf "S,%s,%d,0" i k) (upto 0 (int_of_string n))
          | _ -> [t]) toks in
        let ops = List.map svec_op toks in
        let (s, outs) = vrun vinit ops in
        let sv = svalid [[]; []; []] ops in
        let (_, souts) = srun0 [[]; []; []] ops in
        let b = Buffer.create 64 in
        let st = ref vinit in
        List.iter (fun o -> let (s', out) = vstep !st o in st := s';
                    match out with
                    | Some l -> Buffer.add_string b ("Q:" ^ String.concat "." (List.map (fun v -> string_of_int (int_of_nat v)) l) ^ " ");
                                Buffer.add_string b (Printf.sprintf "live=%d " (int_of_nat (live_elems s'.vheap)))
                    | None -> ()) ops;
        Buffer.add_string b (if vfinal_ok s then "final=ok" else "final=bad");
        if not sv then Buffer.add_string b " INVALID-HISTORY";
        if outs <> souts then Buffer.add_string b " MODEL-DIFFERS-FROM-SPEC";
        print_endline (Buffer.contents b)
      | _ -> print_endline "?"
    done
  with End_of_file -> ());
  close_in ic
